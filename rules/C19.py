"""C19 - clock synchronisation (partial claim: pairing discipline and the algebra of the fitted map)."""
import ast

from sa.algebra import Evaluator, Poly, Undecided
from sa.common import expand_name, returns_of
from sa.defuse import DefUse, loc_name
from sa.model import AnalysisError, AnchorMissing, const_value, src, walk_function
from sa.struct import call_name, find, kwarg, norm

EXPLANATION = (
    "Partial claim. Decides the structural necessary conditions of 'every returned index pair is a true correspondence' and of the reported map in "
    "utils.sync_timestamps: (D1) pair alignment - the two returned index vectors are (where(ib >= 0)[0], ib[ib >= 0]), i.e. position m of the first and "
    "the match stored for m, cut by ONE mask; the fit and the interpolant use tsa[ib >= 0] against tsb[ib[ib >= 0]] with the same mask; ib starts at -1 "
    "(no match); (D2) the second assignment pass is one-to-one: candidates are the still-unmatched events of both series (ib < 0; indices of tsb not in "
    "ib), the distance matrix is (unmatched b) x (unmatched a), the arg-min is unravelled in that (b, a) order, the match is stored through the two "
    "unmatched-index lists, and BOTH the row and the column of a matched pair are blanked, so no event of either series is matched twice; distances "
    "above one bin are excluded before; (D3) the reported linear map and drift are the fit they claim to be: the fit is of (tsb - tsa) against tsa, "
    "degree 1, fcn(x) - x == ab[0] * x + ab[1] and drift_ppm == ab[0] * 1e6; the coarse offset is (peak lag of correlate(x, y, 'full') - (len - 1)) * tbin "
    "and is subtracted from tsa before the first assignment. Accuracy (held-out error, recovered drift, 'nearly all' pairs) is NOT decided."
    ' (as built) rasters are identified by the series that marks them, whatever they are called; an identity pairing returned by a fast path must be accepted by a per-pair bound, not an aggregate misfit.'
    ' (D1 selector form) the matched events may be selected through a local holding where(ib >= 0)[0]: both sides of a pairing use the same selector and no store into ib lies between its definition and its use.'
)
ASSUMPTIONS = [
    "scipy.signal.correlate(x, y, 'full')[k] peaks at k = (len(y) - 1) + d when x is y delayed by d bins (model table)",
    "np.unravel_index(i, shape) returns indices in the order of `shape`",
    "np.polyfit(x, y, 1) returns [slope, intercept]",
]

FN = "ibldsp.utils.sync_timestamps"


def _deep(du, e, at):
    """`e` with every local that has a single plain definition substituted away (so that naming an intermediate step changes nothing)"""
    import copy

    class X(ast.NodeTransformer):
        depth = 0

        def visit_Name(self, node):
            if not isinstance(node.ctx, ast.Load):
                return node
            v = expand_name(du, node, at)
            if v is node or isinstance(v, (ast.Lambda,)) or self.depth > 12 or any(isinstance(n_, ast.Name) and n_.id == node.id for n_ in ast.walk(v)):
                return node          # x = f(x): the name stands for itself
            self.depth += 1
            try:
                return self.visit(copy.deepcopy(v))
            finally:
                self.depth -= 1
    return X().visit(copy.deepcopy(e)) if e is not None else None


def _mask_is_matched(e):
    """ib >= 0 (any spelling of 'a match is stored')"""
    return isinstance(e, ast.Compare) and len(e.ops) == 1 and loc_name(e.left) == "ib" and (
        (isinstance(e.ops[0], ast.GtE) and const_value(e.comparators[0]) == (True, 0)) or
        (isinstance(e.ops[0], ast.Gt) and const_value(e.comparators[0]) == (True, -1)) or
        (isinstance(e.ops[0], ast.NotEq) and const_value(e.comparators[0]) == (True, -1)))


AGGREGATES = ("rms", "mean", "nanmean", "median", "nanmedian", "std", "nanstd", "var", "norm", "sum", "average")


def _identity_fast_path(ctx, repo, fi, du, r):
    """A return of (.., arange(n), ib) where ib is the identity pairing arange(n) handed out by a guarded helper / branch: every event is paired with the
    event of the same rank.  That is a set of true correspondences only if EVERY pair passes the one-bin test the general path applies - an aggregate misfit
    (rms / mean / norm of the residuals) below the bin does not bound the individual pairs.  -> set of def ids of `ib` it covers, or None if not this idiom."""
    ibn = r.value.elts[3]
    if not isinstance(ibn, ast.Name):
        return None
    ds = du.strong_reaching(ibn.id, r)
    if len(ds) != 1 or ds[0].kind != "assign" or not isinstance(ds[0].value, ast.Call):
        return None
    q = repo.resolve_call(fi, ds[0].value)
    if not (q and repo.has_fn(q)):
        return None
    g = repo.fn(q)
    rets = [x for x in returns_of(g.node) if x.value is not None and not (isinstance(x.value, ast.Constant) and x.value.value is None)]
    if len(rets) != 1 or not (isinstance(rets[0].value, ast.Call) and call_name(rets[0].value) == "arange"):
        return None
    ctx.shared.setdefault("C19.fast_helpers", set()).add(g.qualname)
    # first element: arange(ib.size) / where(ib >= 0)[0]
    ia = expand_name(du, r.value.elts[2], r)
    ok_ia = (isinstance(ia, ast.Call) and call_name(ia) == "arange" and "ib" in src(ia)) or ("where" in src(ia) and "ib" in src(ia))
    ctx.check(ok_ia, fi, r, r, "identity pairing: event m of tsa with event m of tsb", f"`{src(r.value.elts[2])}` is not the index of every event of tsa", key="fast-pairs")
    # the guard of the arange return
    dug = DefUse(g.node)
    cfg = dug.cfg
    per_pair = False
    aggregate = None
    for t, pol in cfg.guards(cfg.node_for(rets[0])):
        if not pol:
            continue
        tt = t
        if isinstance(tt, ast.Compare) and len(tt.ops) == 1 and isinstance(tt.ops[0], (ast.Lt, ast.LtE)):
            lhs = _deep(dug, tt.left, rets[0])
            lt = src(lhs).replace(" ", "")
            if ("max(" in lt or "amax(" in lt or ".max()" in lt) and "abs(" in lt:
                per_pair = True
            else:
                for c_ in find(lhs, ast.Call):
                    if call_name(c_) in AGGREGATES:
                        aggregate = (call_name(c_), tt)
        elif isinstance(tt, ast.Call) and call_name(tt) == "all":
            inner_ = _deep(dug, tt.args[0] if tt.args else tt.func.value, rets[0])
            if "abs(" in src(inner_):
                per_pair = True
    if per_pair:
        ctx.ok(g, rets[0], rets[0], "the identity pairing is accepted only when every single pair is within the bin", key="fast-accept")
    elif aggregate is not None:
        ctx.violation(g, aggregate[1], aggregate[1], f"the identity pairing (event m with event m) is accepted when `{src(aggregate[1])[:70]}`: {aggregate[0]}(...) is an aggregate over all pairs, it "
                      "does not bound the individual ones - with the same number of events missing on either side a few ranks are shifted by one event, the aggregate "
                      "stays below the bin when those events are close in time, and the shifted (false) pairs are returned and fitted", key="fast-accept", name_free=True)
    else:
        raise AnalysisError(f"{g.qualname}: acceptance test of the identity pairing not understood")
    return {ds[0].idx}


def _selector(du, e, at):
    """How an index expression selects the matched events: ("mask",) for `ib >= 0` written in place, ("idx", name, def) for a local holding where(ib >= 0)[0] /
    flatnonzero(ib >= 0); None otherwise."""
    if _mask_is_matched(e):
        return ("mask",)
    if isinstance(e, ast.Name):
        ds = du.strong_reaching(e.id, at)
        if len(ds) == 1 and ds[0].kind == "assign" and ds[0].value is not None:
            v = ds[0].value
            if isinstance(v, ast.Subscript) and const_value(v.slice) == (True, 0) and isinstance(v.value, ast.Call) and call_name(v.value) in ("where", "nonzero") and v.value.args \
                    and _mask_is_matched(v.value.args[0]):
                return ("idx", e.id, ds[0])
            if isinstance(v, ast.Call) and call_name(v) == "flatnonzero" and v.args and _mask_is_matched(v.args[0]):
                return ("idx", e.id, ds[0])
            if _mask_is_matched(v):
                return ("idx", e.id, ds[0])
    return None


def _stale(du, sel, at):
    """A selector computed once (a local) describes `ib` as it was then: a store into ib on a path from its definition to the use makes it stale. -> the store or None"""
    if sel is None or sel[0] != "idx":
        return None
    cfg = du.cfg
    d = sel[2]
    un = cfg.node_for(at)
    for m in du.defs:
        if m.var == "ib" and m.kind in ("mutate", "aug", "assign") and m.node.id != d.node.id:
            if cfg.reachable(d.node, m.node) and cfg.reachable(m.node, un):
                return m
    return None


def _pairs_through_selector(ctx, repo, fi, du, x, y, at, what, key):
    """x = tsa[S] and y = tsb[ib[S]] (or ib[S]) with one selector S that still describes ib at `at`. -> True when this form applies (instances recorded)."""
    if not (isinstance(x, ast.Subscript) and isinstance(y, ast.Subscript)):
        return False
    sx = _selector(du, x.slice, at)
    inner = y.slice if loc_name(y.value) == "ib" else (y.slice.slice if isinstance(y.slice, ast.Subscript) and loc_name(y.slice.value) == "ib" else None)
    sy = _selector(du, inner, at) if inner is not None else None
    if sx is None or sy is None:
        return False
    same = sx[:2] == sy[:2]
    ctx.check(same, fi, at, f"{what}: {src(x)[:40]} / {src(y)[:40]}", "both sides select the matched events with one selector",
              f"{what}: `{src(x)[:50]}` and `{src(y)[:50]}` select the matched events differently: pairs are mis-aligned", key=key + ":same", name_free=True)
    m = _stale(du, sx, at) or _stale(du, sy, at)
    ctx.check(m is None, fi, at, f"{what}: selector up to date", "the selector of the matched events is computed after the last store into the match vector",
              (f"{what}: the matched events are selected with `{sx[1] if sx[0] == 'idx' else sy[1]}`, computed at line {getattr((sx if sx[0] == 'idx' else sy)[2].stmt, 'lineno', '?')} - before "
               f"`{src(m.stmt)[:60]}` (line {getattr(m.stmt, 'lineno', '?')}) stored further matches into ib: the pairs found afterwards are missing from {what} "
               "(true correspondences dropped; the map is fitted / interpolated without them)") if m is not None else "", key=key + ":fresh", name_free=True)
    return True


def d1_pairs(ctx):
    ctx.rule("D1", "returned pairs are (where(ib >= 0)[0], ib[ib >= 0]) under one mask; the fit pairs tsa[mask] with tsb[ib[mask]]; ib initialised to -1")
    repo = ctx.repo
    fi = repo.fn(FN)
    du = DefUse(fi.node)
    rets = [r for r in returns_of(fi.node) if isinstance(r.value, ast.Tuple) and len(r.value.elts) == 4]
    if not rets:
        raise AnchorMissing("sync_timestamps: return with the two index vectors not found")
    fast_defs = set()
    for r in rets:
        fp = _identity_fast_path(ctx, repo, fi, du, r)
        if fp is not None:
            fast_defs |= fp
            continue
        ia, ibv = expand_name(du, r.value.elts[2], r), expand_name(du, r.value.elts[3], r)
        # a named mask (matched = ib >= 0) is the mask
        class _M(ast.NodeTransformer):
            def visit_Name(self, node):
                v = expand_name(du, node, r)
                return v if (v is not node and _mask_is_matched(v)) else node
        import copy as _copy
        ia, ibv = _M().visit(_copy.deepcopy(ia)), _M().visit(_copy.deepcopy(ibv))
        ok_a = isinstance(ia, ast.Subscript) and const_value(ia.slice) == (True, 0) and isinstance(ia.value, ast.Call) and call_name(ia.value) in ("where", "nonzero") \
            and ia.value.args and _mask_is_matched(ia.value.args[0])
        ok_a = ok_a or (isinstance(ia, ast.Call) and call_name(ia) == "flatnonzero" and ia.args and _mask_is_matched(ia.args[0]))
        ok_b = isinstance(ibv, ast.Subscript) and loc_name(ibv.value) == "ib" and _mask_is_matched(ibv.slice)
        if not (ok_a and ok_b):
            r2, r3 = r.value.elts[2], r.value.elts[3]
            sa_ = _selector(du, r2, r)
            if sa_ is not None and sa_[0] == "idx" and isinstance(r3, ast.Subscript) and loc_name(r3.value) == "ib":
                sb_ = _selector(du, r3.slice, r)
                same = sb_ is not None and sb_[:2] == sa_[:2]
                ctx.check(same, fi, r, r, "k-th returned pair is (an index m of tsa with a match, the match stored for m)",
                          f"the returned index vectors `{src(r2)}` / `{src(r3)}` are not cut by one selector of the matched events", key="pair-mask", name_free=True)
                m = _stale(du, sa_, r)
                ctx.check(m is None, fi, r, "returned selector up to date", "the returned pairs include every match stored in ib",
                          (f"the returned pairs are selected with `{sa_[1]}`, computed at line {getattr(sa_[2].stmt, 'lineno', '?')} - before `{src(m.stmt)[:60]}` (line {getattr(m.stmt, 'lineno', '?')}) "
                           "stored further matches into ib: the pairs found by the second pass are not returned") if m is not None else "", key="pair-fresh", name_free=True)
                continue
        ctx.check(ok_a and ok_b, fi, r, r, "k-th returned pair is (an index m of tsa with a match, the match stored for m)",
                  f"the returned index vectors `{src(r.value.elts[2])}` / `{src(r.value.elts[3])}` are not cut by the one mask `ib >= 0`: pairs are mis-aligned (or the match with index 0 is dropped)",
                  key="pair-mask")
    # fit
    inner = [f for q, f in repo.functions.items() if q.startswith(FN + ".") and isinstance(f.node, ast.FunctionDef)]
    fit = None
    host = None
    for f in inner + [fi]:
        for c in find(f.node, ast.Call, nested=False):
            if call_name(c) == "polyfit" and not any(isinstance(n_, ast.Name) and n_.id == "ib" for n_ in ast.walk(c)) and f.qualname in ctx.shared.get("C19.fast_helpers", set()):
                continue        # the straight-line test of the identity pairing in the fast-path helper (no match vector involved)
            if call_name(c) == "polyfit" and (len(c.args) >= 3 or (len(c.args) == 2 and kwarg(c, "deg") is not None)):
                if len(c.args) == 2:     # degree passed by keyword
                    c = ast.copy_location(ast.Call(func=c.func, args=list(c.args) + [kwarg(c, "deg")], keywords=[k for k in c.keywords if k.arg != "deg"]), c)
                fit, host = c, f
    if fit is None:
        raise AnchorMissing("sync_timestamps: polyfit not found")
    x, y, deg = fit.args[:3]
    if host is not fi and isinstance(x, ast.Name) and x.id in host.params and isinstance(y, ast.BinOp) and isinstance(y.op, ast.Sub) and isinstance(y.left, ast.Name) \
            and y.left.id in host.params and norm(y.right) == norm(x) and const_value(deg) == (True, 1):
        # the helper receives the matched times themselves: fit(ta, tb - ta); every call site must pass tsa[S], tsb[ib[S]] with one up-to-date selector S
        from sa.calls import bind as _bind
        calls = [c for c in find(fi.node, ast.Call, nested=False) if isinstance(c.func, ast.Name) and c.func.id == host.node.name]
        okall = bool(calls)
        for c in calls:
            b = _bind(c, host)
            ax, ay = b.bound.get(x.id), b.bound.get(y.left.id)
            if ax is None or ay is None or not _pairs_through_selector(ctx, repo, fi, du, ax, ay, c, f"the fit / interpolation of call `{src(c)[:50]}`", f"fit-call:{calls.index(c)}"):
                okall = False
        if okall:
            it = [c for c in find(host.node, ast.Call, nested=False) if call_name(c) == "interp1d" and len(c.args) >= 2]
            for c in it:
                ok = [loc_name(a_) for a_ in c.args[:2]] == [x.id, y.left.id]
                ctx.check(ok, host, c, c, "the interpolant goes through the matched pairs", f"`{src(c)[:80]}` does not interpolate the matched times it was given", key="interp-pairs", name_free=True)
            x = y = None
    okx = isinstance(x, ast.Subscript) and loc_name(x.value) == "tsa" and _mask_is_matched(x.slice)
    oky = False
    if isinstance(y, ast.BinOp) and isinstance(y.op, ast.Sub):
        l, r_ = y.left, y.right
        oky = (isinstance(l, ast.Subscript) and loc_name(l.value) == "tsb" and isinstance(l.slice, ast.Subscript) and loc_name(l.slice.value) == "ib" and _mask_is_matched(l.slice.slice)
               and norm(r_) == norm(x))
    if x is not None:
        ctx.check(okx and oky and const_value(deg) == (True, 1), host, fit, fit, "degree-1 fit of (tsb[matched] - tsa[matched]) against tsa[matched], the same pairs on both sides",
                  f"`{src(fit)[:90]}` does not fit tsb[ib[mask]] - tsa[mask] against tsa[mask] with one mask: the drift is fitted through mis-paired events", key="fit-pairs")
    it = [c for c in find(host.node, ast.Call, nested=False) if call_name(c) == "interp1d" and len(c.args) >= 2] if x is not None else []
    for c in it:
        a, b = c.args[:2]
        ok = isinstance(a, ast.Subscript) and loc_name(a.value) == "tsa" and _mask_is_matched(a.slice) and isinstance(b, ast.Subscript) and loc_name(b.value) == "tsb" \
            and isinstance(b.slice, ast.Subscript) and loc_name(b.slice.value) == "ib" and _mask_is_matched(b.slice.slice)
        ctx.check(ok, host, c, c, "the interpolant goes through the matched pairs", f"`{src(c)[:80]}` does not interpolate tsa[mask] -> tsb[ib[mask]]", key="interp-pairs")
    init = [d for d in du.defs if d.var == "ib" and d.kind == "assign" and d.idx not in fast_defs]
    oki = False
    if init:
        v = init[0].value
        try:
            class E(Evaluator):
                def ev(self, e):
                    if isinstance(e, ast.Call) and call_name(e) in ("zeros", "zeros_like"):
                        return Poly.const(0)
                    if isinstance(e, ast.Call) and call_name(e) in ("ones", "ones_like"):
                        return Poly.const(1)
                    if isinstance(e, ast.Call) and call_name(e) == "full" and len(e.args) >= 2:
                        return self.ev(e.args[1])
                    return super().ev(e)
            oki = E().ev(v) == Poly.const(-1) and ("tsa" in src(v))
        except Undecided:
            oki = False
    ctx.check(oki, fi, init[0].stmt if init else fi.node, init[0].stmt if init else "ib", "every event of tsa starts unmatched (-1)", "ib is not initialised to -1 for every event of tsa: index 0 / stale values read as matches",
              key="init")


def d2_one_to_one(ctx):
    ctx.rule("D2", "second pass: unmatched x unmatched distance matrix, arg-min unravelled in the matrix's own (b, a) order, stored through the unmatched-index lists, row AND column blanked")
    repo = ctx.repo
    fi = repo.fn(FN)
    du = DefUse(fi.node)
    loops = [n for n in walk_function(fi.node) if isinstance(n, ast.While)]
    if not loops:
        raise AnchorMissing("sync_timestamps: second assignment loop not found")
    lp = loops[0]
    un = [n for n in ast.walk(lp) if isinstance(n, ast.Assign) and isinstance(n.value, ast.Call) and call_name(n.value) == "unravel_index"]
    if not un or not isinstance(un[0].targets[0], ast.Tuple) or len(un[0].targets[0].elts) != 2:
        raise AnchorMissing("sync_timestamps: unravel_index of the arg-min not found")
    r_name, c_name = [loc_name(e) for e in un[0].targets[0].elts]
    mat = None
    for a in ast.walk(un[0].value):
        if isinstance(a, ast.Call) and call_name(a) in ("nanargmin", "argmin") and a.args:
            mat = loc_name(a.args[0])
    shp = un[0].value.args[1] if len(un[0].value.args) > 1 else None
    ctx.check(mat is not None and shp is not None and src(shp) == f"{mat}.shape", fi, un[0], un[0], "the flat arg-min is unravelled with the matrix's own shape", "the arg-min is not unravelled with the distance matrix's shape",
              key="unravel")
    # matrix = |f(tsa[iamiss]) - tsb[ibmiss][:, newaxis]| : rows = unmatched b, columns = unmatched a
    md = [d for d in du.strong_reaching(mat, lp) if d.kind == "assign" and d.stmt is not None and not any(x is d.stmt for x in ast.walk(lp))]
    rows = cols = None
    if md:
        v = md[0].value
        subs = [b for b in find(v, ast.BinOp) if isinstance(b.op, ast.Sub)]
        if subs:
            for side in (subs[0].left, subs[0].right):
                is_col_vector = any(isinstance(s_, ast.Subscript) and isinstance(s_.slice, ast.Tuple) and len(s_.slice.elts) == 2 and "newaxis" in src(s_.slice.elts[1]) or
                                    (isinstance(s_, ast.Subscript) and isinstance(s_.slice, ast.Tuple) and len(s_.slice.elts) == 2 and isinstance(s_.slice.elts[1], ast.Constant) and s_.slice.elts[1].value is None)
                                    for s_ in find(side, ast.Subscript))
                names = {loc_name(s_.slice) for s_ in find(side, ast.Subscript) if loc_name(s_.slice)}
                series = "tsb" if "tsb" in src(side) else ("tsa" if "tsa" in src(side) else None)
                if is_col_vector:
                    rows = (series, names)
                else:
                    cols = (series, names)
    if rows is None or cols is None:
        raise AnalysisError("sync_timestamps: layout of the candidate distance matrix not understood")
    row_series, row_lists = rows
    col_series, col_lists = cols
    st = [n for n in ast.walk(lp) if isinstance(n, ast.Assign) and isinstance(n.targets[0], ast.Subscript) and loc_name(n.targets[0].value) == "ib"]
    oks = False
    detail = "store into ib not found"
    if st:
        t, v = st[0].targets[0], st[0].value
        # ib[<a list>[a index]] = <b list>[b index]
        a_idx = {"tsa": c_name, "tsb": r_name}[col_series] if col_series == "tsa" else r_name
        b_idx = r_name if row_series == "tsb" else c_name
        a_lists = col_lists if col_series == "tsa" else row_lists
        b_lists = row_lists if row_series == "tsb" else col_lists
        okt = isinstance(t.slice, ast.Subscript) and loc_name(t.slice.value) in a_lists and loc_name(t.slice.slice) == a_idx
        okv = isinstance(v, ast.Subscript) and loc_name(v.value) in b_lists and loc_name(v.slice) == b_idx
        oks = okt and okv
        detail = src(st[0])
    ctx.check(oks, fi, st[0] if st else lp, detail, "the match is stored for the right event of tsa with the right event of tsb (through the unmatched-index lists, axes not swapped)",
              f"`{detail}` does not store <unmatched b>[row] at <unmatched a>[column] of the distance matrix: pairs are swapped or taken from the wrong list", key="store")
    blank = [n for n in ast.walk(lp) if isinstance(n, ast.Assign) and isinstance(n.targets[0], ast.Subscript) and loc_name(n.targets[0].value) == mat and ("nan" in src(n.value) or "inf" in src(n.value))]
    # the value that takes an entry out of the candidate set: NaN (skipped by nanargmin) or +inf (never the arg-min while a finite candidate is left; the loop must stop when the minimum is inf)
    sentinel = "inf" if blank and all("inf" in src(n.value) for n in blank) else "nan"
    amin = [a for a in ast.walk(un[0].value) if isinstance(a, ast.Call) and call_name(a) in ("nanargmin", "argmin")]
    if sentinel == "inf":
        stops = [n for n in ast.walk(lp) if isinstance(n, ast.If) and any(isinstance(x, ast.Break) for x in n.body) and "inf" in src(n.test) and mat in src(n.test)]
        ok_s = bool(amin) and call_name(amin[0]) == "argmin" and bool(stops)
        ctx.check(ok_s, fi, un[0], un[0], "candidates are removed by setting them to +inf: plain arg-min, and the loop stops when the smallest remaining distance is inf",
                  "with +inf as the removed-candidate value the loop must use argmin and stop when the minimum is inf (otherwise removed pairs are matched again / the loop never ends)",
                  key="sentinel", name_free=True)
    else:
        ctx.check(bool(amin) and call_name(amin[0]) == "nanargmin", fi, un[0], un[0], "candidates are removed by setting them to NaN and skipped by nanargmin",
                  "candidates removed with NaN are not skipped: argmin returns a NaN entry", key="sentinel", name_free=True)
    got = set()
    for n in blank:
        sl = n.targets[0].slice
        if isinstance(sl, ast.Tuple) and len(sl.elts) == 2:
            a, b = sl.elts
            full = lambda x: isinstance(x, ast.Slice) and x.lower is None and x.upper is None
            if full(a) and loc_name(b) == c_name:
                got.add("col")
            if full(b) and loc_name(a) == r_name:
                got.add("row")
    ctx.check(got == {"row", "col"}, fi, blank[0] if blank else lp, f"blanked: {sorted(got)}", "after a match both events leave the candidate set (one-to-one)",
              f"only {sorted(got) or 'nothing'} of the matched pair is blanked in the candidate matrix: the same event of one series can be matched to several events of the other", key="blank")
    # candidates: unmatched a = where(ib < 0)[0]; unmatched b = indices of tsb not in ib[ib >= 0]
    am = [d for d in du.defs if d.var in (col_lists | row_lists) and d.kind == "assign"]
    oka = okb = False
    for d in am:
        v = d.value
        s_ = src(v)
        if "ib < 0" in s_ or "ib == -1" in s_:
            oka = "where" in s_ or "flatnonzero" in s_
        if call_name(v) in ("setxor1d", "setdiff1d") and "tsb" in s_ and "ib" in s_:
            okb = True
    ctx.check(oka and okb, fi, am[0].stmt if am else fi.node, "candidate lists", "candidates are the events of both series that are still unmatched",
              "the candidate lists of the second pass are not (events of tsa without a match, events of tsb not yet used)", key="candidates")
    thr = [n for n in walk_function(fi.node) if isinstance(n, ast.Assign) and isinstance(n.targets[0], ast.Subscript) and loc_name(n.targets[0].value) == mat
           and find(n.targets[0].slice, ast.Compare) and (sentinel in src(n.value)) and not any(x is n for x in ast.walk(lp))]
    okt = False
    if thr:
        sl_ = thr[0].targets[0].slice
        neg_ = isinstance(sl_, ast.UnaryOp) and isinstance(sl_.op, (ast.Invert, ast.Not))
        for c in find(sl_, ast.Compare):
            if loc_name(c.comparators[0]) == "tbin" and loc_name(c.left) == mat:
                okt = okt or (isinstance(c.ops[0], ast.Gt) and not neg_) or (isinstance(c.ops[0], ast.LtE) and neg_)
    ctx.check(okt, fi, thr[0] if thr else fi.node, thr[0] if thr else "dt[dt > tbin] = nan", "pairs farther apart than one bin are never candidates", "candidates farther apart than one bin are not excluded", key="threshold")


def d3_map_algebra(ctx):
    ctx.rule("D3", "linear map: fcn(x) - x == ab[0] * x + ab[1]; drift_ppm == ab[0] * 1e6; coarse offset = (peak lag - (len - 1)) * tbin, subtracted from tsa")
    repo = ctx.repo
    fi = repo.fn(FN)
    inner = [f for q, f in repo.functions.items() if q.startswith(FN + ".") and isinstance(f.node, ast.FunctionDef)]
    host = next((f for f in inner if any(call_name(c) == "polyfit" for c in find(f.node, ast.Call, nested=False))), fi)
    du = DefUse(host.node)
    fitd = [d for d in du.defs if d.kind == "assign" and isinstance(d.value, ast.Call) and call_name(d.value) == "polyfit"]
    if not fitd:
        raise AnchorMissing("sync_timestamps: polyfit result not found")
    ab = fitd[0].var
    lam = [n for n in ast.walk(host.node) if isinstance(n, ast.Lambda)]
    okl = False
    p = None
    for l in lam:
        if len(l.args.args) == 1:
            xn = l.args.args[0].arg
            try:
                p = Evaluator().ev(l.body)
            except Undecided:
                continue
            X, A0, A1 = Poly.sym(xn), Poly.sym(f"{ab}[0]"), Poly.sym(f"{ab}[1]")
            okl = (p - X) == A0 * X + A1
    ctx.check(okl, host, lam[0] if lam else host.node, f"fcn(x) = {p}", "the linear map adds the fitted difference to its argument", f"the linear map normalises to {p}: it is not x + (ab[0] * x + ab[1])", key="linear-map")
    dd = [d for d in du.defs if d.var == "drift_ppm" and d.kind == "assign"]
    okd = False
    if dd:
        try:
            okd = Evaluator().ev(dd[0].value) == Poly.sym(f"{ab}[0]") * Poly.const(1e6)
        except Undecided:
            okd = False
    ctx.check(okd, host, dd[0].stmt if dd else host.node, dd[0].stmt if dd else "drift_ppm", "drift in ppm is the fitted slope times 1e6", "the reported drift is not ab[0] * 1e6", key="drift")
    du0 = DefUse(fi.node)
    # rasters: a zeros vector in which the bins of ONE of the two series are set to 1 - identified by the series, whatever the vector is called
    rasters = {}
    snapshots = {}
    sizes = set()      # the length the rasters are allocated with (number of bins)
    for n in fi.node.body:           # straight-line part of the function: which series each vector carries, statement by statement
        if isinstance(n, ast.Assign) and len(n.targets) == 1:
            t0 = n.targets[0]
            if isinstance(t0, ast.Subscript) and isinstance(t0.value, ast.Name) and const_value(n.value) == (True, 1):
                idx = _deep(du0, t0.slice, n)
                for b_ in find(idx, ast.BinOp):
                    if isinstance(b_.op, ast.Sub) and loc_name(b_.left) in ("tsa", "tsb"):
                        rasters[t0.value.id] = loc_name(b_.left)
            elif isinstance(t0, ast.Name):
                if isinstance(n.value, ast.Name) and n.value.id in rasters:
                    rasters[t0.id] = rasters[n.value.id]          # alias of a raster
                elif isinstance(n.value, ast.Call) and call_name(n.value) in ("zeros", "zeros_like", "empty"):
                    rasters.pop(t0.id, None)                      # a fresh vector
                    rasters[t0.id] = None
                    if call_name(n.value) != "zeros_like" and n.value.args:
                        sizes.add(norm(_deep(du0, n.value.args[0], n)))
                elif isinstance(n.value, ast.Call):
                    q_ = repo.resolve_call(fi, n.value)
                    if q_ and repo.has_fn(q_) and n.value.args and loc_name(n.value.args[0]) in ("tsa", "tsb") and \
                            any(isinstance(n2, ast.Assign) and isinstance(n2.targets[0], ast.Subscript) and const_value(n2.value) == (True, 1) for n2 in walk_function(repo.fn(q_).node)):
                        rasters[t0.id] = loc_name(n.value.args[0])        # built by a helper from one series
        snapshots[id(n)] = dict(rasters)
    all_series = sorted({v for snap in snapshots.values() for v in snap.values() if v})

    def _skip_alloc(du, e, at):
        import copy

        class X(ast.NodeTransformer):
            depth = 0

            def visit_Name(self, node):
                if not isinstance(node.ctx, ast.Load) or node.id in rasters:
                    return node
                v = expand_name(du, node, at)
                if v is node:
                    # first element of a tuple-unpacked call result: ipeak, _ = parabolic_max(...)
                    ds_ = du.strong_reaching(node.id, at)
                    if len(ds_) == 1 and ds_[0].unpack_index is not None and isinstance(ds_[0].value, ast.Call):
                        v = ast.Subscript(value=copy.deepcopy(ds_[0].value), slice=ast.Constant(value=ds_[0].unpack_index), ctx=ast.Load())
                        return self.generic_visit(v)
                if v is node or isinstance(v, ast.Lambda) or self.depth > 12 or any(isinstance(n_, ast.Name) and n_.id == node.id for n_ in ast.walk(v)):
                    return node
                self.depth += 1
                try:
                    return self.visit(copy.deepcopy(v))
                finally:
                    self.depth -= 1
        return X().visit(copy.deepcopy(e))
    dl = [d for d in du0.defs if d.var == "delta_t" and d.kind == "assign"]
    okc = False
    why = "delta_t is not (peak index of correlate(raster of tsa, raster of tsb, 'full') - (len - 1)) * tbin"
    if dl:
        # the rasters as they are just before the offset is computed
        body = list(fi.node.body)
        k = body.index(dl[0].stmt) if dl[0].stmt in body else -1
        rasters = dict(snapshots.get(id(body[k - 1]), rasters)) if k > 0 else rasters
        v = _skip_alloc(du0, dl[0].value, dl[0].stmt)
        cor = [c for c in find(v, ast.Call) if call_name(c) == "correlate"]
        a0 = loc_name(cor[0].args[0]) if cor and len(cor[0].args) >= 2 else None
        a1 = loc_name(cor[0].args[1]) if cor and len(cor[0].args) >= 2 else None
        mode = (kwarg(cor[0], "mode") or (cor[0].args[2] if len(cor[0].args) > 2 else None)) if cor else None
        okc = bool(cor) and rasters.get(a0) == "tsa" and rasters.get(a1) == "tsb" and const_value(mode) == (True, "full")
        if cor and rasters.get(a0) == "tsb" and rasters.get(a1) == "tsa":
            why = "the rasters are correlated in the order (tsb, tsa): the lag comes out with the opposite sign"
        if okc:
            class E(Evaluator):
                def ev(self, e):
                    if isinstance(e, ast.Subscript) and isinstance(e.value, ast.Call) and call_name(e.value) == "parabolic_max":
                        return Poly.sym("PEAK")
                    if isinstance(e, ast.Subscript) and isinstance(e.value, ast.Attribute) and e.value.attr == "shape" and loc_name(e.value.value) in rasters and const_value(e.slice) == (True, 0):
                        return Poly.sym("NBINS")
                    if isinstance(e, ast.Attribute) and e.attr == "size" and loc_name(e.value) in rasters:
                        return Poly.sym("NBINS")
                    if isinstance(e, ast.Call) and call_name(e) == "len" and e.args and loc_name(e.args[0]) in rasters:
                        return Poly.sym("NBINS")
                    if norm(e) in sizes:
                        return Poly.sym("NBINS")
                    return super().ev(e)
            try:
                okc = E().ev(v) == (Poly.sym("PEAK") - Poly.sym("NBINS") + Poly.const(1)) * Poly.sym("tbin")
            except Undecided:
                okc = False
    ctx.check(okc, fi, dl[0].stmt if dl else fi.node, dl[0].stmt if dl else "delta_t", "coarse offset is the lag of the correlation peak in seconds", why, key="delta", name_free=True)
    use = [b for b in find(fi.node, ast.BinOp, nested=False) if isinstance(b.op, ast.Sub) and loc_name(b.right) == "delta_t"]
    oku = bool(use) and any("tsa" in src(b.left) for b in use)
    ctx.check(oku, fi, use[0] if use else fi.node, use[0] if use else "tsa[m] - delta_t", "the offset is removed from tsa before the first nearest-neighbour assignment", "the coarse offset is not subtracted from tsa (wrong sign / wrong series)",
              key="delta-use")
    ctx.check(all_series == ["tsa", "tsb"], fi, fi.node, f"{all_series}", "one raster marks the bins of tsa, another those of tsb", f"event trains binned: {all_series}", key="bins", name_free=True)


def run(ctx):
    ctx.run(d1_pairs)
    ctx.run(d2_one_to_one)
    ctx.run(d3_map_algebra)
