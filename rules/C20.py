"""C20 - denoising, smoothing and counting utilities conserve what they must (partial claim: the exactly-once / length clauses)."""
import ast

from sa.algebra import Evaluator, Facts, Poly, SymExec, Undecided
from sa.common import expand_name, returns_of
from sa.defuse import DefUse, loc_name
from sa.model import AnalysisError, AnchorMissing, const_value, src, walk_function
from sa.struct import call_name, find, kwarg, norm

EXPLANATION = (
    "Partial claim. Decides the structural necessary conditions of the *counting and length* clauses of C20: (D1) spike-coincidence counting "
    "(_spikes_venn) walks chunks [k*chunk_size, (k+1)*chunk_size) that tile the time axis - the spikes of a chunk are the half-open searchsorted range "
    "at those two bounds for every sorter, the chunk count is max_sample // chunk_size + 1 (so the last spike is inside the last chunk), samples are "
    "re-based by the same offset that opened the chunk and binned over [0, chunk_size] - hence every spike of every sorter is counted in exactly one "
    "chunk whatever the chunk size; the Venn code of a bin is the dot product of the per-sorter membership with distinct powers of two and the "
    "counts are accumulated at code - 1; (D2) stack: the rows aggregated for output row k are exactly those whose inverse index (np.unique(word, "
    "return_inverse=True)) is k, the aggregate is taken over axis 0, and the fold is the count vector of that very np.unique call; (D3) the non-uniform "
    "Savitzky-Golay filter assigns every output index exactly once: left border [0, h), centre [h, n - h), right border [n - h, n) with h = window // 2, "
    "and the centre window reads x[i + j - h]; (D4) the frequency-domain smoother pads lpad samples on both sides and removes exactly those: "
    "output length == input length. The numerical clauses (identity at full rank, noise reduction, polynomial reproduction, constants unchanged) "
    "are NOT decided."
    ' (as built) the chunk indices run from (at most) the chunk of the first spike to the chunk of the last spike: range(A, B) with B == max // C + 1 and A in {0, min // C}.'
    ' (D5) a work buffer allocated once and filled up to a per-iteration count is read only inside that filled part (row -1 of the buffer is stale after a short last block). (D3 vector form) slice stores [:h], blocks [first + h, first + h + n), [N - h:] cover every output once.'
)
ASSUMPTIONS = [
    "np.searchsorted(a, [lo, hi]) (side='left') on ascending spike samples returns the half-open range of samples in [lo, hi)",
    "np.unique(x, return_inverse=True, return_counts=True): inverse[i] is the row of x[i]'s value, counts[k] its multiplicity (model table)",
    "spike samples are non-negative and ascending per sorter (the documented input of spikes_venn)",
]

ST = "ibldsp.spiketrains._spikes_venn"


def d1_venn_chunks(ctx):
    ctx.rule("D1", "_spikes_venn: chunks [k*C, (k+1)*C) tile the time axis up to the last spike; per-chunk samples re-based by the same offset and binned over [0, C]; "
                   "Venn code = membership . distinct powers of two")
    repo = ctx.repo
    fi = repo.fn(ST)
    du = DefUse(fi.node)
    loops = [n for n in walk_function(fi.node) if isinstance(n, ast.For) and isinstance(n.iter, ast.Call) and "num_chunks" in src(n.iter)]
    if not loops:
        raise AnchorMissing("_spikes_venn: loop over chunks not found")
    lp = loops[0]
    k = loc_name(lp.target)
    ev = Evaluator(env={k: Poly.sym("K")}, resolve=lambda e: repo.resolve_expr(fi, e))
    ev.facts.int_syms |= {"K", "chunk_size"}
    sx = SymExec(ev, on_undecided="havoc")
    for st in lp.body:
        if isinstance(st, ast.Assign) and isinstance(st.targets[0], ast.Name) and not isinstance(st.value, (ast.ListComp, ast.Call)):
            sx.step(st)
    C = Poly.sym("chunk_size")
    # searchsorted bounds
    ss = [c for c in find(lp, ast.Call) if call_name(c) == "searchsorted" and len(c.args) >= 2]
    if not ss:
        raise AnchorMissing("_spikes_venn: searchsorted of the chunk bounds not found")
    for c in ss:
        b = expand_name(du, c.args[1], c) if isinstance(c.args[1], ast.Name) else c.args[1]
        ok = isinstance(b, (ast.List, ast.Tuple)) and len(b.elts) == 2
        lo = hi = None
        if ok:
            try:
                lo, hi = ev.ev(b.elts[0]), ev.ev(b.elts[1])
            except Undecided:
                ok = False
        side = kwarg(c, "side")
        ctx.check(ok and lo == Poly.sym("K") * C and hi == (Poly.sym("K") + Poly.const(1)) * C and (side is None or const_value(side) == (True, "left")), fi, c, c,
                  "chunk k selects the spikes in [k*C, (k+1)*C): consecutive chunks share a bound, half-open on the right",
                  f"chunk bounds are [{lo}, {hi}) for chunk K: consecutive chunks overlap or leave a gap - a spike is counted twice or not at all, depending on the chunk size",
                  key="chunk-bounds")
        # every sorter
        par = [n for n in find(lp, (ast.ListComp,)) if any(x is c for x in ast.walk(n))]
        ctx.check(bool(par) and "samples_tuple" in src(par[0].generators[0].iter), fi, c, par[0] if par else c, "the same bounds are applied to every sorter's spike train",
                  "the chunk selection does not run over all sorters", key="all-sorters")
    # the chunk indices run from (at most) the chunk of the first spike to the chunk of the last spike of any sorter: range(A, B) with B == max // C + 1 and
    # A == 0 or A == min // C
    it = lp.iter
    while isinstance(it, ast.Call) and call_name(it) in ("tqdm", "trange", "list") and it.args:
        it = it.args[0]
    okn = False
    detail = "the chunk loop is not a range"
    nd = [d for d in du.defs if d.var == "num_chunks" and d.kind == "assign"]
    if isinstance(it, ast.Call) and call_name(it) == "range" and 1 <= len(it.args) <= 2:
        e0 = Evaluator(resolve=lambda e: repo.resolve_expr(fi, e))
        e0.facts.int_syms |= {"max_samples", "min_samples", "chunk_size"}
        sx0 = SymExec(e0, on_undecided="havoc")
        for st in fi.node.body:
            if st is lp or any(x is lp for x in ast.walk(st)):
                break
            if isinstance(st, ast.Assign) and isinstance(st.targets[0], ast.Name) and st.targets[0].id in ("max_samples", "min_samples"):
                continue          # kept symbolic (checked below to be the extrema over all sorters)
            if any(isinstance(n_, ast.Name) and isinstance(n_.ctx, ast.Store) and n_.id == "chunk_size" for n_ in ast.walk(st)):
                continue          # the default of the chunk size: whatever it is, it is the chunk size (a whole number of samples)
            try:
                sx0.step(st)
            except Undecided:
                pass
        cs_ = e0.env.get("chunk_size")
        if cs_ is not None:
            e0.facts.int_syms |= cs_.symbols()          # whatever the chunk size was defaulted to, it is a whole number of samples
        try:
            start = e0.ev(it.args[0]) if len(it.args) == 2 else Poly.const(0)
            stop = e0.ev(it.args[-1])
            want_stop = e0.ev(ast.parse("max_samples // chunk_size + 1", mode="eval").body)
            sc = start.canon()
            first_ok = start == Poly.const(0) or (len(start.t) == 1 and "floordiv(" in sc and "min" in sc and list(start.t.values())[0] == 1)
            okn = stop == want_stop and first_ok
            detail = f"chunks {start} .. {stop} - 1"
        except Undecided as ex:
            detail = f"not evaluable ({ex})"
    ms = [d for d in du.defs if d.var == "max_samples" and d.kind == "assign"]

    def _over_all(v):
        from sa.common import expand_name as _x
        t = src(v)
        for n_ in ast.walk(v):
            if isinstance(n_, ast.Name):
                t += " " + src(_x(du, n_, ms[0].stmt))
        return "samples_tuple" in t
    okm = bool(ms) and "max" in src(ms[0].value) and _over_all(ms[0].value)
    ctx.check(okn and okm, fi, nd[0].stmt if nd else lp, nd[0].stmt if nd else lp, "chunks run up to and including the one that holds the last spike of any sorter",
              f"the chunk indices ({detail}) do not end with the chunk of the last spike, max(all samples) // chunk_size: the spikes after the last chunk are never counted "
              "(or an empty chunk is added) - the result depends on the chunk size", key="chunk-count", name_free=True)
    # re-basing and histogram range
    # the chunk-local samples: <samples>[<chunk range>] (cast) - <offset>, for every sorter
    sc = []
    for n in ast.walk(lp):
        if isinstance(n, ast.BinOp) and isinstance(n.op, ast.Sub) and any(isinstance(x, ast.Subscript) and loc_name(x.value) == "samples" for x in ast.walk(n.left)):
            sc.append(n)
    okb = False
    if sc:
        try:
            okb = all(ev.ev(b.right) == Poly.sym("K") * C for b in sc)
        except Undecided:
            okb = False
    ctx.check(okb, fi, sc[0] if sc else lp, sc[0] if sc else "samples - sample_offset", "chunk-local sample = sample - k*C (the bound that opened the chunk)",
              "spike samples are not re-based by the chunk's own start: spikes fall outside the histogram range and are dropped", key="rebase")
    bc = [c for c in find(lp, ast.Call) if call_name(c) == "bincount2D"]
    okr = False
    if bc and len(bc[0].args) >= 5:
        xl = bc[0].args[4]
        xl = expand_name(du, xl, bc[0]) if isinstance(xl, ast.Name) else xl
        if isinstance(xl, (ast.List, ast.Tuple)) and len(xl.elts) == 2:
            try:
                okr = ev.ev(xl.elts[0]) == Poly.const(0) and ev.ev(xl.elts[1]) == C
            except Undecided:
                okr = False
    ctx.check(okr, fi, bc[0] if bc else lp, bc[0] if bc else "bincount2D", "time bins span [0, chunk_size] of the chunk-local samples", "the time histogram does not span [0, chunk_size]: spikes of the chunk fall outside it",
              key="hist-range")
    # Venn codes
    vd = [d for d in du.defs if d.var == "vec" and d.kind == "assign"]
    okv = False
    if vd:
        v = vd[0].value
        pw = [b for b in find(v, ast.BinOp) if isinstance(b.op, ast.Pow) and const_value(b.left) == (True, 2)]
        rg = [c for c in find(v, ast.Call) if call_name(c) == "range"]
        okv = bool(pw) and bool(rg) and "num_sorters" in src(rg[0])
    acc = [n for n in find(lp, ast.AugAssign) if isinstance(n.target, ast.Subscript) and loc_name(n.target.value) == "pre_result"]
    oka = bool(acc) and isinstance(acc[0].op, ast.Add) and isinstance(acc[0].target.slice, ast.BinOp) and isinstance(acc[0].target.slice.op, ast.Sub) \
        and const_value(acc[0].target.slice.right) == (True, 1) and loc_name(acc[0].value) == "counts"
    un = [c for c in find(lp, ast.Call) if call_name(c) == "unique" and kwarg(c, "return_counts") is not None]
    ctx.check(okv and oka and bool(un), fi, acc[0] if acc else lp, acc[0] if acc else "pre_result[conds - 1] += counts",
              "each bin's membership pattern is a distinct code 1 .. 2^n - 1 and its multiplicity is added to that code's counter",
              "Venn regions are not accumulated as pre_result[code - 1] += count with code = membership . powers of two", key="venn-codes")


def d2_stack(ctx):
    ctx.rule("D2", "stack: output row k aggregates the rows whose np.unique inverse index is k (axis 0); fold = the counts of that same np.unique call")
    repo = ctx.repo
    fi = repo.fn("ibldsp.voltage.stack")
    du = DefUse(fi.node)
    un = [n for n in walk_function(fi.node) if isinstance(n, ast.Assign) and isinstance(n.value, ast.Call) and call_name(n.value) == "unique"
          and isinstance(n.targets[0], ast.Tuple)]
    if not un:
        raise AnchorMissing("stack: np.unique(word, return_inverse, return_counts) not found")
    u = un[0]
    kws = {k.arg: const_value(k.value) for k in u.value.keywords}
    names = [loc_name(e) for e in u.targets[0].elts]
    order = ["values"] + [k for k in ("return_index", "return_inverse", "return_counts") if kws.get(k) == (True, True)]
    slot = dict(zip(order, names))
    ctx.check("return_inverse" in slot and "return_counts" in slot and len(names) == len(order) and loc_name(u.value.args[0]) == "word", fi, u, u,
              "labels, inverse index and counts come from one np.unique(word, ...) call", "np.unique is not asked for the inverse index and the counts of `word` (or the unpacking does not match)",
              key="unique")
    inv, cnt, grp = slot.get("return_inverse"), slot.get("return_counts"), slot.get("values")
    loops = [n for n in walk_function(fi.node) if isinstance(n, ast.For)]
    okl = False
    detail = "aggregation loop not found"
    for lp in loops:
        it = loc_name(lp.target)
        for st in lp.body:
            if isinstance(st, ast.Assign) and isinstance(st.targets[0], ast.Subscript) and loc_name(st.targets[0].value) == "stack":
                row = st.targets[0].slice.elts[0] if isinstance(st.targets[0].slice, ast.Tuple) else st.targets[0].slice
                agg = st.value
                sel = None
                if isinstance(agg, ast.Call) and agg.args:
                    a0 = agg.args[0]
                    if isinstance(a0, ast.Subscript) and loc_name(a0.value) == "data":
                        s0 = a0.slice.elts[0] if isinstance(a0.slice, ast.Tuple) else a0.slice
                        sel = expand_name(du, s0, st)
                ax = kwarg(agg, "axis") if isinstance(agg, ast.Call) else None
                oksel = isinstance(sel, ast.Compare) and len(sel.ops) == 1 and isinstance(sel.ops[0], ast.Eq) and {loc_name(sel.left), loc_name(sel.comparators[0])} == {it, inv}
                if not oksel and isinstance(sel, ast.Subscript) and isinstance(sel.slice, ast.Slice) and sel.slice.step is None:
                    # sorted form: ORDER[B[k]:B[k + 1]] with ORDER = argsort(inverse, kind='stable') and B = r_[0, cumsum(counts)]: the members of group k, in their original order
                    order = expand_name(du, sel.value, st)
                    lo_, hi_ = (expand_name(du, x, st) if isinstance(x, ast.Name) else x for x in (sel.slice.lower, sel.slice.upper))
                    ok_order = isinstance(order, ast.Call) and call_name(order) == "argsort" and order.args and loc_name(order.args[0]) == inv \
                        and const_value(kwarg(order, "kind")) in ((True, "stable"), (True, "mergesort"))
                    ok_b = isinstance(lo_, ast.Subscript) and isinstance(hi_, ast.Subscript) and loc_name(lo_.slice) == it \
                        and norm(hi_.slice) == norm(ast.parse(f"{it} + 1", mode="eval").body)
                    if ok_b:
                        b0, b1 = expand_name(du, lo_.value, st), expand_name(du, hi_.value, st)
                        want_b = (norm(ast.parse(f"np.r_[0, np.cumsum({cnt})]", mode="eval").body), norm(ast.parse(f"np.concatenate(([0], np.cumsum({cnt})))", mode="eval").body))
                        ok_b = norm(b0) == norm(b1) and norm(b0) in want_b
                    oksel = ok_order and ok_b
                okrow = loc_name(row) == it
                okax = ax is not None and const_value(ax) == (True, 0)
                rng = expand_name(du, lp.iter, lp)
                okrng = any(w in src(rng) for w in (f"{grp}.size", f"len({grp})", "ntrs"))
                okl = oksel and okrow and okax and okrng
                detail = f"row {src(row)} <- {src(agg)[:70]}"
    ctx.check(okl, fi, loops[0] if loops else fi.node, detail, "row k of the stack aggregates exactly the traces labelled with the k-th unique word, over traces",
              f"the aggregation `{detail}` does not take, for row k, the traces whose inverse index equals k over axis 0", key="groups")
    folds = [n for n in walk_function(fi.node) if isinstance(n, ast.Assign) and (loc_name(n.targets[0]) == "hstack" or (isinstance(n.targets[0], ast.Subscript) and const_value(n.targets[0].slice) == (True, "fold")))]
    okf = bool(folds) and all(loc_name(n.value) == cnt for n in folds if not isinstance(n.value, (ast.Call, ast.DictComp, ast.Dict)))
    ctx.check(okf, fi, folds[0] if folds else fi.node, f"fold <- {cnt}", "the fold is the multiplicity of each label from the same np.unique call", "the fold is not the count vector returned with the labels",
              key="fold")


def _savgol_vector_form(ctx, repo, fi, du, H):
    """non_uniform_savgol written with slice stores: y_smoothed[:h] (left border), y_smoothed[N - h:] (right border) and, for blocks `first` of the N - 2h full windows,
    y_smoothed[first + h : first + h + n] = f(windows first .. first + n), the windows taken from sliding_window_view(x / y, window) (window k starts at sample k, centre k + h).
    -> False when the function is not written this way."""
    stores = [st for st in ast.walk(fi.node) if isinstance(st, ast.Assign) and isinstance(st.targets[0], ast.Subscript) and loc_name(st.targets[0].value) == "y_smoothed"]
    if not stores or not all(isinstance(st.targets[0].slice, ast.Slice) or isinstance(st.targets[0].slice, (ast.Name, ast.Call)) for st in stores):
        return False
    if not any("sliding_window_view" in src(st.value) for st in stores):
        return False

    class E(Evaluator):
        def ev(self, e):
            if isinstance(e, ast.Call) and call_name(e) == "len" and e.args and loc_name(e.args[0]) in ("x", "y"):
                return Poly.sym("N")
            if isinstance(e, ast.Attribute) and e.attr == "size" and loc_name(e.value) in ("x", "y"):
                return Poly.sym("N")
            return super().ev(e)
    ev = E(resolve=lambda e: repo.resolve_expr(fi, e))
    ev.env["half_window"] = H
    ev.facts.int_syms |= {"N", "H", "F"}
    N, F = Poly.sym("N"), Poly.sym("F")
    got = {}
    for st in stores:
        sl = st.targets[0].slice
        lp = next((l_ for l_ in fi.node.body if isinstance(l_, ast.For) and any(x is st for x in ast.walk(l_))), None)
        if isinstance(sl, (ast.Name, ast.Call)):
            sv = expand_name(du, sl, st)
            if not (isinstance(sv, ast.Call) and call_name(sv) == "slice" and len(sv.args) == 2):
                raise AnalysisError(f"non_uniform_savgol: store `{src(st)[:60]}` is not through a slice")
            lo_e, hi_e = sv.args
        else:
            lo_e, hi_e = sl.lower, sl.upper
        try:
            if lp is not None:
                if not (isinstance(lp.iter, ast.Call) and call_name(lp.iter) == "range" and len(lp.iter.args) == 3 and const_value(lp.iter.args[0]) == (True, 0)):
                    raise AnalysisError("non_uniform_savgol: block loop is not range(0, count, block)")
                ev.env[loc_name(lp.target)] = F
                NW, B = ev.ev(lp.iter.args[1]), ev.ev(lp.iter.args[2])
                lo, hi = ev.ev(lo_e), ev.ev(hi_e)
                # block [F, F + min(B, NW - F)) of the NW windows, shifted by H
                want_hi = F + H + ev.ev(ast.parse("min(b_, nw_ - f_)", mode="eval").body) if False else None
                evb = E(env={"b_": B, "nw_": NW, "f_": F})
                cnt = evb.ev(ast.parse("min(b_, nw_ - f_)", mode="eval").body)
                okb = lo == F + H and hi == F + H + cnt and NW == N - Poly.const(2) * H
                ctx.check(okb, fi, st, f"block store [{lo}, {hi}) for blocks of {B} over {NW} windows", "the centre [h, N - h) is tiled by the blocks of full windows, each output at its window's centre",
                          f"`{src(st)[:70]}` stores block outputs at [{lo}, {hi}); expected [first + h, first + h + min(block, N - 2h - first)) over N - 2h windows", key="cover-centre", name_free=True)
                # the windows used are those starting at first .. first + n
                vw = [x for x in ast.walk(st.value) if isinstance(x, ast.Subscript) and "sliding_window_view" in src(x.value) and isinstance(x.slice, ast.Slice)]
                okw = bool(vw)
                for x in vw:
                    okw = okw and ev.ev(x.slice.lower) == F and ev.ev(x.slice.upper) == F + cnt
                ctx.check(okw, fi, st, "windows first .. first + n", "output k + h is computed from the window starting at sample k (centred on k + h)",
                          "the block's outputs are not computed from the windows centred on them", key="window-centre", name_free=True)
                got["centre"] = True
            else:
                lo = ev.ev(lo_e) if lo_e is not None else Poly.const(0)
                hi = ev.ev(hi_e) if hi_e is not None else N
                if lo == Poly.const(0) and hi == H:
                    got["left"] = st
                elif (lo == N - H or (isinstance(lo_e, ast.UnaryOp) and ev.ev(lo_e.operand) == H)) and hi == N:
                    got["right"] = st
                else:
                    ctx.violation(fi, st, st, f"`{src(st)[:70]}` stores [{lo}, {hi}): neither the left border [0, h) nor the right border [N - h, N)", key="cover-border", name_free=True)
        except Undecided as e:
            raise AnalysisError(f"non_uniform_savgol: bounds of `{src(st)[:60]}` not evaluable: {e}")
    ctx.check("left" in got and "right" in got and got.get("centre"), fi, fi.node, f"stores: {sorted(k for k in got)}", "every output index is assigned once: left border, centre, right border",
              f"the slice stores cover only {sorted(k for k in got)}: some outputs stay NaN", key="cover", name_free=True)
    al = [d for d in du.defs if d.var == "y_smoothed" and d.kind == "assign"]
    oka = bool(al) and isinstance(al[0].value, ast.Call) and al[0].value.args and ev.ev(al[0].value.args[0]) == N
    ctx.check(oka, fi, al[0].stmt if al else fi.node, al[0].stmt if al else "y_smoothed", "the output has one entry per input sample", "the output vector is not allocated with len(y) entries", key="alloc", name_free=True)
    return True


def d3_savgol_cover(ctx):
    ctx.rule("D3", "non_uniform_savgol assigns every output index once: [0, h) left border, [h, n - h) centre, [n - h, n) right border, h = window // 2; centre window x[i + j - h]")
    repo = ctx.repo
    fi = repo.fn("ibldsp.smooth.non_uniform_savgol")
    du = DefUse(fi.node)
    ev = Evaluator(resolve=lambda e: repo.resolve_expr(fi, e))
    ev.facts.int_syms |= {"window", "N"}

    class E(Evaluator):
        def ev(self, e):
            if isinstance(e, ast.Call) and call_name(e) == "len" and e.args and loc_name(e.args[0]) in ("x", "y"):
                return Poly.sym("N")
            return super().ev(e)
    ev = E(resolve=lambda e: repo.resolve_expr(fi, e))
    hd = [d for d in du.defs if d.var == "half_window" and d.kind == "assign"]
    if not hd:
        raise AnchorMissing("non_uniform_savgol: half_window not found")
    H = Poly.sym("H")
    okh = norm(hd[0].value) in (norm(ast.parse("window // 2", mode="eval").body), norm(ast.parse("int(window / 2)", mode="eval").body), norm(ast.parse("(window - 1) // 2", mode="eval").body))
    ctx.check(okh, fi, hd[0].stmt, hd[0].stmt, "half window = window // 2 (window is odd)", f"half window is `{src(hd[0].value)}`", key="half")
    ev.env["half_window"] = H
    if _savgol_vector_form(ctx, repo, fi, du, H):
        return
    ranges = []
    for lp in [n for n in fi.node.body if isinstance(n, ast.For)]:
        writes = [st for st in ast.walk(lp) if isinstance(st, (ast.Assign, ast.AugAssign)) and isinstance(st.targets[0] if isinstance(st, ast.Assign) else st.target, ast.Subscript)
                  and loc_name((st.targets[0] if isinstance(st, ast.Assign) else st.target).value) == "y_smoothed"
                  and loc_name((st.targets[0] if isinstance(st, ast.Assign) else st.target).slice) == loc_name(lp.target)]
        if not writes or not (isinstance(lp.iter, ast.Call) and call_name(lp.iter) == "range"):
            continue
        a = lp.iter.args
        try:
            lo = ev.ev(a[0]) if len(a) >= 2 else Poly.const(0)
            hi = ev.ev(a[1]) if len(a) >= 2 else ev.ev(a[0])
            stp = ev.ev(a[2]) if len(a) >= 3 else Poly.const(1)
        except Undecided as ex:
            raise AnalysisError(f"non_uniform_savgol: loop range not evaluable: {ex}")
        ranges.append((lo, hi, stp, lp))
    N = Poly.sym("N")
    want = [(Poly.const(0), H), (H, N - H), (N - H, N)]
    got = sorted([(lo, hi) for lo, hi, stp, lp in ranges], key=lambda t: (t[0].canon(), t[1].canon()))
    ok = len(ranges) == 3 and all(stp == Poly.const(1) for _, _, stp, _ in ranges) and sorted(want, key=lambda t: (t[0].canon(), t[1].canon())) == got
    ctx.check(ok, fi, ranges[0][3] if ranges else fi.node, f"index ranges {[(str(a_), str(b_)) for a_, b_ in got]}", "the three loops partition 0 .. n-1: no output sample stays NaN, none is written twice",
              f"the loops that fill y_smoothed cover {[(str(a_), str(b_)) for a_, b_ in got]}, not [0, H) + [H, N - H) + [N - H, N): some outputs stay NaN or are overwritten", key="cover")
    init = [d for d in du.defs if d.var == "y_smoothed" and d.kind == "assign"]
    ctx.check(bool(init) and "len(y)" in src(init[0].value), fi, init[0].stmt if init else fi.node, init[0].stmt if init else "y_smoothed", "the output has the length of the input",
              "the output vector is not allocated with len(y) entries", key="length")
    # centre window
    tw = [st for st in ast.walk(fi.node) if isinstance(st, ast.Assign) and isinstance(st.targets[0], ast.Subscript) and loc_name(st.targets[0].value) == "t"]
    okt = False
    if tw:
        v = tw[0].value
        jn = loc_name(tw[0].targets[0].slice)
        centre_loops = [lp_ for lo_, hi_, st_, lp_ in ranges if lo_ == H]
        iname = loc_name(centre_loops[0].target) if centre_loops else "i"
        okt = isinstance(v, ast.BinOp) and isinstance(v.op, ast.Sub) and jn is not None and \
            norm(v) == norm(ast.parse(f"x[{iname} + {jn} - half_window] - x[{iname}]", mode="eval").body)
        if not okt and isinstance(v, ast.BinOp) and isinstance(v.op, ast.Sub) and jn is not None:
            # same index written in another order / through hoisted locals: compare normal forms of the subscripts
            duw = DefUse(fi.node)

            def idx_of(e_):
                e_ = expand_name(duw, e_, tw[0]) if isinstance(e_, ast.Name) else e_
                return e_.slice if isinstance(e_, ast.Subscript) and loc_name(e_.value) == "x" else None
            il, ir = idx_of(v.left), idx_of(v.right)
            if il is not None and ir is not None:
                evw = Evaluator(resolve=lambda e: repo.resolve_expr(fi, e))
                evw.du = duw
                try:
                    import copy as _copy

                    class _X(ast.NodeTransformer):
                        def visit_Name(self, node):
                            if node.id in (iname, jn, "half_window"):
                                return node
                            v_ = expand_name(duw, node, tw[0])
                            return self.visit(_copy.deepcopy(v_)) if v_ is not node and not any(isinstance(n_, ast.Name) and n_.id == node.id for n_ in ast.walk(v_)) else node
                    pl = evw.ev(_X().visit(_copy.deepcopy(il)))
                    pr = evw.ev(_X().visit(_copy.deepcopy(ir)))
                    okt = pl == Poly.sym(iname) + Poly.sym(jn) - Poly.sym("half_window") and pr == Poly.sym(iname)
                except Undecided:
                    okt = False
    if tw and not okt:
        # the whole window at once: t[:] = x[i - h : i + h + 1] - x[i]
        v = tw[0].value
        if isinstance(v, ast.BinOp) and isinstance(v.op, ast.Sub):
            def _x_of(e_):
                while isinstance(e_, ast.Call) and call_name(e_) in ("asarray", "array") and e_.args:
                    e_ = e_.args[0]
                return e_
            l_, r_ = v.left, v.right
            if isinstance(l_, ast.Subscript) and isinstance(r_, ast.Subscript) and loc_name(_x_of(l_.value)) == "x" and loc_name(_x_of(r_.value)) == "x" and isinstance(l_.slice, ast.Slice) \
                    and l_.slice.step is None and l_.slice.lower is not None and l_.slice.upper is not None:
                centre_loops = [lp_ for lo_, hi_, st_, lp_ in ranges if lo_ == H]
                iname = loc_name(centre_loops[0].target) if centre_loops else "i"
                try:
                    evv = Evaluator(env={"half_window": H, iname: Poly.sym("I")}, resolve=lambda e: repo.resolve_expr(fi, e))
                    okt = evv.ev(l_.slice.lower) == Poly.sym("I") - H and evv.ev(l_.slice.upper) == Poly.sym("I") + H + Poly.const(1) and evv.ev(r_.slice) == Poly.sym("I")
                except Undecided:
                    okt = False
    ctx.check(okt, fi, tw[0] if tw else fi.node, tw[0] if tw else "t[j]", "local abscissae are x[i - h .. i + h] - x[i] (window centred on the sample)", "the local window is not centred on sample i", key="centre")
    rets = returns_of(fi.node)
    ctx.check(bool(rets) and loc_name(rets[-1].value) == "y_smoothed", fi, rets[-1] if rets else fi.node, rets[-1] if rets else "return", "the filled vector is returned", "something else is returned", key="ret")


def d4_lp_length(ctx):
    ctx.rule("D4", "smooth.lp pads lpad samples on both sides (edge values) and crops exactly those: output length == input length")
    repo = ctx.repo
    fi = repo.fn("ibldsp.smooth.lp")
    du = DefUse(fi.node)
    pads = [c for c in find(fi.node, ast.Call) if call_name(c) == "pad" and len(c.args) >= 2]
    if not pads:
        raise AnchorMissing("smooth.lp: np.pad not found")
    p = pads[0]
    w = p.args[1]
    rets = returns_of(fi.node)
    ok = False
    detail = "return is not a slice"
    if rets and isinstance(rets[-1].value, ast.Subscript) and isinstance(rets[-1].value.slice, ast.Slice):
        sl = rets[-1].value.slice
        lo, up = sl.lower, sl.upper
        if not (isinstance(w, (ast.Tuple, ast.List)) and len(w.elts) == 2):
            okl = lo is not None and norm(lo) == norm(w)
            oku = isinstance(up, ast.UnaryOp) and isinstance(up.op, ast.USub) and norm(up.operand) == norm(w)
            ok = okl and oku
            detail = f"pad {src(w)} / crop [{src(lo) if lo else ''}:{src(up) if up else ''}]"
        elif isinstance(w, (ast.Tuple, ast.List)) and len(w.elts) == 2:
            okl = lo is not None and norm(lo) == norm(w.elts[0])
            oku = isinstance(up, ast.UnaryOp) and isinstance(up.op, ast.USub) and norm(up.operand) == norm(w.elts[1])
            ok = okl and oku
            detail = f"pad {src(w)} / crop [{src(lo) if lo else ''}:{src(up) if up else ''}]"
    md = kwarg(p, "mode")
    ctx.check(ok, fi, rets[-1] if rets else fi.node, detail, "what is padded on each side is what is cropped from it", f"{detail}: the smoothed series does not have the input's length", key="pad-crop")
    ctx.check(md is not None and const_value(md) == (True, "edge"), fi, p, p, "edges are extended with the edge values (a constant stays a constant)", "padding mode is not 'edge': a constant input is not returned unchanged",
              key="pad-mode")


def d5_reused_buffers(ctx):
    ctx.rule("D5", "work buffers allocated once and re-filled per block are read only inside the part filled in the same iteration (a short last block leaves stale rows behind it)")
    repo = ctx.repo
    n_checked = 0
    for q in ("ibldsp.smooth.non_uniform_savgol",):
        fi = repo.fn(q)
        du = DefUse(fi.node)
        for lp in [s_ for s_ in fi.node.body if isinstance(s_, ast.For)]:
            before = fi.node.body[: fi.node.body.index(lp)]
            bufs = {loc_name(st.targets[0]) for st in before if isinstance(st, ast.Assign) and isinstance(st.value, ast.Call) and call_name(st.value) in ("empty", "zeros", "empty_like", "zeros_like")
                    and isinstance(st.targets[0], ast.Name)}
            inside = [n for b in lp.body for n in ast.walk(b)]
            # partial fills: out=B[:n] / B[:n] = ...  -> {buffer: name of the count}
            filled = {}
            for n in inside:
                tgt = None
                if isinstance(n, ast.Call) and kwarg(n, "out") is not None:
                    tgt = kwarg(n, "out")
                elif isinstance(n, ast.Assign) and isinstance(n.targets[0], ast.Subscript):
                    tgt = n.targets[0]
                if isinstance(tgt, ast.Subscript) and loc_name(tgt.value) in bufs:
                    first = tgt.slice.elts[0] if isinstance(tgt.slice, ast.Tuple) else tgt.slice
                    if isinstance(first, ast.Slice) and first.lower is None and first.upper is not None and first.step is None:
                        filled.setdefault(loc_name(tgt.value), set()).add(src(first.upper))
            for b, counts in filled.items():
                if len(counts) != 1:
                    raise AnalysisError(f"{q}: buffer `{b}` is filled up to different counts {sorted(counts)} in one iteration")
                cnt = next(iter(counts))
                # is the count a per-iteration quantity that can be smaller than the buffer (min(block, remaining))?
                cnames = {x.id for x in ast.walk(ast.parse(cnt, mode="eval")) if isinstance(x, ast.Name)}
                loopvars = {x.id for x in ast.walk(lp.target) if isinstance(x, ast.Name)}
                assigned_inside = {d.var for d in du.defs if d.kind in ("assign", "aug") and any(d.stmt is x for x in inside)}
                if not (cnames & (loopvars | assigned_inside)):
                    continue    # filled to a fixed length every time: no stale part
                for n in inside:
                    if not (isinstance(n, ast.Subscript) and isinstance(n.ctx, ast.Load) and loc_name(n.value) == b):
                        continue
                    first = n.slice.elts[0] if isinstance(n.slice, ast.Tuple) else n.slice
                    n_checked += 1
                    if isinstance(first, ast.Slice) and first.lower is None and first.upper is not None and src(first.upper) == cnt:
                        ctx.ok(fi, n, n, f"`{src(n)[:40]}` reads the filled part [:{cnt}]", key=f"buf:{b}:{src(n)[:30]}")
                        continue
                    ok_, k = const_value(first)
                    if ok_ and isinstance(k, int) and k >= 0:
                        ctx.check(k == 0, fi, n, n, f"row 0 of `{b}` is always filled ({cnt} >= 1 inside the loop)",
                                  f"`{src(n)[:50]}` reads row {k} of `{b}`, which is only filled when {cnt} > {k}", key=f"buf:{b}:{src(n)[:30]}", name_free=True)
                        continue
                    cnt_c = cnt.replace(" ", "")
                    last_form = (ok_ and isinstance(k, int) and k < 0)
                    if src(first).replace(" ", "") in (f"{cnt_c}-1", f"({cnt_c})-1"):
                        ctx.ok(fi, n, n, f"`{src(n)[:40]}` reads the last filled row [{cnt} - 1]", key=f"buf:{b}:{src(n)[:30]}")
                        continue
                    if last_form:
                        ctx.violation(fi, n, n, f"`{src(n)[:50]}` reads row {k} of the re-used buffer `{b}` counted from the END of the buffer, but this iteration filled only the first "
                                      f"`{cnt[:60]}` rows: when the last block is shorter than the buffer the row read was computed for a window of the PREVIOUS block (other sample spacing) - "
                                      f"the values derived from it (here the right-border polynomial) are wrong; needs the last FILLED row, `{b}[<count> - 1]`", key=f"buf:{b}:{src(n)[:30]}", name_free=True)
                        continue
                    raise AnalysisError(f"{q}: read `{src(n)[:50]}` of the partially filled buffer `{b}` not understood")
    if n_checked == 0:
        ctx.note("no work buffer is re-used across iterations with a partial fill")


def run(ctx):
    ctx.run(d1_venn_chunks)
    ctx.run(d2_stack)
    ctx.run(d3_savgol_cover)
    ctx.run(d4_lp_length)
    ctx.run(d5_reused_buffers)
