"""Shared symbolic model of NP2Converter's window arithmetic (used by C03 and C12)."""
import ast

from sa.algebra import Evaluator, Facts, Poly, SymExec, Undecided
from sa.calls import bind
from sa.common import expand_name, resolved_calls
from sa.defuse import DefUse
from sa.defuse import loc_name
from sa.model import AnalysisError, AnchorMissing, src, walk_function
from sa.struct import call_name, find

CLS = "neuropixel.NP2Converter"


def init_env(repo):
    """Evaluate init_params: returns (env, facts).  nwindow is kept symbolic (truthy)."""
    fi = repo.fn(CLS + ".init_params")
    facts = Facts()
    facts.int_syms |= {"nwindow", "nsamples", "self.sr.ns"}

    def assume(t):
        if isinstance(t, ast.Name) and t.id in ("nwindow", "nsamples"):
            return True  # caller supplied a value: keep it symbolic
        return None

    ev = Evaluator(facts=facts, resolve=lambda e: repo.resolve_expr(fi, e), assume=assume)
    sx = SymExec(ev, on_undecided="havoc")
    sx.run(fi.node.body)
    return fi, ev.env, facts


def window_ctor_args(repo, process_q):
    """(ns, nswin, overlap) argument expressions of the WindowGenerator built in a _process_* method."""
    fi = repo.fn(process_q)
    calls = [c for c in find(fi.node, ast.Call, nested=False) if call_name(c) == "WindowGenerator"]
    if not calls:
        raise AnchorMissing(f"{process_q}: WindowGenerator construction not found")
    ctor = repo.fn("ibldsp.utils.WindowGenerator.__init__")
    b = bind(calls[0], ctor)
    for p in ("ns", "nswin", "overlap"):
        if p not in b.bound:
            raise AnalysisError(f"{process_q}: WindowGenerator argument {p} not bound")
    return fi, calls[0], b.bound


def _array_kind_test(t) -> bool:
    """a test made only of questions about the KIND of arrays: type(x) is np.ndarray, isinstance(x, ..), x.ndim == k, x.dtype.kind == 'f', x.shape[i] == y.shape[j], x.flags..."""
    if isinstance(t, ast.BoolOp):
        return all(_array_kind_test(v) for v in t.values)
    if isinstance(t, ast.UnaryOp) and isinstance(t.op, ast.Not):
        return _array_kind_test(t.operand)
    if isinstance(t, ast.Call) and call_name(t) == "isinstance":
        return True
    KIND = ("type(", ".ndim", ".dtype", ".flags", "isinstance(", ".strides", ".shape", ".itemsize", ".size")
    if isinstance(t, ast.Compare):
        txt = src(t)
        return any(k in txt for k in KIND)
    if isinstance(t, ast.Attribute):
        return any(k in src(t) for k in KIND)     # x.dtype.isnative, x.flags.c_contiguous ...
    return False


def ind2save_cases(repo, env, facts, ratio: Poly, etype: str):
    """Evaluate _ind2save for the four (first?, last?) cases; returns {case: (a, b)} in output samples."""
    fi = repo.fn(CLS + "._ind2save")
    wg = [p for p in fi.params if p not in ("self",)][2] if len(fi.params) >= 4 else "wg"
    out = {}
    for case, (isf, isl) in {"first": (True, False), "interior": (False, False), "last": (False, True), "single": (True, True)}.items():
        def assume(t, isf=isf, isl=isl):
            if isinstance(t, ast.Compare) and len(t.ops) == 1 and isinstance(t.ops[0], ast.Eq):
                l, r = t.left, t.comparators[0]
                if loc_name(l) == f"{wg}.iw":
                    if isinstance(r, ast.Constant) and r.value == 0:
                        return isf
                    if f"{wg}.nwin" in src(r):
                        evr = Evaluator(facts=facts)
                        try:
                            d = (evr.ev(r) - (Poly.sym(f"{wg}.nwin") - Poly.const(1))).const_value()
                        except Undecided:
                            d = None
                        if d is None:
                            raise AnalysisError(f"_ind2save: last-window predicate `{src(t)}` not understood")
                        # iw ranges over 0 .. nwin-1: equality with nwin-1+d holds on the last window only for d == 0
                        return isl if d == 0 else False
            return None
        e = dict(env)
        e["ratio"] = ratio
        ev = Evaluator(env=e, facts=facts.copy(), resolve=lambda x: repo.resolve_expr(fi, x), assume=assume)
        ev.facts.int_syms |= {f"{wg}.iw", f"{wg}.nwin", f"{wg}.ns", f"{wg}.nswin", f"{wg}.overlap"}
        sx = SymExec(ev, on_undecided="error")
        try:
            for s in fi.node.body:
                if isinstance(s, ast.Expr) and isinstance(s.value, ast.Constant):
                    continue
                if any(loc_name(t) == "chunk2save" for t in (s.targets if isinstance(s, ast.Assign) else [])):
                    break
                if isinstance(s, ast.Return):
                    break
                if isinstance(s, ast.If) and _array_kind_test(s.test) and not any(isinstance(n_, ast.Name) and n_.id in (wg, "ratio", "etype") for n_ in ast.walk(s.test)) \
                        and not any("ind2save" in src(t_) for b_ in s.body + s.orelse for x_ in ast.walk(b_) if isinstance(x_, (ast.Assign, ast.AugAssign))
                                    for t_ in (x_.targets if isinstance(x_, ast.Assign) else [x_.target])):
                    # a branch on the KIND of the arrays (type / ndim / dtype tests selecting a fast path) that never touches the kept range: both arms write the same range
                    continue
                sx.step(s)
        except Undecided as ex:
            raise AnalysisError(f"_ind2save ({case}, {etype}): {ex}")
        a, b = ev.env.get("ind2save[0]"), ev.env.get("ind2save[1]")
        if a is None or b is None:
            # the kept range as it is applied: chunk[:, slice(a, b)] / chunk[:, a:b] / chunk[:, keep] with keep = slice(a, b)
            a = b = None
            du_ = DefUse(fi.node)
            data = [p_ for p_ in fi.params if p_ != "self"][0]
            for sub_ in find(fi.node, ast.Subscript, nested=False):
                if loc_name(sub_.value) == data and isinstance(sub_.slice, ast.Tuple) and len(sub_.slice.elts) == 2:
                    k_ = sub_.slice.elts[1]
                    k_ = expand_name(du_, k_, sub_) if isinstance(k_, ast.Name) else k_
                    lo_ = hi_ = None
                    if isinstance(k_, ast.Call) and call_name(k_) == "slice" and len(k_.args) == 2:
                        lo_, hi_ = k_.args
                    elif isinstance(k_, ast.Slice) and k_.step is None:
                        lo_, hi_ = k_.lower, k_.upper
                    if lo_ is not None and hi_ is not None:
                        try:
                            a, b = ev.ev(lo_), ev.ev(hi_)
                        except Undecided as ex:
                            raise AnalysisError(f"_ind2save ({case}, {etype}): kept range not evaluable: {ex}")
                        break
        if a is None or b is None:
            raise AnalysisError("_ind2save: kept range is not held in ind2save[0], ind2save[1] nor applied as chunk[:, a:b]")
        out[case] = (a, b)
    return fi, out


def ind2save_call_ratios(repo, process_q):
    """(call node, ratio expr, etype) of every _ind2save call in a process method."""
    fi = repo.fn(process_q)
    callee = repo.fn(CLS + "._ind2save")
    out = []
    for c in resolved_calls(repo, fi, CLS + "._ind2save"):
        b = bind(c, callee)
        r = b.bound.get("ratio", callee.defaults().get("ratio"))
        et = b.bound.get("etype", callee.defaults().get("etype"))
        out.append((c, r, et.value if isinstance(et, ast.Constant) else None, b))
    return fi, out


# ------------------------------------------------------------------------------------------------ window-state coherence
def _loop_carried(du, loop: ast.For, at_node, expr) -> list:
    """Names read by `expr` (evaluated at CFG node at_node, inside the body of `loop`) that can hold a value assigned in an EARLIER
    iteration: a definition inside the loop body that reaches at_node only through the loop header."""
    cfg = du.cfg
    header = cfg.node_for(loop)
    body_ids = set()
    for st in loop.body:
        for sub in ast.walk(st):
            n = cfg.by_stmt.get(id(sub))
            if n is not None:
                body_ids.add(n.id)
    out = []
    for nm in {n.id for n in ast.walk(expr) if isinstance(n, ast.Name)}:
        for d in du.reaching_at(at_node, nm):
            if d.node is None or d.node.id not in body_ids or d.kind == "mutate":
                continue
            if d.node.id == at_node.id or not cfg.reachable(d.node, at_node, avoid=[header]):
                out.append((nm, d))
    return out


def window_state_rule(ctx, rule_id: str):
    """_ind2save decides first / last window from the generator's own counter (wg.iw), which `firstlast` advances as it is iterated.
    The data handed to _ind2save must therefore belong to the window the generator is currently on: the call sits in the body of the
    loop that iterates wg.firstlast (directly, or through a generator helper that yields inside that loop) and receives nothing that
    was read in an earlier iteration."""
    ctx.rule(rule_id, "the chunk handed to _ind2save belongs to the window wg.firstlast is currently on (no look-ahead / carried-over window: "
                      "_ind2save reads wg.iw to recognise the first and last window)")
    repo = ctx.repo
    ind = repo.fn(CLS + "._ind2save")
    uses_iw = any(isinstance(n, ast.Attribute) and n.attr == "iw" for n in ast.walk(ind.node))
    if not uses_iw:
        ctx.note("_ind2save no longer reads the generator's window counter: window-state coherence holds trivially")
        return
    n = 0
    for q in (CLS + "._process_NP24", CLS + "._process_NP21"):
        fi = repo.fn(q)
        du = DefUse(fi.node)
        cfg = du.cfg
        parents = {}
        for p in ast.walk(fi.node):
            for c in ast.iter_child_nodes(p):
                parents[id(c)] = p
        for call in resolved_calls(repo, fi, CLS + "._ind2save"):
            n += 1
            cur, loop = call, None
            while id(cur) in parents:
                cur = parents[id(cur)]
                if isinstance(cur, (ast.For, ast.While)):
                    loop = cur
                    break
            if loop is None or not isinstance(loop, ast.For):
                ctx.violation(fi, call, call, "_ind2save is not called from the body of the loop over the generator's windows: wg.iw no longer identifies the window being saved",
                              key="ws-loop:" + q, name_free=True)
                continue
            it = expand_name(du, loop.iter, loop)
            at = cfg.node_for(call)
            b = bind(call, ind)
            data_args = [v for k, v in b.bound.items() if k not in ("self", "wg", "ratio", "etype")]
            carried = []
            for a in data_args:
                carried += _loop_carried(du, loop, at, a)
            if carried:
                nm, d = carried[0]
                ctx.violation(fi, call, call, f"`{nm}` handed to _ind2save was assigned in an earlier iteration (line {d.lineno}): the generator has moved on, wg.iw is one window ahead "
                              f"of the data, so the first / last window trimming is applied to the wrong window", key="ws-carried:" + q, name_free=True)
                continue
            if isinstance(it, ast.Attribute) and it.attr == "firstlast":
                ctx.ok(fi, call, call, "called in the iteration of wg.firstlast that produced the window", key="ws:" + q)
                continue
            gq = repo.resolve_call(fi, it) if isinstance(it, ast.Call) else None
            if gq in repo.functions and any(isinstance(x, (ast.Yield, ast.YieldFrom)) for x in ast.walk(repo.functions[gq].node)):
                g = repo.functions[gq]
                gdu = DefUse(g.node)
                gcfg = gdu.cfg
                gpar = {}
                for p in ast.walk(g.node):
                    for c in ast.iter_child_nodes(p):
                        gpar[id(c)] = p
                bad = None
                nyield = 0
                for y in [x for x in ast.walk(g.node) if isinstance(x, ast.Yield)]:
                    nyield += 1
                    cur, yl = y, None
                    while id(cur) in gpar:
                        cur = gpar[id(cur)]
                        if isinstance(cur, ast.For) and isinstance(cur.iter, ast.Attribute) and cur.iter.attr == "firstlast":
                            yl = cur
                            break
                    if yl is None:
                        # after the loop: the generator is exhausted and sits on its last window; accepted when the value comes from the loop body
                        continue
                    if y.value is None:
                        continue
                    yc = _loop_carried(gdu, yl, gcfg.node_for(y), y.value)
                    if yc:
                        bad = (y, yc[0])
                        break
                if nyield == 0:
                    raise AnalysisError(f"{gq}: no yield found")
                if bad:
                    y, (nm, d) = bad
                    ctx.violation(g, y, y, f"`{nm}` yielded here was assigned in an earlier iteration of the loop over wg.firstlast (line {d.lineno}): the generator has already advanced "
                                  f"(wg.iw is one window ahead) when {q.rsplit('.', 1)[-1]} hands this window to _ind2save - first / last window trimming hits the wrong window, the stream "
                                  f"is shifted by the taper margin and depends on the window size", key="ws-lookahead:" + q, name_free=True)
                else:
                    ctx.ok(g, g.node, f"{gq} yields inside its own iteration of firstlast", "helper generator yields the window firstlast is on", key="ws:" + q)
                continue
            raise AnalysisError(f"{q}: the loop around _ind2save iterates `{src(it)[:80]}` - not wg.firstlast nor a generator helper of the repository")
    if n == 0:
        raise AnchorMissing("no _ind2save call found in _process_NP24 / _process_NP21")


# ---------------------------------------------------------------------------------------------------------------------
# per-shank output files: which entry key holds what, how the writer gets at the file, and whether a re-run starts empty
# ---------------------------------------------------------------------------------------------------------------------
PREPARE = (CLS + "._prepare_files_NP24", CLS + "._prepare_files_NP21")


def entry_defs(fi):
    """{entry key: [(value, stmt)]} for `X["key"] = value` stores and dict displays `{"key": value, ...}` in a prepare step."""
    out = {}
    for st in walk_function(fi.node):
        if isinstance(st, ast.Assign) and len(st.targets) == 1:
            t = st.targets[0]
            if isinstance(t, ast.Subscript) and isinstance(t.slice, ast.Constant) and isinstance(t.slice.value, str):
                out.setdefault(t.slice.value, []).append((st.value, st))
            if isinstance(st.value, ast.Dict):
                for k, v in zip(st.value.keys, st.value.values):
                    if isinstance(k, ast.Constant) and isinstance(k.value, str):
                        out.setdefault(k.value, []).append((v, st))
    return out


def _mode_of(call):
    """(path, mode) of open(path, mode) / path.open(mode); mode None when it is not a literal."""
    from sa.struct import kwarg
    nm = call_name(call)
    if nm != "open":
        return None
    if isinstance(call.func, ast.Name):
        p = call.args[0] if call.args else None
        m = call.args[1] if len(call.args) > 1 else kwarg(call, "mode")
    else:
        p = call.func.value
        if isinstance(p, ast.Name) and p.id in ("io", "os", "gzip", "builtins"):
            p = call.args[0] if call.args else None
            m = call.args[1] if len(call.args) > 1 else kwarg(call, "mode")
        else:
            m = call.args[0] if call.args else kwarg(call, "mode")
    mode = m.value if isinstance(m, ast.Constant) and isinstance(m.value, str) else ("r" if m is None else None)
    return p, mode


def file_effects(fi):
    """[(kind, path expr, call)]: kind in {'truncate', 'append', 'create-keep', 'mkdir'} for the filesystem calls of a function.
    truncate: the file is empty (or absent) afterwards whatever it held before - open(.., 'w'), write_bytes/write_text, unlink;
    create-keep: the file exists afterwards but keeps what it held - touch(), open(.., 'a'/'x'/'r+')."""
    out = []
    for c in find(fi.node, ast.Call, nested=False):
        nm = call_name(c)
        if nm == "open":
            pm = _mode_of(c)
            if pm is None or pm[0] is None:
                continue
            p, mode = pm
            if mode is None:
                out.append(("unknown", p, c))
            elif "w" in mode:
                out.append(("truncate", p, c))
            elif "a" in mode:
                out.append(("append", p, c))
            elif "+" in mode or "x" in mode:
                out.append(("create-keep", p, c))
        elif nm in ("write_bytes", "write_text", "unlink") and isinstance(c.func, ast.Attribute):
            out.append(("truncate", c.func.value, c))
        elif nm == "touch" and isinstance(c.func, ast.Attribute):
            out.append(("create-keep", c.func.value, c))
        elif nm in ("mkdir", "makedirs") and isinstance(c.func, ast.Attribute):
            out.append(("mkdir", c.func.value, c))
    return out


def _same_path(du, a, at_a, b, at_b):
    from sa.struct import norm
    if loc_name(a) is not None and loc_name(a) == loc_name(b):
        return True
    return norm(expand_name(du, a, at_a)) == norm(expand_name(du, b, at_b))


def _entry_key_of(du, p, at):
    """The entry key a path expression reads: X['ap_file'] / X[f'{etype}_file'] -> 'ap_file' / '*_file'."""
    from sa.struct import string_value
    v = expand_name(du, p, at)
    if isinstance(v, ast.Subscript):
        if isinstance(v.slice, ast.Constant) and isinstance(v.slice.value, str):
            return v.slice.value, v.value
        if isinstance(v.slice, ast.JoinedStr):
            parts = []
            for x in v.slice.values:
                parts.append(x.value if isinstance(x, ast.Constant) else "*")
            return "".join(parts), v.value
    return None, None


def split_writer(repo):
    """How _split2shanks gets at a shank's file. -> list of dicts (one per tofile call):
    {call, data, owner (expr of the entry whose chns select the columns), file_owner (entry the handle belongs to), key (entry key pattern),
     mode ('handle' when the writer uses a handle opened elsewhere, else the literal open mode), node}"""
    fi = repo.fn(CLS + "._split2shanks")
    du = DefUse(fi.node)
    out = []
    for c in find(fi.node, ast.Call, nested=False):
        if call_name(c) != "tofile" or not isinstance(c.func, ast.Attribute) or not c.args:
            continue
        data = expand_name(du, c.func.value, c)
        h = c.args[0]
        rec = {"call": c, "data": data, "fi": fi, "du": du, "mode": None, "key": None, "file_owner": None, "open": None}
        hv = h
        if isinstance(h, ast.Name):
            ds = du.strong_reaching(h.id, c)
            if len(ds) == 1 and ds[0].kind == "with" and isinstance(ds[0].value, ast.Call):
                hv = ds[0].value
            elif len(ds) == 1 and ds[0].kind == "assign" and ds[0].value is not None:
                hv = ds[0].value
        if isinstance(hv, ast.Call) and call_name(hv) == "open":
            p, mode = _mode_of(hv)
            rec["mode"] = mode
            rec["open"] = hv
            if p is not None:
                rec["key"], rec["file_owner"] = _entry_key_of(du, p, hv)
        else:
            k, owner = _entry_key_of(du, hv, c)
            rec["mode"], rec["key"], rec["file_owner"] = "handle", k, owner
        out.append(rec)
    return fi, out


def fresh_start_rule(ctx, rule_id):
    """A shank file the writer appends to (a handle opened once with 'w', or the path re-opened with 'a' for every chunk) must be
    EMPTY when the first chunk arrives: the prepare step truncates it (open 'w' / write_bytes / unlink), touch() or open 'a' keep what an
    earlier run left there."""
    from sa.cfg import conjuncts
    from sa.struct import norm
    repo = ctx.repo
    fi_w, recs = split_writer(repo)
    if not recs:
        raise AnchorMissing("_split2shanks: no tofile call")
    n = 0
    for rec in recs:
        c = rec["call"]
        if rec["mode"] is None or rec["key"] is None:
            raise AnalysisError(f"_split2shanks: cannot tell which file `{src(c)}` writes to")
        if rec["mode"] != "handle" and "w" in rec["mode"]:
            ctx.violation(fi_w, c, c, f"`{src(rec['open'])}` re-opens the shank file in truncating mode for every chunk: only the last window survives",
                          key="reopen-truncates", rule=rule_id, name_free=True)
            continue
        pat = rec["key"]
        for q in PREPARE:
            fi = repo.fn(q)
            du = DefUse(fi.node)
            cfg = du.cfg
            eds = entry_defs(fi)
            eff = file_effects(fi)
            if rec["mode"] == "handle":
                # the handle entry itself is defined by an open call in the prepare step
                hk = [k for k in eds if _key_matches(pat, k)]
                for k in hk:
                    for v, st in eds[k]:
                        vv = expand_name(du, v, st)
                        if isinstance(vv, ast.Call) and call_name(vv) == "open":
                            _, mode = _mode_of(vv)
                            n += 1
                            ctx.check(mode is not None and "w" in mode, fi, st, st, f"the {k} handle is opened truncating ('{mode}'): a re-run starts from an empty file",
                                      f"the {k} handle is opened with mode {mode!r}: frames of a forced re-run land behind what an earlier run left in the file",
                                      key=f"fresh:{k}", rule=rule_id, name_free=True)
                        else:
                            raise AnalysisError(f"{q}: entry {k} is not an open(...) handle: `{src(v)[:60]}`")
                continue
            fks = [k for k in eds if _key_matches(pat, k)]
            for k in fks:
                for v, st in eds[k]:
                    n += 1
                    sn = cfg.node_for(st)
                    sg = {(norm(t), pol) for tt, pp in cfg.guards(sn) for t, pol in conjuncts(tt, pp)}
                    hit = None
                    weak = None
                    for kind, p, call in eff:
                        same = _same_path(du, p, call, v, st)
                        if not same:
                            kk, _ = _entry_key_of(du, p, call)
                            same = kk == k
                        if not same:
                            continue
                        cn = cfg.node_for(call)
                        cg = {(norm(t), pol) for tt, pp in cfg.guards(cn) for t, pol in conjuncts(tt, pp)}
                        if kind == "truncate" and cg <= sg:
                            hit = call
                        elif kind in ("create-keep", "append"):
                            weak = call
                    how = f"; `{src(weak)}` creates the file but keeps what it already holds" if weak is not None else ""
                    ctx.check(hit is not None, fi, st, st,
                              f"{k} is emptied by `{src(hit) if hit is not None else ''}` before the first chunk is appended",
                              f"_split2shanks appends every chunk to {k} (`{src(rec['open'])}`) and nothing in {q.rsplit('.', 1)[1]} empties that file{how}: "
                              "when uncompressed output of an earlier (complete or interrupted) run is still there, a forced re-run writes its frames BEHIND the stale ones",
                              key=f"fresh:{k}", rule=rule_id, name_free=True)
    if n == 0:
        raise AnchorMissing("no shank output file definition found in the prepare steps")


def _key_matches(pat, k):
    import fnmatch
    return fnmatch.fnmatchcase(k, pat)
