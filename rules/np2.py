"""Shared symbolic model of NP2Converter's window arithmetic (used by C03 and C12)."""
import ast

from sa.algebra import Evaluator, Facts, Poly, SymExec, Undecided
from sa.calls import bind
from sa.common import resolved_calls
from sa.defuse import loc_name
from sa.model import AnalysisError, AnchorMissing, src, walk_function
from sa.struct import call_name, find

CLS = "neuropixel.NP2Converter"


def init_env(repo):
    """Evaluate init_params: returns (env, facts).  nwindow is kept symbolic (truthy)."""
    fi = repo.fn(CLS + ".init_params")
    facts = Facts()
    facts.int_syms |= {"nwindow", "nsamples", "self.sr.ns"}

    def assume(t):
        if isinstance(t, ast.Name) and t.id in ("nwindow", "nsamples"):
            return True  # caller supplied a value: keep it symbolic
        return None

    ev = Evaluator(facts=facts, resolve=lambda e: repo.resolve_expr(fi, e), assume=assume)
    sx = SymExec(ev, on_undecided="havoc")
    sx.run(fi.node.body)
    return fi, ev.env, facts


def window_ctor_args(repo, process_q):
    """(ns, nswin, overlap) argument expressions of the WindowGenerator built in a _process_* method."""
    fi = repo.fn(process_q)
    calls = [c for c in find(fi.node, ast.Call, nested=False) if call_name(c) == "WindowGenerator"]
    if not calls:
        raise AnchorMissing(f"{process_q}: WindowGenerator construction not found")
    ctor = repo.fn("ibldsp.utils.WindowGenerator.__init__")
    b = bind(calls[0], ctor)
    for p in ("ns", "nswin", "overlap"):
        if p not in b.bound:
            raise AnalysisError(f"{process_q}: WindowGenerator argument {p} not bound")
    return fi, calls[0], b.bound


def ind2save_cases(repo, env, facts, ratio: Poly, etype: str):
    """Evaluate _ind2save for the four (first?, last?) cases; returns {case: (a, b)} in output samples."""
    fi = repo.fn(CLS + "._ind2save")
    wg = [p for p in fi.params if p not in ("self",)][2] if len(fi.params) >= 4 else "wg"
    out = {}
    for case, (isf, isl) in {"first": (True, False), "interior": (False, False), "last": (False, True), "single": (True, True)}.items():
        def assume(t, isf=isf, isl=isl):
            if isinstance(t, ast.Compare) and len(t.ops) == 1 and isinstance(t.ops[0], ast.Eq):
                l, r = t.left, t.comparators[0]
                if loc_name(l) == f"{wg}.iw":
                    if isinstance(r, ast.Constant) and r.value == 0:
                        return isf
                    if f"{wg}.nwin" in src(r):
                        evr = Evaluator(facts=facts)
                        try:
                            d = (evr.ev(r) - (Poly.sym(f"{wg}.nwin") - Poly.const(1))).const_value()
                        except Undecided:
                            d = None
                        if d is None:
                            raise AnalysisError(f"_ind2save: last-window predicate `{src(t)}` not understood")
                        # iw ranges over 0 .. nwin-1: equality with nwin-1+d holds on the last window only for d == 0
                        return isl if d == 0 else False
            return None
        e = dict(env)
        e["ratio"] = ratio
        ev = Evaluator(env=e, facts=facts.copy(), resolve=lambda x: repo.resolve_expr(fi, x), assume=assume)
        ev.facts.int_syms |= {f"{wg}.iw", f"{wg}.nwin", f"{wg}.ns", f"{wg}.nswin", f"{wg}.overlap"}
        sx = SymExec(ev, on_undecided="error")
        try:
            for s in fi.node.body:
                if isinstance(s, ast.Expr) and isinstance(s.value, ast.Constant):
                    continue
                if any(loc_name(t) == "chunk2save" for t in (s.targets if isinstance(s, ast.Assign) else [])):
                    break
                if isinstance(s, ast.Return):
                    break
                sx.step(s)
        except Undecided as ex:
            raise AnalysisError(f"_ind2save ({case}, {etype}): {ex}")
        a, b = ev.env.get("ind2save[0]"), ev.env.get("ind2save[1]")
        if a is None or b is None:
            raise AnalysisError("_ind2save: kept range is not held in ind2save[0], ind2save[1]")
        out[case] = (a, b)
    return fi, out


def ind2save_call_ratios(repo, process_q):
    """(call node, ratio expr, etype) of every _ind2save call in a process method."""
    fi = repo.fn(process_q)
    callee = repo.fn(CLS + "._ind2save")
    out = []
    for c in resolved_calls(repo, fi, CLS + "._ind2save"):
        b = bind(c, callee)
        r = b.bound.get("ratio", callee.defaults().get("ratio"))
        et = b.bound.get("etype", callee.defaults().get("etype"))
        out.append((c, r, et.value if isinstance(et, ast.Constant) else None, b))
    return fi, out
