"""Shared symbolic model of NP2Converter's window arithmetic (used by C03 and C12)."""
import ast

from sa.algebra import Evaluator, Facts, Poly, SymExec, Undecided
from sa.calls import bind
from sa.common import expand_name, resolved_calls
from sa.defuse import DefUse
from sa.defuse import loc_name
from sa.model import AnalysisError, AnchorMissing, src, walk_function
from sa.struct import call_name, find

CLS = "neuropixel.NP2Converter"


def init_env(repo):
    """Evaluate init_params: returns (env, facts).  nwindow is kept symbolic (truthy)."""
    fi = repo.fn(CLS + ".init_params")
    facts = Facts()
    facts.int_syms |= {"nwindow", "nsamples", "self.sr.ns"}

    def assume(t):
        if isinstance(t, ast.Name) and t.id in ("nwindow", "nsamples"):
            return True  # caller supplied a value: keep it symbolic
        return None

    ev = Evaluator(facts=facts, resolve=lambda e: repo.resolve_expr(fi, e), assume=assume)
    sx = SymExec(ev, on_undecided="havoc")
    sx.run(fi.node.body)
    return fi, ev.env, facts


def window_ctor_args(repo, process_q):
    """(ns, nswin, overlap) argument expressions of the WindowGenerator built in a _process_* method."""
    fi = repo.fn(process_q)
    calls = [c for c in find(fi.node, ast.Call, nested=False) if call_name(c) == "WindowGenerator"]
    if not calls:
        raise AnchorMissing(f"{process_q}: WindowGenerator construction not found")
    ctor = repo.fn("ibldsp.utils.WindowGenerator.__init__")
    b = bind(calls[0], ctor)
    for p in ("ns", "nswin", "overlap"):
        if p not in b.bound:
            raise AnalysisError(f"{process_q}: WindowGenerator argument {p} not bound")
    return fi, calls[0], b.bound


def ind2save_cases(repo, env, facts, ratio: Poly, etype: str):
    """Evaluate _ind2save for the four (first?, last?) cases; returns {case: (a, b)} in output samples."""
    fi = repo.fn(CLS + "._ind2save")
    wg = [p for p in fi.params if p not in ("self",)][2] if len(fi.params) >= 4 else "wg"
    out = {}
    for case, (isf, isl) in {"first": (True, False), "interior": (False, False), "last": (False, True), "single": (True, True)}.items():
        def assume(t, isf=isf, isl=isl):
            if isinstance(t, ast.Compare) and len(t.ops) == 1 and isinstance(t.ops[0], ast.Eq):
                l, r = t.left, t.comparators[0]
                if loc_name(l) == f"{wg}.iw":
                    if isinstance(r, ast.Constant) and r.value == 0:
                        return isf
                    if f"{wg}.nwin" in src(r):
                        evr = Evaluator(facts=facts)
                        try:
                            d = (evr.ev(r) - (Poly.sym(f"{wg}.nwin") - Poly.const(1))).const_value()
                        except Undecided:
                            d = None
                        if d is None:
                            raise AnalysisError(f"_ind2save: last-window predicate `{src(t)}` not understood")
                        # iw ranges over 0 .. nwin-1: equality with nwin-1+d holds on the last window only for d == 0
                        return isl if d == 0 else False
            return None
        e = dict(env)
        e["ratio"] = ratio
        ev = Evaluator(env=e, facts=facts.copy(), resolve=lambda x: repo.resolve_expr(fi, x), assume=assume)
        ev.facts.int_syms |= {f"{wg}.iw", f"{wg}.nwin", f"{wg}.ns", f"{wg}.nswin", f"{wg}.overlap"}
        sx = SymExec(ev, on_undecided="error")
        try:
            for s in fi.node.body:
                if isinstance(s, ast.Expr) and isinstance(s.value, ast.Constant):
                    continue
                if any(loc_name(t) == "chunk2save" for t in (s.targets if isinstance(s, ast.Assign) else [])):
                    break
                if isinstance(s, ast.Return):
                    break
                sx.step(s)
        except Undecided as ex:
            raise AnalysisError(f"_ind2save ({case}, {etype}): {ex}")
        a, b = ev.env.get("ind2save[0]"), ev.env.get("ind2save[1]")
        if a is None or b is None:
            raise AnalysisError("_ind2save: kept range is not held in ind2save[0], ind2save[1]")
        out[case] = (a, b)
    return fi, out


def ind2save_call_ratios(repo, process_q):
    """(call node, ratio expr, etype) of every _ind2save call in a process method."""
    fi = repo.fn(process_q)
    callee = repo.fn(CLS + "._ind2save")
    out = []
    for c in resolved_calls(repo, fi, CLS + "._ind2save"):
        b = bind(c, callee)
        r = b.bound.get("ratio", callee.defaults().get("ratio"))
        et = b.bound.get("etype", callee.defaults().get("etype"))
        out.append((c, r, et.value if isinstance(et, ast.Constant) else None, b))
    return fi, out


# ------------------------------------------------------------------------------------------------ window-state coherence
def _loop_carried(du, loop: ast.For, at_node, expr) -> list:
    """Names read by `expr` (evaluated at CFG node at_node, inside the body of `loop`) that can hold a value assigned in an EARLIER
    iteration: a definition inside the loop body that reaches at_node only through the loop header."""
    cfg = du.cfg
    header = cfg.node_for(loop)
    body_ids = set()
    for st in loop.body:
        for sub in ast.walk(st):
            n = cfg.by_stmt.get(id(sub))
            if n is not None:
                body_ids.add(n.id)
    out = []
    for nm in {n.id for n in ast.walk(expr) if isinstance(n, ast.Name)}:
        for d in du.reaching_at(at_node, nm):
            if d.node is None or d.node.id not in body_ids or d.kind == "mutate":
                continue
            if d.node.id == at_node.id or not cfg.reachable(d.node, at_node, avoid=[header]):
                out.append((nm, d))
    return out


def window_state_rule(ctx, rule_id: str):
    """_ind2save decides first / last window from the generator's own counter (wg.iw), which `firstlast` advances as it is iterated.
    The data handed to _ind2save must therefore belong to the window the generator is currently on: the call sits in the body of the
    loop that iterates wg.firstlast (directly, or through a generator helper that yields inside that loop) and receives nothing that
    was read in an earlier iteration."""
    ctx.rule(rule_id, "the chunk handed to _ind2save belongs to the window wg.firstlast is currently on (no look-ahead / carried-over window: "
                      "_ind2save reads wg.iw to recognise the first and last window)")
    repo = ctx.repo
    ind = repo.fn(CLS + "._ind2save")
    uses_iw = any(isinstance(n, ast.Attribute) and n.attr == "iw" for n in ast.walk(ind.node))
    if not uses_iw:
        ctx.note("_ind2save no longer reads the generator's window counter: window-state coherence holds trivially")
        return
    n = 0
    for q in (CLS + "._process_NP24", CLS + "._process_NP21"):
        fi = repo.fn(q)
        du = DefUse(fi.node)
        cfg = du.cfg
        parents = {}
        for p in ast.walk(fi.node):
            for c in ast.iter_child_nodes(p):
                parents[id(c)] = p
        for call in resolved_calls(repo, fi, CLS + "._ind2save"):
            n += 1
            cur, loop = call, None
            while id(cur) in parents:
                cur = parents[id(cur)]
                if isinstance(cur, (ast.For, ast.While)):
                    loop = cur
                    break
            if loop is None or not isinstance(loop, ast.For):
                ctx.violation(fi, call, call, "_ind2save is not called from the body of the loop over the generator's windows: wg.iw no longer identifies the window being saved",
                              key="ws-loop:" + q, name_free=True)
                continue
            it = expand_name(du, loop.iter, loop)
            at = cfg.node_for(call)
            b = bind(call, ind)
            data_args = [v for k, v in b.bound.items() if k not in ("self", "wg", "ratio", "etype")]
            carried = []
            for a in data_args:
                carried += _loop_carried(du, loop, at, a)
            if carried:
                nm, d = carried[0]
                ctx.violation(fi, call, call, f"`{nm}` handed to _ind2save was assigned in an earlier iteration (line {d.lineno}): the generator has moved on, wg.iw is one window ahead "
                              f"of the data, so the first / last window trimming is applied to the wrong window", key="ws-carried:" + q, name_free=True)
                continue
            if isinstance(it, ast.Attribute) and it.attr == "firstlast":
                ctx.ok(fi, call, call, "called in the iteration of wg.firstlast that produced the window", key="ws:" + q)
                continue
            gq = repo.resolve_call(fi, it) if isinstance(it, ast.Call) else None
            if gq in repo.functions and any(isinstance(x, (ast.Yield, ast.YieldFrom)) for x in ast.walk(repo.functions[gq].node)):
                g = repo.functions[gq]
                gdu = DefUse(g.node)
                gcfg = gdu.cfg
                gpar = {}
                for p in ast.walk(g.node):
                    for c in ast.iter_child_nodes(p):
                        gpar[id(c)] = p
                bad = None
                nyield = 0
                for y in [x for x in ast.walk(g.node) if isinstance(x, ast.Yield)]:
                    nyield += 1
                    cur, yl = y, None
                    while id(cur) in gpar:
                        cur = gpar[id(cur)]
                        if isinstance(cur, ast.For) and isinstance(cur.iter, ast.Attribute) and cur.iter.attr == "firstlast":
                            yl = cur
                            break
                    if yl is None:
                        # after the loop: the generator is exhausted and sits on its last window; accepted when the value comes from the loop body
                        continue
                    if y.value is None:
                        continue
                    yc = _loop_carried(gdu, yl, gcfg.node_for(y), y.value)
                    if yc:
                        bad = (y, yc[0])
                        break
                if nyield == 0:
                    raise AnalysisError(f"{gq}: no yield found")
                if bad:
                    y, (nm, d) = bad
                    ctx.violation(g, y, y, f"`{nm}` yielded here was assigned in an earlier iteration of the loop over wg.firstlast (line {d.lineno}): the generator has already advanced "
                                  f"(wg.iw is one window ahead) when {q.rsplit('.', 1)[-1]} hands this window to _ind2save - first / last window trimming hits the wrong window, the stream "
                                  f"is shifted by the taper margin and depends on the window size", key="ws-lookahead:" + q, name_free=True)
                else:
                    ctx.ok(g, g.node, f"{gq} yields inside its own iteration of firstlast", "helper generator yields the window firstlast is on", key="ws:" + q)
                continue
            raise AnalysisError(f"{q}: the loop around _ind2save iterates `{src(it)[:80]}` - not wg.firstlast nor a generator helper of the repository")
    if n == 0:
        raise AnchorMissing("no _ind2save call found in _process_NP24 / _process_NP21")
