"""Static-analysis engine for the ibl-neuropixel property checks (ast only; nothing is executed)."""
