"""E3 - polynomial normal forms over the code's own symbols, plus a tiny symbolic executor.

A value is a Laurent polynomial with rational coefficients over *symbols* (names, `self.x`,
`x.shape[1]`, opaque atoms such as `ceil(...)`).  Equality of normal forms decides identities for
every value of the symbols.  Anything the evaluator cannot normalise becomes an opaque atom (sound:
two different atoms are simply not provably equal) or raises `Undecided`.
"""
from __future__ import annotations

import ast
from fractions import Fraction
from typing import Callable, Dict, Iterable, List, Optional, Set, Tuple, Union

from .defuse import loc_name
from .model import AnalysisError, src

Mono = Tuple[Tuple[str, int], ...]


class Undecided(AnalysisError):
    pass


class Poly:
    __slots__ = ("t",)

    def __init__(self, terms: Dict[Mono, Fraction] = None):
        self.t: Dict[Mono, Fraction] = {m: c for m, c in (terms or {}).items() if c != 0}

    # ---- constructors
    @staticmethod
    def const(c) -> "Poly":
        if isinstance(c, float):
            c = Fraction(repr(c))
        return Poly({(): Fraction(c)})

    @staticmethod
    def sym(name: str) -> "Poly":
        return Poly({((name, 1),): Fraction(1)})

    # ---- predicates
    def is_const(self) -> bool:
        return all(m == () for m in self.t)

    def const_value(self) -> Optional[Fraction]:
        if self.is_const():
            return self.t.get((), Fraction(0))
        return None

    def is_zero(self) -> bool:
        return not self.t

    def symbols(self) -> Set[str]:
        return {s for m in self.t for s, _ in m}

    def is_monomial(self) -> bool:
        return len(self.t) == 1

    # ---- arithmetic
    def __add__(self, o: "Poly") -> "Poly":
        r = dict(self.t)
        for m, c in o.t.items():
            r[m] = r.get(m, Fraction(0)) + c
        return Poly(r)

    def __neg__(self) -> "Poly":
        return Poly({m: -c for m, c in self.t.items()})

    def __sub__(self, o: "Poly") -> "Poly":
        return self + (-o)

    @staticmethod
    def _mmul(a: Mono, b: Mono) -> Mono:
        d = dict(a)
        for s, e in b:
            d[s] = d.get(s, 0) + e
        return tuple(sorted((s, e) for s, e in d.items() if e != 0))

    def __mul__(self, o: "Poly") -> "Poly":
        r: Dict[Mono, Fraction] = {}
        for m1, c1 in self.t.items():
            for m2, c2 in o.t.items():
                m = Poly._mmul(m1, m2)
                r[m] = r.get(m, Fraction(0)) + c1 * c2
        return Poly(r)

    def inv_monomial(self) -> Optional["Poly"]:
        if len(self.t) != 1:
            return None
        (m, c), = self.t.items()
        return Poly({tuple((s, -e) for s, e in m): 1 / c})

    def div(self, o: "Poly") -> Optional["Poly"]:
        inv = o.inv_monomial()
        if inv is None:
            return self.exact_div(o)
        return self * inv

    def exact_div(self, o: "Poly") -> Optional["Poly"]:
        """q with self == q * o for a multi-term divisor (multivariate long division under a graded order); None when it does not divide."""
        if o.is_zero() or len(o.t) < 2:
            return None
        syms = sorted(self.symbols() | o.symbols())

        def vec(m):
            d = dict(m)
            return tuple(d.get(x, 0) for x in syms)

        def key(m):
            v = vec(m)
            return (sum(v), v)
        if any(e < 0 for m in list(self.t) + list(o.t) for _, e in m):
            return None
        lo = max(o.t, key=key)
        q, r = Poly(), Poly(dict(self.t))
        for _ in range(64):
            if r.is_zero():
                return q
            lr = max(r.t, key=key)
            dv = tuple(a - b for a, b in zip(vec(lr), vec(lo)))
            if any(x < 0 for x in dv):
                return None
            term = Poly({tuple((x, e) for x, e in zip(syms, dv) if e): r.t[lr] / o.t[lo]})
            q = q + term
            r = r - term * o
        return None

    def pow(self, n: int) -> "Poly":
        if n < 0:
            inv = self.inv_monomial()
            if inv is None:
                raise Undecided("negative power of a sum")
            return inv.pow(-n)
        r = Poly.const(1)
        for _ in range(n):
            r = r * self
        return r

    def __eq__(self, o) -> bool:
        return isinstance(o, Poly) and self.t == o.t

    def __hash__(self):
        return hash(self.canon())

    def canon(self) -> str:
        if not self.t:
            return "0"
        parts = []
        for m in sorted(self.t):
            c = self.t[m]
            ms = "*".join(s if e == 1 else f"{s}^{e}" for s, e in m)
            if not ms:
                parts.append(str(c))
            elif c == 1:
                parts.append(ms)
            else:
                parts.append(f"{c}*{ms}")
        return " + ".join(parts)

    __repr__ = canon

    def coeff(self, symbol: str) -> Fraction:
        """Coefficient of the degree-1 monomial consisting of `symbol` alone."""
        return self.t.get(((symbol, 1),), Fraction(0))

    def subs(self, mapping: Dict[str, "Poly"]) -> "Poly":
        r = Poly()
        for m, c in self.t.items():
            term = Poly.const(c)
            for s, e in m:
                base = mapping.get(s, Poly.sym(s))
                term = term * base.pow(e)
            r = r + term
        return r


class Facts:
    """Divisibility and integrality facts harvested from the code (asserts) or stated by a rule."""

    def __init__(self):
        self.int_syms: Set[str] = set()
        self.divides: Dict[str, Set[Union[int, str]]] = {}  # symbol -> divisors
        self.nonneg: Set[str] = set()

    def add_div(self, sym: str, k):
        self.divides.setdefault(sym, set()).add(k)

    def copy(self) -> "Facts":
        f = Facts()
        f.int_syms = set(self.int_syms)
        f.divides = {k: set(v) for k, v in self.divides.items()}
        f.nonneg = set(self.nonneg)
        return f

    def is_integer(self, p: Poly) -> bool:
        for m, c in p.t.items():
            pos = [(s, e) for s, e in m if e > 0]
            neg = [(s, -e) for s, e in m if e < 0]
            if any(s not in self.int_syms for s, _ in m):
                return False
            D = c.denominator
            if not neg and D == 1:
                continue
            ok = False
            if not neg:
                for s, _ in pos:
                    if any(isinstance(k, int) and k % D == 0 for k in self.divides.get(s, ())):
                        ok = True
            elif len(neg) == 1 and neg[0][1] == 1 and D == 1:
                r = neg[0][0]
                for s, _ in pos:
                    if r in self.divides.get(s, ()):
                        ok = True
            if not ok:
                return False
        return True


def _is_broadcast_index(sl: ast.AST) -> bool:
    """Index made only of full slices and newaxis/None (at least one newaxis): a broadcasting view."""
    elts = sl.elts if isinstance(sl, ast.Tuple) else [sl]
    new = 0
    for e in elts:
        if isinstance(e, ast.Slice) and e.lower is None and e.upper is None and e.step is None:
            continue
        if isinstance(e, ast.Constant) and e.value is None:
            new += 1
            continue
        if isinstance(e, ast.Attribute) and e.attr == "newaxis":
            new += 1
            continue
        return False
    return new > 0


AssumeFn = Callable[[ast.AST], Optional[bool]]


class Evaluator:
    """Evaluate an ast expression to a Poly under an environment of locations -> Poly."""

    ROUNDERS = {"int", "float", "numpy.floor", "numpy.ceil", "numpy.round", "numpy.rint", "numpy.around",
                "round", "numpy.int32", "numpy.int64", "numpy.double", "numpy.float32", "numpy.float64", "math.floor",
                "math.ceil"}
    FLOATERS = {"float", "numpy.double", "numpy.float32", "numpy.float64"}

    def __init__(self, env: Dict[str, Poly] = None, facts: Facts = None, resolve: Callable[[ast.AST], Optional[str]] = None,
                 assume: AssumeFn = None):
        self.env: Dict[str, Poly] = dict(env or {})
        self.facts = facts or Facts()
        self.resolve = resolve or (lambda e: src(e))
        self.assume = assume or (lambda t: None)

    def atom(self, name: str, *args: Poly) -> Poly:
        return Poly.sym(f"{name}({', '.join(a.canon() for a in args)})")

    def ev(self, e: ast.AST) -> Poly:
        if isinstance(e, ast.Constant):
            if isinstance(e.value, bool):
                return Poly.const(int(e.value))
            if isinstance(e.value, (int, float)):
                return Poly.const(e.value)
            if e.value is None:
                return Poly.sym("None")
            raise Undecided(f"non-numeric constant {e.value!r}")
        if isinstance(e, ast.Subscript) and _is_broadcast_index(e.slice):
            return self.ev(e.value)  # x[:, np.newaxis] / x[None, :] : the same values, reshaped for broadcasting
        if isinstance(e, (ast.Name, ast.Attribute, ast.Subscript)):
            ln = loc_name(e)
            if ln is not None:
                if ln in self.env:
                    return self.env[ln]
                return Poly.sym(ln)
            if isinstance(e, ast.Subscript):
                return Poly.sym(f"[{src(e)}]")
            raise Undecided(f"cannot name {src(e)}")
        if isinstance(e, ast.UnaryOp):
            if isinstance(e.op, ast.USub) and isinstance(e.operand, ast.BinOp) and isinstance(e.operand.op, ast.FloorDiv):
                # -(x // b) == ceil(-x / b): the integer ceiling-division idiom
                num = ast.UnaryOp(op=ast.USub(), operand=e.operand.left)
                call = ast.Call(func=ast.Attribute(value=ast.Name(id="math", ctx=ast.Load()), attr="ceil", ctx=ast.Load()),
                                args=[ast.BinOp(left=num, op=ast.Div(), right=e.operand.right)], keywords=[])
                saved = self.resolve
                self.resolve = lambda f: "math.ceil" if isinstance(f, ast.Attribute) and f.attr == "ceil" and isinstance(f.value, ast.Name) and f.value.id == "math" else saved(f)
                try:
                    return self.ev(call)
                finally:
                    self.resolve = saved
            if isinstance(e.op, ast.USub):
                return -self.ev(e.operand)
            if isinstance(e.op, ast.UAdd):
                return self.ev(e.operand)
            raise Undecided(f"unary {src(e)}")
        if isinstance(e, ast.BinOp):
            a, b = self.ev(e.left), self.ev(e.right)
            if isinstance(e.op, ast.Add):
                return a + b
            if isinstance(e.op, ast.Sub):
                return a - b
            if isinstance(e.op, ast.Mult):
                return a * b
            if isinstance(e.op, ast.Div):
                q = a.div(b)
                if q is not None:
                    return q
                # (a + k*b) / b == a / b + k : pick a canonical representative of the numerator modulo the denominator
                best, bk = a, 0
                for k in range(-4, 5):
                    c = a - Poly.const(k) * b
                    if (len(c.t), c.canon()) < (len(best.t), best.canon()):
                        best, bk = c, k
                return self.atom("div", best, b) + Poly.const(bk)
            if isinstance(e.op, ast.FloorDiv):
                q = a.div(b)
                if q is not None and self.facts.is_integer(q):
                    return q
                if q is not None:
                    # integer-valued part + rational constant: floor the constant alone
                    import math
                    cpart = q.t.get((), Fraction(0))
                    ipart = Poly({m: c for m, c in q.t.items() if m != ()})
                    if not ipart.is_zero() and self.facts.is_integer(ipart):
                        return ipart + Poly.const(math.floor(cpart))
                r_ = self.atom("floordiv", a, b)
                if self.facts.is_integer(a) and self.facts.is_integer(b):
                    self.facts.int_syms |= r_.symbols()     # an integer quotient of integers is an integer: int(.) / floor(.) of it is the identity
                return r_
            if isinstance(e.op, ast.Mod):
                q = a.div(b)
                if q is not None and self.facts.is_integer(q):
                    return Poly.const(0)
                ca, cb = a.const_value(), b.const_value()
                if ca is not None and cb is not None and cb != 0 and ca.denominator == 1 and cb.denominator == 1:
                    return Poly.const(int(ca) % int(cb))
                if cb is not None and cb.denominator == 1 and cb > 0:
                    # (k*X + c) mod k == c mod k for integer-valued monomials X
                    k = int(cb)
                    rest = Poly()
                    const = Fraction(0)
                    ok = True
                    for m, c in a.t.items():
                        if m == ():
                            const = c
                        elif c.denominator == 1 and int(c) % k == 0 and self.facts.is_integer(Poly({m: Fraction(1)})):
                            continue
                        else:
                            ok = False
                    if ok and const.denominator == 1:
                        return Poly.const(int(const) % k)
                r_ = self.atom("mod", a, b)
                if self.facts.is_integer(a) and self.facts.is_integer(b):
                    self.facts.int_syms |= r_.symbols()
                return r_
            if isinstance(e.op, ast.Pow):
                cb = b.const_value()
                if cb is not None and cb.denominator == 1:
                    return a.pow(int(cb))
                return self.atom("pow", a, b)
            raise Undecided(f"operator in {src(e)}")
        if isinstance(e, ast.IfExp):
            d = self.assume(e.test)
            if d is None:
                d = self.decide(e.test)
            if d is True:
                return self.ev(e.body)
            if d is False:
                return self.ev(e.orelse)
            return self.atom("ifexp", Poly.sym(src(e.test)), self.ev(e.body), self.ev(e.orelse))
        if isinstance(e, ast.BoolOp) and isinstance(e.op, ast.Or) and len(e.values) == 2:
            # `a or b` used as default: rule decides through assume on the first operand's truthiness
            d = self.assume(e.values[0])
            if d is True:
                return self.ev(e.values[0])
            if d is False:
                return self.ev(e.values[1])
            return self.atom("or", self.ev(e.values[0]), self.ev(e.values[1]))
        if isinstance(e, (ast.ListComp, ast.GeneratorExp)):
            return self.ev(e.elt)  # element-wise reading of a comprehension
        if isinstance(e, ast.Call):
            fn = self.resolve(e.func) or src(e.func)
            args = e.args
            if fn in ("numpy.array", "numpy.asarray", "numpy.copy", "numpy.real", "numpy.squeeze", "numpy.atleast_1d", "numpy.atleast_2d", "numpy.asanyarray",
                      "numpy.ascontiguousarray") and args:
                return self.ev(args[0])
            if fn in ("numpy.ones", "numpy.ones_like"):
                return Poly.const(1)
            if fn in ("numpy.zeros", "numpy.zeros_like"):
                return Poly.const(0)
            if isinstance(e.func, ast.Attribute) and e.func.attr in ("astype", "copy", "flatten", "ravel", "squeeze"):
                return self.ev(e.func.value)
            if fn in self.ROUNDERS and len(args) >= 1:
                x = self.ev(args[0])
                if fn in self.FLOATERS:
                    return x
                cv = x.const_value()
                if cv is not None:
                    import math
                    if fn in ("numpy.ceil", "math.ceil"):
                        return Poly.const(math.ceil(cv))
                    if fn in ("int",):
                        return Poly.const(int(cv))
                    if fn in ("numpy.floor", "math.floor", "numpy.int32", "numpy.int64"):
                        return Poly.const(math.floor(cv))
                    return Poly.const(round(cv))
                if self.facts.is_integer(x):
                    return x
                # x + integer constant: ceil/floor/int commute with adding an integer
                cpart = x.t.get((), Fraction(0))
                if cpart != 0 and cpart.denominator == 1 and fn not in ("numpy.round", "numpy.rint", "numpy.around", "round") and not (Poly({m: c for m, c in x.t.items() if m != ()})).is_zero() \
                        and not self.facts.is_integer(Poly({m: c for m, c in x.t.items() if m != ()})) and fn not in self.FLOATERS:
                    rest = Poly({m: c for m, c in x.t.items() if m != ()})
                    a0 = self.atom(fn.split(".")[-1], rest)
                    self.facts.int_syms |= a0.symbols()
                    return a0 + Poly.const(cpart)
                # integer-valued part + rational constant: round the constant alone
                ipart = Poly({m: c for m, c in x.t.items() if m != ()})
                if not ipart.is_zero() and self.facts.is_integer(ipart) and fn not in ("numpy.round", "numpy.rint", "numpy.around", "round"):
                    import math
                    if fn in ("numpy.ceil", "math.ceil"):
                        return ipart + Poly.const(math.ceil(cpart))
                    if fn in ("numpy.floor", "math.floor"):
                        return ipart + Poly.const(math.floor(cpart))
                    if fn in ("int", "numpy.int32", "numpy.int64") and "nonneg" in getattr(self, "hints", ()):
                        return ipart + Poly.const(math.floor(cpart))
                a = self.atom(fn.split(".")[-1], x)
                if fn not in self.FLOATERS:
                    self.facts.int_syms |= a.symbols()  # ceil/floor/round/int of anything is an integer
                return a
            if fn in ("min", "max", "numpy.minimum", "numpy.maximum") and len(args) == 2:
                a, b = self.ev(args[0]), self.ev(args[1])
                ca, cb = a.const_value(), b.const_value()
                nm = "min" if fn.endswith(("min", "minimum")) else "max"
                if ca is not None and cb is not None:
                    return Poly.const(min(ca, cb) if nm == "min" else max(ca, cb))
                if a == b:
                    return a
                # max(x, c) == max(x - c, 0) + c for a constant c: one canonical form whatever constant the source factors out
                for u, v in ((a, b), (b, a)):
                    cv = v.const_value()
                    if cv is not None and cv != 0 and u.const_value() is None:
                        inner = self.ev_minmax(nm, u - v, Poly.const(0))
                        return inner + v
                x, y = sorted([a, b], key=lambda p: p.canon())
                r = self.atom(nm, x, y)
                if self.facts.is_integer(x) and self.facts.is_integer(y):
                    self.facts.int_syms |= r.symbols()
                return r
            if fn in ("numpy.mod",) and len(args) == 2:
                return self.ev(ast.BinOp(left=args[0], op=ast.Mod(), right=args[1]))
            if fn == "len" and len(args) == 1:
                return Poly.sym(f"len({src(args[0])})")
            if fn == "abs" and len(args) == 1:
                return self.atom("abs", self.ev(args[0]))
            return Poly.sym(f"call:{src(e)}")
        if isinstance(e, ast.Compare) or isinstance(e, ast.BoolOp):
            d = self.decide(e)
            if d is not None:
                return Poly.const(int(d))
            return Poly.sym(f"cond:{src(e)}")
        raise Undecided(f"cannot evaluate {src(e)}")

    def ev_minmax(self, nm: str, a: Poly, b: Poly) -> Poly:
        x, y = sorted([a, b], key=lambda p: p.canon())
        r = self.atom(nm, x, y)
        if self.facts.is_integer(x) and self.facts.is_integer(y):
            self.facts.int_syms |= r.symbols()
        return r

    # ---- tests
    def decide(self, test: ast.AST) -> Optional[bool]:
        d = self.assume(test)
        if d is not None:
            return d
        if isinstance(test, ast.UnaryOp) and isinstance(test.op, ast.Not):
            d = self.decide(test.operand)
            return None if d is None else (not d)
        if isinstance(test, ast.BoolOp):
            vals = [self.decide(v) for v in test.values]
            if isinstance(test.op, ast.And):
                if any(v is False for v in vals):
                    return False
                if all(v is True for v in vals):
                    return True
            else:
                if any(v is True for v in vals):
                    return True
                if all(v is False for v in vals):
                    return False
            return None
        if isinstance(test, ast.Compare) and len(test.ops) == 1:
            try:
                a, b = self.ev(test.left), self.ev(test.comparators[0])
            except Undecided:
                return None
            diff = a - b
            cv = diff.const_value()
            if cv is None:
                return None
            op = test.ops[0]
            if isinstance(op, ast.Eq):
                return cv == 0
            if isinstance(op, ast.NotEq):
                return cv != 0
            if isinstance(op, ast.Lt):
                return cv < 0
            if isinstance(op, ast.LtE):
                return cv <= 0
            if isinstance(op, ast.Gt):
                return cv > 0
            if isinstance(op, ast.GtE):
                return cv >= 0
        return None


class SymExec:
    """Run straight-line code + decidable branches, tracking locations -> Poly.

    Used to evaluate small parameter-initialisation methods (`init_params`), window arithmetic
    (`_ind2save`, `firstlast_valid`) and loop bodies once, under rule-chosen case assumptions.
    """

    def __init__(self, ev: Evaluator, on_undecided: str = "error"):
        self.ev = ev
        self.on_undecided = on_undecided
        self.returns: List[Optional[ast.AST]] = []
        self.return_values: List[Poly] = []
        self.yields: List[ast.AST] = []
        self.trace: List[str] = []
        self.stopped = False
        self.fresh = 0

    def _havoc(self, name: str):
        self.fresh += 1
        self.ev.env[name] = Poly.sym(f"?{name}#{self.fresh}")
        for k in [k for k in self.ev.env if k.startswith(name + "[") or k.startswith(name + ".")]:
            del self.ev.env[k]

    def _assign(self, tgt: ast.AST, value: ast.AST):
        if isinstance(tgt, (ast.Tuple, ast.List)):
            if isinstance(value, (ast.Tuple, ast.List)) and len(value.elts) == len(tgt.elts):
                vals = [self._try_ev(v) for v in value.elts]
                for t, v in zip(tgt.elts, vals):
                    self._store(t, v)
            else:
                for t in tgt.elts:
                    self._store(t, None)
            return
        if isinstance(value, (ast.List, ast.Tuple)):
            ln = loc_name(tgt)
            if ln:
                self._havoc(ln)
                self.ev.env[ln] = Poly.sym(f"list#{ln}")
                self.ev.env[f"len({ln})"] = Poly.const(len(value.elts))
                for i, el in enumerate(value.elts):
                    v = self._try_ev(el)
                    if v is not None:
                        self.ev.env[f"{ln}[{i!r}]"] = v
            return
        self._store(tgt, self._try_ev(value))

    def _try_ev(self, e: ast.AST) -> Optional[Poly]:
        try:
            return self.ev.ev(e)
        except Undecided:
            return None

    def _store(self, tgt: ast.AST, v: Optional[Poly]):
        ln = loc_name(tgt)
        if ln is None:
            # store through a non-constant subscript: havoc the base's cells
            cur = tgt
            while isinstance(cur, ast.Subscript):
                cur = cur.value
            b = loc_name(cur)
            if b:
                for k in [k for k in self.ev.env if k.startswith(b + "[")]:
                    del self.ev.env[k]
            return
        if v is None:
            self._havoc(ln)
        else:
            if not isinstance(tgt, ast.Subscript):
                for k in [k for k in self.ev.env if k.startswith(ln + "[") or k.startswith(ln + ".")]:
                    del self.ev.env[k]
            self.ev.env[ln] = v

    def harvest_assert(self, test: ast.AST):
        """assert np.mod(a, b) == 0 / a % b == 0  ->  divisibility fact when a is a symbol."""
        if isinstance(test, ast.Compare) and len(test.ops) == 1 and isinstance(test.ops[0], ast.Eq):
            l, r = test.left, test.comparators[0]
            if isinstance(r, ast.Constant) and r.value == 0:
                a = b = None
                if isinstance(l, ast.BinOp) and isinstance(l.op, ast.Mod):
                    a, b = l.left, l.right
                elif isinstance(l, ast.Call) and (self.ev.resolve(l.func) or "") in ("numpy.mod",) and len(l.args) == 2:
                    a, b = l.args
                if a is not None:
                    pa, pb = self._try_ev(a), self._try_ev(b)
                    if pa is not None and pb is not None and pa.is_monomial() and list(pa.t.values()) == [1]:
                        (m,) = pa.t
                        if len(m) == 1 and m[0][1] == 1:
                            cb = pb.const_value()
                            if cb is not None and cb.denominator == 1:
                                self.ev.facts.add_div(m[0][0], int(cb))
                            elif pb.is_monomial() and list(pb.t.values()) == [1] and len(list(pb.t)[0]) == 1:
                                self.ev.facts.add_div(m[0][0], list(pb.t)[0][0][0])

    def run(self, stmts: Iterable[ast.stmt]):
        for s in stmts:
            if self.stopped:
                return
            self.step(s)

    def step(self, s: ast.stmt):
        if isinstance(s, ast.Assign):
            for t in s.targets:
                self._assign(t, s.value)
        elif isinstance(s, ast.AnnAssign) and s.value is not None:
            self._assign(s.target, s.value)
        elif isinstance(s, ast.AugAssign):
            op = ast.BinOp(left=_as_load(s.target), op=s.op, right=s.value)
            self._store(s.target, self._try_ev(op))
        elif isinstance(s, ast.If):
            d = self.ev.decide(s.test)
            if d is True:
                self.run(s.body)
            elif d is False:
                self.run(s.orelse)
            else:
                if self.on_undecided == "error":
                    raise Undecided(f"branch not decided: {src(s.test)}")
                # run both outcomes on copies of the environment and keep what they agree on (join); the rest becomes unknown
                base_env = dict(self.ev.env)
                outcomes = []
                for branch in (s.body, s.orelse):
                    self.ev.env = dict(base_env)
                    saved = (self.stopped, list(self.returns), list(self.yields))
                    try:
                        self.run(branch)
                    except Undecided:
                        pass
                    outcomes.append(dict(self.ev.env))
                    self.stopped, self.returns, self.yields = saved[0], saved[1], saved[2]
                a, b = outcomes
                merged = {}
                for k in set(a) | set(b):
                    if k in a and k in b and a[k] == b[k]:
                        merged[k] = a[k]
                    else:
                        self.fresh += 1
                        merged[k] = Poly.sym(f"?{k}#{self.fresh}")
                self.ev.env = merged
        elif isinstance(s, ast.Assert):
            self.harvest_assert(s.test)
        elif isinstance(s, ast.Return):
            self.returns.append(s.value)
            self.stopped = True
        elif isinstance(s, ast.Expr):
            if isinstance(s.value, (ast.Yield,)):
                self.yields.append(s.value.value)
        elif isinstance(s, (ast.Pass, ast.Import, ast.ImportFrom, ast.FunctionDef, ast.Global, ast.Nonlocal)):
            pass
        elif isinstance(s, ast.Break):
            self.stopped = True
        elif isinstance(s, (ast.For, ast.While, ast.With, ast.Try)):
            if self.on_undecided == "error":
                raise Undecided(f"compound statement not executed: {type(s).__name__} at line {s.lineno}")
            for n in ast.walk(s):
                if isinstance(n, (ast.Assign, ast.AugAssign)):
                    for t in (n.targets if isinstance(n, ast.Assign) else [n.target]):
                        for el in (t.elts if isinstance(t, (ast.Tuple, ast.List)) else [t]):
                            self._store(el, None)
        else:
            pass


def _as_load(t: ast.AST) -> ast.AST:
    import copy
    t2 = copy.deepcopy(t)
    for n in ast.walk(t2):
        if hasattr(n, "ctx"):
            n.ctx = ast.Load()
    return t2
