"""E14 - value terms of straight-line numpy code with in-place semantics.

A loop-free function body is executed symbolically on TERMS (nested tuples): every array-valued local is bound to the term it holds,
`np.f(a, b, out=v)`, `v op= x`, `v[...] = x` re-bind the variable (and, for a view `v = w[:, a:b]` that is completely overwritten by an
out= operation, only the view - the base array is not read afterwards in the idioms this is used for; a later read of the base through
another name raises Undecided).  Shape-only operations (astype, asarray, atleast_1d, [:, np.newaxis], copy) are transparent.

Terms:  ("p", name) parameter / free name            ("c", value) literal
        ("abs", t)  ("neg", t)                        ("sub", a, b) ("add", a, b) ("mul", a, b) ("div", a, b)
        ("cols", t, lo, hi) columns lo:hi             ("diff", t) first difference along the last axis  (== cols(t,1,None) - cols(t,None,-1))
        ("cmp", op, a, b)                             ("mean0", t) mean over axis 0 ("count0", t) / ("sum0", t)
        ("pad0", t) t followed by one 0               ("or", a, b) ("and", a, b)  ("rows", (t0, t1, ..)) stacked rows
        ("zeros",)                                    ("call", name, args...) anything else (opaque)
"""
from __future__ import annotations

import ast
from typing import Dict, Optional

from .algebra import Undecided
from .model import const_value, src
from .struct import call_name, kwarg

TRANSPARENT = ("astype", "asarray", "asanyarray", "array", "ascontiguousarray", "atleast_1d", "atleast_2d", "copy", "float32", "float64", "squeeze")
NP = ("np", "numpy", "gp", "cupy", "cp")


def _is_np(f: ast.AST) -> bool:
    return isinstance(f, ast.Attribute) and isinstance(f.value, ast.Name) and f.value.id in NP


def _full(e) -> bool:
    return (isinstance(e, ast.Slice) and e.lower is None and e.upper is None and e.step is None) or (isinstance(e, ast.Constant) and e.value is Ellipsis)


def _newaxis(e) -> bool:
    return (isinstance(e, ast.Constant) and e.value is None) or (isinstance(e, ast.Attribute) and e.attr == "newaxis")


def simplify(t):
    """sub(cols(x, 1, None), cols(x, None, -1)) -> diff(x);  cols of cols composed; or/and sorted."""
    if not isinstance(t, tuple):
        return t
    t = tuple(simplify(x) if isinstance(x, tuple) else x for x in t)
    if t[0] == "sub" and isinstance(t[1], tuple) and isinstance(t[2], tuple) and t[1][0] == "cols" and t[2][0] == "cols" and t[1][1] == t[2][1] \
            and (t[1][2], t[1][3]) == (1, None) and (t[2][2], t[2][3]) == (None, -1):
        return ("diff", t[1][1])
    if t[0] in ("or", "and"):
        a, b = sorted([t[1], t[2]], key=repr)
        return (t[0], a, b)
    if t[0] == "mul" and isinstance(t[2], tuple) and t[2][0] == "c" and not (isinstance(t[1], tuple) and t[1][0] == "c"):
        return ("mul", t[2], t[1])      # literal first
    return t


class TermExec:
    def __init__(self, params):
        self.env: Dict[str, tuple] = {p: ("p", p) for p in params}
        self.views: Dict[str, tuple] = {}     # view name -> (base name, lo, hi)
        self.returned = None

    # ---- expressions
    def ev(self, e: ast.AST):
        return simplify(self._ev(e))

    def _ev(self, e):
        if isinstance(e, ast.Constant):
            return ("c", e.value)
        if isinstance(e, ast.Name):
            if e.id in self.env:
                if self.env[e.id] == ("dirty",):
                    raise Undecided(f"`{e.id}` is read after it was modified through a view")
                return self.env[e.id]
            return ("p", e.id)
        if isinstance(e, ast.Attribute):
            if e.attr == "T":
                raise Undecided("transpose")
            return ("p", src(e))
        if isinstance(e, ast.UnaryOp):
            if isinstance(e.op, ast.USub):
                return ("neg", self.ev(e.operand))
            if isinstance(e.op, (ast.Invert, ast.Not)):
                return ("not", self.ev(e.operand))
            return self.ev(e.operand)
        if isinstance(e, ast.BinOp):
            a, b = self.ev(e.left), self.ev(e.right)
            op = {ast.Sub: "sub", ast.Add: "add", ast.Mult: "mul", ast.Div: "div", ast.BitOr: "or", ast.BitAnd: "and"}.get(type(e.op))
            if op is None:
                raise Undecided(f"operator in {src(e)[:40]}")
            return (op, a, b)
        if isinstance(e, ast.Compare) and len(e.ops) == 1:
            return ("cmp", type(e.ops[0]).__name__, self.ev(e.left), self.ev(e.comparators[0]))
        if isinstance(e, ast.Subscript):
            if isinstance(e.value, ast.Attribute) and e.value.attr == "r_":
                parts = e.slice.elts if isinstance(e.slice, ast.Tuple) else [e.slice]
                if len(parts) == 2 and const_value(parts[1]) == (True, 0):
                    return ("pad0", self.ev(parts[0]))
                raise Undecided(f"r_ form {src(e)[:40]}")
            if isinstance(e.value, ast.Attribute) and e.value.attr == "shape":
                return ("p", src(e))          # a dimension: an opaque scalar
            base = self.ev(e.value)
            el = e.slice.elts if isinstance(e.slice, ast.Tuple) else [e.slice]
            # shape-only: [:, np.newaxis]
            if any(_newaxis(x) for x in el) and all(_newaxis(x) or _full(x) for x in el):
                return base
            if base[0] == "rows" and len(el) >= 1 and isinstance(el[0], ast.Constant) and isinstance(el[0].value, int):
                return base[1][el[0].value]
            if len(el) == 1 and isinstance(el[0], ast.Slice) and el[0].step is None and (el[0].lower is None or const_value(el[0].lower)[0]) and (el[0].upper is None or const_value(el[0].upper)[0]):
                return ("slice", base, const_value(el[0].lower)[1] if el[0].lower is not None else None, const_value(el[0].upper)[1] if el[0].upper is not None else None)
            if len(el) == 2 and _full(el[0]) and isinstance(el[1], ast.Slice) and el[1].step is None:
                lo = const_value(el[1].lower)[1] if el[1].lower is not None and const_value(el[1].lower)[0] else None
                hi = const_value(el[1].upper)[1] if el[1].upper is not None and const_value(el[1].upper)[0] else None
                if (el[1].lower is not None and lo is None) or (el[1].upper is not None and hi is None):
                    raise Undecided(f"symbolic column bounds {src(e)[:40]}")
                return ("cols", base, lo, hi)
            raise Undecided(f"indexing {src(e)[:50]}")
        if isinstance(e, ast.Call):
            return self._call(e)
        raise Undecided(f"expression {src(e)[:50]}")

    def _call(self, e: ast.Call):
        nm = call_name(e)
        meth = isinstance(e.func, ast.Attribute) and not _is_np(e.func) and not (isinstance(e.func.value, ast.Attribute) and src(e.func.value).startswith(("scipy", "np.", "numpy.")))
        recv = e.func.value if meth else None
        args = list(e.args)
        if nm in TRANSPARENT:
            inner = recv if meth else (args[0] if args else None)
            if inner is None:
                raise Undecided(src(e)[:40])
            return self.ev(inner)
        if nm in ("abs", "absolute", "fabs"):
            return ("abs", self.ev(recv if meth else args[0]))
        if nm == "diff":
            ax = kwarg(e, "axis") or (args[2] if len(args) > 2 else None)
            if ax is not None and const_value(ax) not in ((True, -1), (True, 1)):
                raise Undecided("diff along another axis")
            return ("diff", self.ev(args[0]))
        if nm in ("subtract", "add", "multiply", "divide", "true_divide") and len(args) >= 2:
            op = {"subtract": "sub", "add": "add", "multiply": "mul", "divide": "div", "true_divide": "div"}[nm]
            return (op, self.ev(args[0]), self.ev(args[1]))
        if nm in ("mean", "sum", "count_nonzero", "any", "all"):
            x = recv if meth else args[0]
            ax = kwarg(e, "axis") or (args[1] if (not meth and len(args) > 1) else (args[0] if meth and args else None))
            if const_value(ax) != (True, 0):
                raise Undecided(f"{nm} over axis {src(ax) if ax is not None else None}")
            t = self.ev(x)
            if nm == "any":
                # any over stacked rows of booleans = OR of the rows
                if t[0] == "cmp" and isinstance(t[2], tuple) and t[2][0] == "rows":
                    rows = [("cmp", t[1], r, t[3]) for r in t[2][1]]
                    out = rows[0]
                    for r in rows[1:]:
                        out = ("or", out, r)
                    return out
                raise Undecided("any over something other than stacked rows")
            return ({"mean": "mean0", "sum": "sum0", "count_nonzero": "count0", "all": "all0"}[nm], t)
        if nm in ("logical_or", "bitwise_or", "logical_and", "bitwise_and") and len(args) == 2:
            return ("or" if "or" in nm else "and", self.ev(args[0]), self.ev(args[1]))
        if nm in ("zeros", "zeros_like", "empty", "empty_like"):
            shp = args[0] if args else None
            if isinstance(shp, (ast.Tuple, ast.List)) and len(shp.elts) == 2 and const_value(shp.elts[0])[0]:
                return ("rows", tuple(("zeros",) for _ in range(const_value(shp.elts[0])[1])))
            return ("zeros",)
        if nm in ("append",) and len(args) == 2 and const_value(args[1]) == (True, 0):
            return ("pad0", self.ev(args[0]))
        if nm in ("maximum", "minimum", "clip", "convolve", "fftconvolve", "cosine", "hann", "result_type", "stack", "vstack", "concatenate"):
            if nm in ("stack", "vstack") and args and isinstance(args[0], (ast.Tuple, ast.List)):
                return ("rows", tuple(self.ev(x) for x in args[0].elts))
            return ("call", nm) + tuple(self.ev(a) for a in args)
        if isinstance(e.func, ast.Name) and not e.keywords or (isinstance(e.func, ast.Name) and all(k.arg for k in e.keywords)):
            # a call of a plain (user) function: opaque, identified by name and argument terms
            return ("call", nm) + tuple(self.ev(a) for a in args) + tuple(("kw", k.arg, self.ev(k.value)) for k in e.keywords)
        raise Undecided(f"call {src(e)[:50]}")

    # ---- statements
    def run(self, body):
        for s in body:
            if self.returned is not None:
                break
            self.step(s)
        return self.returned

    def _bind(self, name: str, t):
        self.env[name] = simplify(t)

    def _written_in_place(self, name: str):
        """an in-place operation on `name`: the array it is a view of no longer holds what its term says"""
        base = self.views.get(name)
        if base is not None:
            self.env[base] = ("dirty",)
        for v, b in list(self.views.items()):
            if b == name:
                self.env[v] = ("dirty",)

    def _store(self, tgt: ast.Subscript, val):
        if not isinstance(tgt.value, ast.Name):
            raise Undecided(f"store into {src(tgt)[:40]}")
        nm = tgt.value.id
        cur = self.env.get(nm)
        el = tgt.slice.elts if isinstance(tgt.slice, ast.Tuple) else [tgt.slice]
        tail_pad = lambda x: isinstance(x, ast.Slice) and x.lower is None and x.step is None and const_value(x.upper) == (True, -1)   # noqa: E731
        if cur is None:
            raise Undecided(f"store into unknown array {nm}")
        if cur[0] == "rows" and isinstance(el[0], ast.Constant) and isinstance(el[0].value, int):
            rows = list(cur[1])
            k = el[0].value
            if rows[k] != ("zeros",):
                raise Undecided(f"row {k} of {nm} stored twice")
            if len(el) == 1 or (len(el) == 2 and _full(el[1])):
                rows[k] = val
            elif len(el) == 2 and tail_pad(el[1]):
                rows[k] = ("pad0", val)
            else:
                raise Undecided(f"partial row store {src(tgt)[:40]}")
            self._bind(nm, ("rows", tuple(rows)))
            return
        if cur == ("zeros",) and len(el) == 1 and tail_pad(el[0]):
            self._bind(nm, ("pad0", val))
            return
        raise Undecided(f"store {src(tgt)[:50]}")

    def step(self, s: ast.stmt):
        if isinstance(s, ast.Expr) and isinstance(s.value, ast.Constant):
            return
        if isinstance(s, ast.Assign) and len(s.targets) == 1:
            t = s.targets[0]
            if isinstance(t, ast.Name):
                self._bind(t.id, self.ev(s.value))
                self.views.pop(t.id, None)
                v = s.value
                if isinstance(v, ast.Subscript) and isinstance(v.value, ast.Name) and v.value.id in self.env and self.env[v.value.id][0] != "p":
                    self.views[t.id] = v.value.id          # a basic slice of a local array: writes through it reach the base
                return
            if isinstance(t, ast.Subscript):
                self._store(t, self.ev(s.value))
                return
            if isinstance(t, ast.Tuple) and isinstance(s.value, ast.Tuple) and len(t.elts) == len(s.value.elts) and all(isinstance(x, ast.Name) for x in t.elts):
                vals = [self.ev(v) for v in s.value.elts]
                for x, v in zip(t.elts, vals):
                    self._bind(x.id, v)
                return
            raise Undecided(f"assignment {src(s)[:50]}")
        if isinstance(s, ast.AugAssign) and isinstance(s.target, ast.Name):
            op = {ast.Sub: "sub", ast.Add: "add", ast.Mult: "mul", ast.Div: "div", ast.BitOr: "or", ast.BitAnd: "and"}.get(type(s.op))
            if op is None:
                raise Undecided(f"augmented {src(s)[:40]}")
            self._bind(s.target.id, (op, self.ev(s.target), self.ev(s.value)))
            self._written_in_place(s.target.id)
            return
        if isinstance(s, ast.Expr) and isinstance(s.value, ast.Call):
            c = s.value
            out = kwarg(c, "out")
            if out is not None and isinstance(out, ast.Name):
                stripped = ast.Call(func=c.func, args=c.args, keywords=[k for k in c.keywords if k.arg != "out"])
                self._bind(out.id, self.ev(stripped))
                self._written_in_place(out.id)
                return
            if call_name(c) in ("info", "debug", "warning"):
                return
            raise Undecided(f"call statement {src(s)[:50]}")
        if isinstance(s, ast.Return):
            v = s.value
            if isinstance(v, ast.Tuple):
                self.returned = tuple(self.ev(x) for x in v.elts)
            else:
                self.returned = (self.ev(v),)
            return
        if isinstance(s, (ast.Import, ast.ImportFrom, ast.Pass, ast.Assert)):
            return
        raise Undecided(f"statement {type(s).__name__}: {src(s)[:50]}")


def show(t) -> str:
    if not isinstance(t, tuple):
        return repr(t)
    k = t[0]
    if k == "p":
        return t[1]
    if k == "c":
        return repr(t[1])
    if k in ("abs", "neg", "diff", "mean0", "sum0", "count0", "pad0", "not"):
        name = {"abs": "|{}|", "neg": "-{}", "diff": "diff({})", "mean0": "mean_ch({})", "sum0": "sum_ch({})", "count0": "count_ch({})", "pad0": "[{}, 0]", "not": "~{}"}[k]
        return name.format(show(t[1]))
    if k in ("sub", "add", "mul", "div", "or", "and"):
        sym = {"sub": "-", "add": "+", "mul": "*", "div": "/", "or": "|", "and": "&"}[k]
        return f"({show(t[1])} {sym} {show(t[2])})"
    if k == "cmp":
        sym = {"Gt": ">", "GtE": ">=", "Lt": "<", "LtE": "<=", "Eq": "==", "NotEq": "!="}.get(t[1], t[1])
        return f"({show(t[2])} {sym} {show(t[3])})"
    if k == "cols":
        return f"{show(t[1])}[:, {'' if t[2] is None else t[2]}:{'' if t[3] is None else t[3]}]"
    if k == "rows":
        return "rows(" + ", ".join(show(x) for x in t[1]) + ")"
    if k == "zeros":
        return "0"
    return k + "(" + ", ".join(show(x) for x in t[1:]) + ")"
