"""E5 - call binding and forwarding analysis."""
from __future__ import annotations

import ast
from dataclasses import dataclass, field
from typing import Dict, List, Optional

from .model import FunctionInfo, src


@dataclass
class Binding:
    bound: Dict[str, ast.AST] = field(default_factory=dict)  # param -> argument expression
    how: Dict[str, str] = field(default_factory=dict)  # param -> 'pos' | 'kw'
    star_args: List[ast.AST] = field(default_factory=list)
    star_kwargs: List[ast.AST] = field(default_factory=list)
    extra_kw: Dict[str, ast.AST] = field(default_factory=dict)  # keywords that are not parameters (go to **kwargs)
    errors: List[str] = field(default_factory=list)

    def unbound(self, params: List[str]) -> List[str]:
        return [p for p in params if p not in self.bound]


def bind(call: ast.Call, callee: FunctionInfo, skip_self: bool = None) -> Binding:
    a = callee.node.args
    pos = [x.arg for x in a.posonlyargs + a.args]
    if skip_self is None:
        skip_self = bool(callee.cls) and pos[:1] == ["self"]
    if skip_self and pos:
        pos = pos[1:]
    kwonly = [x.arg for x in a.kwonlyargs]
    b = Binding()
    i = 0
    for arg in call.args:
        if isinstance(arg, ast.Starred):
            b.star_args.append(arg.value)
            continue
        if i < len(pos):
            b.bound[pos[i]] = arg
            b.how[pos[i]] = "pos"
        elif a.vararg is None:
            b.errors.append(f"too many positional arguments in {src(call)}")
        i += 1
    for kw in call.keywords:
        if kw.arg is None:
            b.star_kwargs.append(kw.value)
        elif kw.arg in pos or kw.arg in kwonly:
            if kw.arg in b.bound:
                b.errors.append(f"parameter {kw.arg} bound twice")
            b.bound[kw.arg] = kw.value
            b.how[kw.arg] = "kw"
        else:
            b.extra_kw[kw.arg] = kw.value
            if a.kwarg is None:
                b.errors.append(f"unknown keyword {kw.arg}")
    return b


def is_name(e: Optional[ast.AST], name: str) -> bool:
    return isinstance(e, ast.Name) and e.id == name
