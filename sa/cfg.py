"""E1 - statement-level control-flow graph, dominators, edge guards, must-pass-through."""
from __future__ import annotations

import ast
from typing import Dict, Iterable, List, Optional, Sequence, Set, Tuple

from .model import AnalysisError


class CNode:
    __slots__ = ("id", "kind", "stmt", "expr")

    def __init__(self, id_, kind, stmt=None, expr=None):
        self.id = id_
        self.kind = kind  # entry exit raise stmt test iter with handler
        self.stmt = stmt  # owning ast statement
        self.expr = expr  # test / iter expression for compound heads

    @property
    def lineno(self):
        return getattr(self.stmt, "lineno", 0)

    def __repr__(self):
        if self.stmt is None:
            return f"<{self.kind}>"
        return f"<{self.kind}@{self.lineno}>"


Edge = Tuple[int, Optional[object]]  # (target id, label)


class CFG:
    def __init__(self, fn_node: ast.AST):
        self.fn = fn_node
        self.nodes: List[CNode] = []
        self.succ: Dict[int, List[Edge]] = {}
        self.pred: Dict[int, List[Edge]] = {}
        self.by_stmt: Dict[int, CNode] = {}
        self.stmt_parent: Dict[int, ast.AST] = {}
        self.entry = self._new("entry")
        self.exit = self._new("exit")
        self.raise_exit = self._new("raise")
        self._loops: List[Tuple[CNode, List[Tuple[CNode, object]]]] = []
        for parent in ast.walk(fn_node):
            for child in ast.iter_child_nodes(parent):
                self.stmt_parent[id(child)] = parent
        body = fn_node.body if isinstance(fn_node.body, list) else [ast.Return(value=fn_node.body, lineno=fn_node.lineno)]
        outs = self._block(body, [(self.entry, None)])
        for n, lab in outs:
            self._edge(n, self.exit, lab)
        self._dom = None
        self._pdom = None

    # ------------------------------------------------------------ construction
    def _new(self, kind, stmt=None, expr=None) -> CNode:
        n = CNode(len(self.nodes), kind, stmt, expr)
        self.nodes.append(n)
        self.succ[n.id] = []
        self.pred[n.id] = []
        if stmt is not None and id(stmt) not in self.by_stmt:
            self.by_stmt[id(stmt)] = n
        return n

    def _edge(self, a: CNode, b: CNode, label=None):
        if (b.id, label) not in self.succ[a.id]:
            self.succ[a.id].append((b.id, label))
            self.pred[b.id].append((a.id, label))

    def _join(self, preds, node: CNode):
        for p, lab in preds:
            self._edge(p, node, lab)

    def _block(self, stmts: Sequence[ast.stmt], preds):
        cur = list(preds)
        for s in stmts:
            cur = self._stmt(s, cur)
        return cur

    def _stmt(self, s: ast.stmt, preds):
        if isinstance(s, ast.If):
            t = self._new("test", s, s.test)
            self._join(preds, t)
            tv = _const_truth(s.test)
            outs = []
            if tv is not False:
                outs += self._block(s.body, [(t, True)])
            if tv is not True:
                if s.orelse:
                    outs += self._block(s.orelse, [(t, False)])
                else:
                    outs.append((t, False))
            return outs
        if isinstance(s, ast.While):
            t = self._new("test", s, s.test)
            self._join(preds, t)
            breaks: List[Tuple[CNode, object]] = []
            self._loops.append((t, breaks))
            body_out = self._block(s.body, [(t, True)])
            self._loops.pop()
            self._join(body_out, t)
            outs = []
            if _const_truth(s.test) is not True:
                if s.orelse:
                    outs += self._block(s.orelse, [(t, False)])
                else:
                    outs.append((t, False))
            outs += breaks
            return outs
        if isinstance(s, (ast.For, ast.AsyncFor)):
            t = self._new("iter", s, s.iter)
            self._join(preds, t)
            breaks = []
            self._loops.append((t, breaks))
            body_out = self._block(s.body, [(t, "iter")])
            self._loops.pop()
            self._join(body_out, t)
            if s.orelse:
                outs = self._block(s.orelse, [(t, "exhaust")])
            else:
                outs = [(t, "exhaust")]
            return outs + breaks
        if isinstance(s, (ast.With, ast.AsyncWith)):
            w = self._new("with", s)
            self._join(preds, w)
            return self._block(s.body, [(w, None)])
        if isinstance(s, ast.Try) or s.__class__.__name__ == "TryStar":
            head = self._new("stmt", s)  # marker node for the try itself
            self._join(preds, head)
            # body; any statement of the body may raise into every handler
            cur = [(head, None)]
            raise_srcs = [(head, "exc")]
            for b in s.body:
                cur = self._stmt(b, cur)
                raise_srcs += [(n, "exc") for n, _ in cur]
            outs = []
            if s.orelse:
                cur = self._block(s.orelse, cur)
            for h in s.handlers:
                hn = self._new("handler", h)
                self._join(raise_srcs, hn)
                outs += self._block(h.body, [(hn, None)])
            outs += cur
            if s.finalbody:
                outs = self._block(s.finalbody, outs)
            return outs
        if isinstance(s, ast.Return):
            n = self._new("stmt", s)
            self._join(preds, n)
            self._edge(n, self.exit, "return")
            return []
        if isinstance(s, ast.Raise):
            n = self._new("stmt", s)
            self._join(preds, n)
            self._edge(n, self.raise_exit, "raise")
            return []
        if isinstance(s, ast.Break):
            n = self._new("stmt", s)
            self._join(preds, n)
            if not self._loops:
                raise AnalysisError("break outside loop")
            self._loops[-1][1].append((n, None))
            return []
        if isinstance(s, ast.Continue):
            n = self._new("stmt", s)
            self._join(preds, n)
            self._edge(n, self._loops[-1][0], None)
            return []
        if isinstance(s, ast.Assert):
            n = self._new("stmt", s)
            self._join(preds, n)
            self._edge(n, self.raise_exit, "assert")
            return [(n, None)]
        if s.__class__.__name__ == "Match":
            raise AnalysisError("match statement not modelled")
        # simple statement (incl. nested def/class, which only bind a name)
        n = self._new("stmt", s)
        self._join(preds, n)
        return [(n, None)]

    # ------------------------------------------------------------ queries
    def node_for(self, node: ast.AST) -> Optional[CNode]:
        """CFG node whose statement (or head expression) contains `node`."""
        cur = node
        while cur is not None:
            n = self.by_stmt.get(id(cur))
            if n is not None:
                if n.kind in ("test", "iter") and cur is not node:
                    # is `node` inside the head expression or inside the body?  by_stmt maps the compound
                    # statement to its head; a body statement would have matched earlier.
                    pass
                return n
            cur = self.stmt_parent.get(id(cur))
        return None

    def stmt_nodes(self) -> Iterable[CNode]:
        return [n for n in self.nodes if n.stmt is not None]

    def reachable_from(self, start: CNode, avoid: Iterable[CNode] = (), skip_edges: Set[Tuple[int, int, object]] = frozenset()) -> Set[int]:
        avoid_ids = {a.id for a in avoid}
        seen: Set[int] = set()
        stack = [start.id]
        if start.id in avoid_ids:
            return seen
        while stack:
            x = stack.pop()
            if x in seen:
                continue
            seen.add(x)
            for t, lab in self.succ[x]:
                if (x, t, lab) in skip_edges or t in avoid_ids:
                    continue
                stack.append(t)
        return seen

    def reachable(self, a: CNode, b: CNode, avoid: Iterable[CNode] = ()) -> bool:
        """Is there a path a ->+ b (at least one edge) avoiding the given nodes?"""
        avoid_ids = {x.id for x in avoid}
        seen: Set[int] = set()
        stack = [t for t, _ in self.succ[a.id] if t not in avoid_ids]
        while stack:
            x = stack.pop()
            if x in seen:
                continue
            seen.add(x)
            if x == b.id:
                return True
            stack.extend(t for t, _ in self.succ[x] if t not in avoid_ids)
        return False

    def must_pass(self, through: Iterable[CNode], target: CNode) -> bool:
        """Every path entry -> target goes through one of `through` (false if target unreachable: vacuous)."""
        through = list(through)
        if any(t.id == target.id for t in through):
            return True
        r = self.reachable_from(self.entry, avoid=through)
        return target.id not in r

    def is_reachable(self, target: CNode) -> bool:
        return target.id in self.reachable_from(self.entry)

    def dominates(self, a: CNode, b: CNode) -> bool:
        return self.must_pass([a], b) and self.is_reachable(b)

    def guards(self, target: CNode) -> List[Tuple[ast.AST, bool]]:
        """(test expression, polarity) pairs whose branch edge lies on every path entry -> target."""
        out = []
        base = self.reachable_from(self.entry)
        if target.id not in base:
            return out
        for n in self.nodes:
            if n.kind != "test":
                continue
            for t, lab in self.succ[n.id]:
                if lab in (True, False):
                    r = self.reachable_from(self.entry, skip_edges={(n.id, t, lab)})
                    if target.id not in r:
                        out.append((n.expr, lab))
        return out

    def guards_between(self, a: CNode, b: CNode, avoid: Iterable[CNode] = ()) -> List[Tuple[ast.AST, bool]]:
        """(test, polarity) pairs whose branch edge lies on every path a -> b that does not pass through `avoid`
        (the conditions under which a value defined at `a` arrives at `b` without being redefined at `avoid`)."""
        avoid = [x for x in avoid if x.id not in (a.id, b.id)]
        out = []
        if b.id not in self.reachable_from(a, avoid=avoid):
            return out
        for n in self.nodes:
            if n.kind != "test":
                continue
            for t, lab in self.succ[n.id]:
                if lab in (True, False):
                    r = self.reachable_from(a, avoid=avoid, skip_edges={(n.id, t, lab)})
                    if b.id not in r:
                        out.append((n.expr, lab))
        return out

    def fallthrough_exits(self) -> List[CNode]:
        """Nodes that reach the normal exit without a `return` statement (implicit None)."""
        reach = self.reachable_from(self.entry)
        out = []
        for p, lab in self.pred[self.exit.id]:
            if lab != "return" and p in reach:
                out.append(self.nodes[p])
        return out

    def return_nodes(self) -> List[CNode]:
        reach = self.reachable_from(self.entry)
        return [self.nodes[p] for p, lab in self.pred[self.exit.id] if lab == "return" and p in reach]

    def precedes_all(self, first: CNode, later: CNode) -> bool:
        """`first` is executed before `later` on every path reaching `later`."""
        return self.must_pass([first], later)

    def can_follow(self, a: CNode, b: CNode) -> bool:
        """Some path executes b after a."""
        return self.reachable(a, b)


def _const_truth(test: ast.AST):
    if isinstance(test, ast.Constant):
        return bool(test.value)
    return None


def expr_guards(parent_of, node: ast.AST, stop: ast.AST) -> List[Tuple[ast.AST, bool]]:
    """Guards contributed by conditional expressions / short-circuit operators between `node` and the
    statement `stop` that contains it: (test, polarity)."""
    out = []
    cur = node
    while cur is not None and cur is not stop:
        par = parent_of(cur)
        if isinstance(par, ast.IfExp):
            if cur is par.body:
                out.append((par.test, True))
            elif cur is par.orelse:
                out.append((par.test, False))
        elif isinstance(par, ast.BoolOp):
            idx = next((i for i, v in enumerate(par.values) if v is cur), 0)
            for prev in par.values[:idx]:
                out.append((prev, isinstance(par.op, ast.And)))
        cur = par
    return out


def conjuncts(test: ast.AST, polarity: bool = True) -> List[Tuple[ast.AST, bool]]:
    """Split a guard into atomic facts that must hold: `a and b` (True) -> a, b ; `not (a or b)` -> not a, not b."""
    if isinstance(test, ast.UnaryOp) and isinstance(test.op, ast.Not):
        return conjuncts(test.operand, not polarity)
    if isinstance(test, ast.BoolOp):
        if isinstance(test.op, ast.And) and polarity:
            out = []
            for v in test.values:
                out += conjuncts(v, True)
            return out
        if isinstance(test.op, ast.Or) and not polarity:
            out = []
            for v in test.values:
                out += conjuncts(v, False)
            return out
    return [(test, polarity)]
