"""Definite binding of the free variables of a nested function (closure) at the point where it is run.

A nested function that reads a variable of its enclosing function fails with `NameError: cannot access free variable ...` when the
enclosing function took a path on which that variable was never bound.  The classic instance is a resource prepared under
`if option:` in the enclosing function and used unconditionally in the worker.

For every free variable v of the nested function (taken from the interpreter's own symbol table of the source - `symtable`, which
parses and never runs) and every place it is read there:

    W = conjunction of the branch predicates the nested function's CFG proves for the read
    L = conjunction of the branch predicates the enclosing CFG proves for the launch statement (early exits, enclosing branches)
    D = disjunction, over the bindings of v in the enclosing function that can reach the launch statement, of the branch predicates
        the enclosing CFG proves for the binding

and the read is reported when W and L do not entail D (propositional entailment over the shared predicates, sa.guards).  Predicates are
related by their text, so they must talk about names that keep their value from the binding to the read: parameters of the
enclosing function never re-bound, or names bound before every binding of v and not afterwards; a predicate over anything else
makes the site *undecided* (AnalysisError), never a finding.  D is built from necessary conditions of the binding, i.e. it
over-approximates "v is bound" (a binding inside a loop that runs zero times is taken as executed): the rule can miss, it does not
invent.
"""
from __future__ import annotations

import ast
import symtable
from typing import List, Tuple

from .cfg import CFG, expr_guards
from .defuse import DefUse
from .guards import And, Atoms, Or, entails, formula, show
from .model import AnalysisError

BINDING = ("assign", "unpack", "for", "with", "def", "import", "aug")


def free_variables(outer_node: ast.AST, fn_node: ast.AST, filename: str = "<model>") -> List[str]:
    """Free variables of the function `fn_node` nested in `outer_node`, from the interpreter's symbol table of the (normalised)
    enclosing function's text: `symtable` parses and builds scopes, it never runs anything."""
    try:
        top = symtable.symtable(ast.unparse(outer_node), filename, "exec")
    except SyntaxError as e:
        raise AnalysisError(f"{filename}: symbol table of {getattr(outer_node, 'name', '?')} not available: {e}")
    stack = [c for c in top.get_children() if c.get_name() == outer_node.name]
    hits = []
    while stack:
        t = stack.pop()
        if t.get_type() == "function" and t.get_name() == fn_node.name and t is not top:
            hits.append(t)
        stack.extend(t.get_children())
    hits = [t for t in hits if t.get_name() == fn_node.name and t.get_name() != outer_node.name] or hits
    if len(hits) != 1:
        raise AnalysisError(f"{filename}: {len(hits)} symbol tables for nested function {fn_node.name}")
    return sorted(hits[0].get_frees())


def _parents(root):
    par = {}
    for n in ast.walk(root):
        for c in ast.iter_child_nodes(n):
            par[c] = n
    return par


def _stmt_of(par, node, fn_node):
    cur = node
    while cur in par and not isinstance(cur, ast.stmt):
        cur = par[cur]
    return cur


def _names(e):
    return {n.id for n in ast.walk(e) if isinstance(n, ast.Name)}


def _independent(inner_names, dnames, idu, launch, depth=4) -> bool:
    """The worker's own names that guard a read cannot carry the condition under which the enclosing function binds the variable:
    parameters get their values at the launch (whose expression must not mention a name of that condition), locals are computed
    from expressions that do not mention one either (followed through the worker's definitions to a fixed depth)."""
    seen, todo = set(), [(n, 0) for n in inner_names]
    while todo:
        n, k = todo.pop()
        if n in seen:
            continue
        seen.add(n)
        if n in dnames:
            return False
        for d in idu.defs:
            if d.var != n:
                continue
            if d.kind == "param":
                if _names(launch) & dnames:
                    return False
                continue
            src_ = d.value if d.value is not None else d.stmt
            if src_ is None:
                continue
            if k >= depth:
                return False
            for m in _names(src_):
                if m in dnames:
                    return False
                todo.append((m, k + 1))
    return True


def binding_gaps(outer_node: ast.AST, inner_node: ast.AST, launch: ast.AST, filename: str = "<model>"):
    """-> (gaps, analysed): gaps = [(var, read node, W text, D text)], analysed = [(var, n_reads, n_bindings)]."""
    frees = free_variables(outer_node, inner_node, filename)
    ocfg = CFG(outer_node)
    odu = DefUse(outer_node, ocfg)
    icfg = CFG(inner_node)
    idu = DefUse(inner_node, icfg)
    ipar = _parents(inner_node)
    launch_n = ocfg.node_for(launch)
    if launch_n is None:
        raise AnalysisError(f"{filename}: launch statement of {inner_node.name} not in the enclosing function's flow graph")
    inner_bound = {d.var for d in idu.defs}
    atoms = Atoms()
    # what the enclosing function has established when it launches the worker (early exits, enclosing branches) holds for every read
    lgs = ocfg.guards(launch_n)
    L = And(*[formula(t, atoms, pol) for t, pol in lgs]) if lgs else ("const", True)
    gaps, analysed = [], []
    for v in frees:
        defs = [d for d in odu.defs if d.var == v]
        if not defs:
            continue  # a global or builtin seen through the enclosing scope
        if any(d.kind == "param" for d in defs):
            analysed.append((v, 0, "parameter"))
            continue
        binds = [d for d in defs if d.kind in BINDING and (d.node.id == launch_n.id or ocfg.reachable(d.node, launch_n))]
        reads = [n for n in ast.walk(inner_node) if isinstance(n, ast.Name) and n.id == v and isinstance(n.ctx, ast.Load)]
        analysed.append((v, len(reads), len(binds)))
        if not reads:
            continue
        dparts = []
        for d in binds:
            gs = ocfg.guards(d.node)
            dparts.append(And(*[formula(t, atoms, pol) for t, pol in gs]) if gs else ("const", True))
        D = Or(*dparts) if dparts else ("const", False)
        dnames = set()
        for d in binds:
            for t, _ in ocfg.guards(d.node):
                dnames |= _names(t)
        # stability of the predicate names in the enclosing function: not re-bound after a binding of v
        for nm in dnames:
            for d2 in odu.defs:
                if d2.var == nm and d2.kind != "param" and any(ocfg.reachable(b.node, d2.node) for b in binds):
                    raise AnalysisError(f"{filename}:{getattr(d2.stmt, 'lineno', 0)}: `{nm}` (decides whether `{v}` is bound) is re-bound after the binding")
        for r in reads:
            st = _stmt_of(ipar, r, inner_node)
            cn = icfg.node_for(st)
            if cn is None:
                continue  # inside a nested lambda / comprehension body that the CFG keeps as one expression
            gs = list(icfg.guards(cn)) + list(expr_guards(ipar.get, r, st))
            W = And(*[formula(t, atoms, pol) for t, pol in gs]) if gs else ("const", True)
            ok = entails(And(W, L), D)
            if ok is None:
                raise AnalysisError(f"{filename}:{r.lineno}: too many predicates to relate the read of `{v}` to its binding")
            if ok:
                continue
            wn = set()
            for t, _ in gs:
                wn |= _names(t)
            # predicates that also guard the launch are established for every run of the worker: their names cannot distinguish "bound" from "not bound"
            lnames = set()
            for t_, _p in lgs:
                lnames |= _names(t_)
            if wn & inner_bound and not _independent(wn & inner_bound, dnames - lnames, idu, launch):
                raise AnalysisError(f"{filename}:{r.lineno}: the read of `{v}` is guarded by locals of {inner_node.name} ({sorted(wn & inner_bound)}); "
                                    "cannot relate them to the condition under which the enclosing function binds it")
            gaps.append((v, r, show(W), show(D)))
    return gaps, analysed


def optional_resource_gaps(inner_node: ast.AST):
    """Locals of the nested function bound by `x = <resource> if <cond> else None` (or the mirrored form): every place that looks
    *into* x (x[...], x.attr, x(...)) must be reached only under <cond>.  -> (gaps, analysed) like binding_gaps."""
    icfg = CFG(inner_node)
    idu = DefUse(inner_node, icfg)
    ipar = _parents(inner_node)
    atoms = Atoms()
    gaps, analysed = [], []
    for d in idu.defs:
        v = d.value
        if d.kind != "assign" or not isinstance(v, ast.IfExp):
            continue
        none_else = isinstance(v.orelse, ast.Constant) and v.orelse.value is None
        none_body = isinstance(v.body, ast.Constant) and v.body.value is None
        if none_else == none_body:
            continue
        cond = formula(v.test, atoms, none_else)
        if len([x for x in idu.defs if x.var == d.var and x.kind != "mutate"]) != 1:
            continue
        if any(x.var in _names(v.test) and x.kind != "param" for x in idu.defs):
            continue  # the condition talks about a local that may change: not related
        derefs = []
        for n in ast.walk(inner_node):
            if isinstance(n, ast.Name) and n.id == d.var and n is not d.target:
                par = ipar.get(n)
                if (isinstance(par, (ast.Subscript, ast.Attribute)) and par.value is n) or (isinstance(par, ast.Call) and par.func is n):
                    derefs.append(n)
        analysed.append((d.var, len(derefs), show(cond)))
        for r in derefs:
            st = _stmt_of(ipar, r, inner_node)
            cn = icfg.node_for(st)
            if cn is None:
                continue
            gs = list(icfg.guards(cn)) + list(expr_guards(ipar.get, r, st))
            W = And(*[formula(t, atoms, pol) for t, pol in gs]) if gs else ("const", True)
            if entails(W, cond) is False:
                gaps.append((d.var, r, show(W), show(cond)))
    return gaps, analysed
