"""Helpers shared by the rule modules (expression chains, selectors, guards)."""
from __future__ import annotations

import ast
from typing import Callable, Dict, Iterable, List, Optional, Sequence, Set, Tuple

from .cfg import CFG, CNode, conjuncts, expr_guards
from .defuse import DefUse, loc_name
from .model import AnalysisError, AnchorMissing, FunctionInfo, Repo, const_value, src, walk_function
from .struct import call_name, find, norm


def is_full_slice(e: ast.AST) -> bool:
    if isinstance(e, ast.Slice) and e.lower is None and e.upper is None and e.step is None:
        return True
    if isinstance(e, ast.Constant) and e.value is Ellipsis:
        return True
    if isinstance(e, ast.Call) and call_name(e) == "slice" and len(e.args) == 1 and isinstance(e.args[0], ast.Constant) \
            and e.args[0].value is None:
        return True
    return False


def index_elts(sub: ast.Subscript) -> List[ast.AST]:
    s = sub.slice
    if isinstance(s, ast.Tuple):
        return list(s.elts)
    return [s]


def chain_root(e: ast.AST) -> Tuple[Optional[str], List[ast.AST]]:
    """Follow value/receiver links (subscripts, attributes, method calls, .T) down to a named location.
    Returns (location name or None, list of nodes on the way, outermost first)."""
    path = []
    cur = e
    while True:
        path.append(cur)
        ln = loc_name(cur) if isinstance(cur, (ast.Name, ast.Attribute)) else None
        if ln is not None and not _is_method_tail(cur, path):
            return ln, path
        if isinstance(cur, ast.Subscript):
            cur = cur.value
        elif isinstance(cur, ast.Attribute):
            cur = cur.value
        elif isinstance(cur, ast.Call) and isinstance(cur.func, ast.Attribute):
            cur = cur.func.value
        elif isinstance(cur, ast.Call) and len(cur.args) >= 1 and isinstance(cur.func, (ast.Name, ast.Attribute)):
            # np.float32(x), np.copy(x) ... : transparent single-argument wrappers
            cur = cur.args[0]
        else:
            return None, path


def _is_method_tail(node: ast.AST, path: List[ast.AST]) -> bool:
    """x.astype in x.astype(...) is not a location; x.T is a view of x."""
    if isinstance(node, ast.Attribute):
        if len(path) >= 2 and isinstance(path[-2], ast.Call) and path[-2].func is node:
            return True
        if node.attr in ("T", "real", "flat", "values"):
            return True
    return False


def root_location(e: ast.AST) -> Optional[str]:
    return chain_root(e)[0]


def subscripts_rooted_at(fn_node: ast.AST, roots: Sequence[str]) -> List[ast.Subscript]:
    out = []
    for n in walk_function(fn_node):
        if isinstance(n, ast.Subscript):
            r, _ = chain_root(n)
            if r in roots:
                out.append(n)
    return out


def outermost(nodes: List[ast.AST], parent_of: Callable) -> List[ast.AST]:
    ids = {id(n) for n in nodes}
    out = []
    for n in nodes:
        p = parent_of(n)
        inside = False
        while p is not None and not isinstance(p, ast.stmt):
            if id(p) in ids:
                inside = True
                break
            p = parent_of(p)
        if not inside:
            out.append(n)
    return out


def guards_of(repo: Repo, fi: FunctionInfo, cfg: CFG, node: ast.AST) -> List[Tuple[ast.AST, bool]]:
    """All atomic guard facts (test expr, polarity) that hold whenever `node` is evaluated."""
    cn = cfg.node_for(node)
    if cn is None:
        raise AnalysisError(f"{fi.qualname}: node at line {getattr(node, 'lineno', '?')} not in CFG")
    gs = list(cfg.guards(cn))
    stmt = cn.stmt
    gs += expr_guards(fi.module.parent, node, stmt)
    out = []
    for t, pol in gs:
        out += conjuncts(t, pol)
    return out


def guard_texts(gs: List[Tuple[ast.AST, bool]]) -> List[str]:
    return [("" if pol else "not ") + norm(t) for t, pol in gs]


def has_guard(gs: List[Tuple[ast.AST, bool]], pred: Callable[[ast.AST, bool], bool]) -> bool:
    return any(pred(t, pol) for t, pol in gs)


def calls_named(fn_node: ast.AST, name: str, nested: bool = False) -> List[ast.Call]:
    return [n for n in walk_function(fn_node, include_nested=nested) if isinstance(n, ast.Call) and call_name(n) == name]


def resolved_calls(repo: Repo, fi: FunctionInfo, target: str, nested: bool = False) -> List[ast.Call]:
    return [c for c, q in repo.calls_in(fi, include_nested=nested) if q == target]


def assigned_value(du: DefUse, var: str, at: ast.AST) -> Optional[ast.AST]:
    d = du.single_def_value(var, at)
    return d.value if d is not None and d.kind == "assign" else None


def expand_name(du: DefUse, e: ast.AST, at: ast.AST = None, depth: int = 4) -> ast.AST:
    """Replace a Name by its unique reaching definition's value (repeatedly), so that hoisting an
    expression into a local does not change what a rule sees."""
    cur = e
    for _ in range(depth):
        if isinstance(cur, ast.Name):
            d = du.single_def_value(cur.id, at if at is not None else cur)
            if d is not None and d.kind == "assign" and d.value is not None and d.unpack_index is None:
                at = d.stmt
                cur = d.value
                continue
        break
    return cur


def expand_deep(du: DefUse, e: ast.AST, at: ast.AST = None, keep=()) -> ast.AST:
    """`e` with every local that has a single plain definition substituted away, recursively (naming an intermediate step changes nothing).
    A name defined in terms of itself (x = f(x)) and the names in `keep` stand for themselves."""
    import copy
    if e is None:
        return None

    class X(ast.NodeTransformer):
        depth = 0

        def visit_Name(self, node):
            if not isinstance(node.ctx, ast.Load) or node.id in keep:
                return node
            v = expand_name(du, node, at if at is not None else node)
            if v is node or isinstance(v, ast.Lambda) or self.depth > 12 or any(isinstance(n_, ast.Name) and n_.id == node.id for n_ in ast.walk(v)):
                return node
            self.depth += 1
            try:
                return self.visit(copy.deepcopy(v))
            finally:
                self.depth -= 1
    return X().visit(copy.deepcopy(e))


def split_ifexp(e: ast.AST, guards=()) -> List[Tuple[list, ast.AST]]:
    """[(guards, expr)] with every conditional expression in `e` (outside comprehensions / lambdas) resolved one way."""
    import copy as _copy
    stack = [e]
    ie = None
    while stack:
        n = stack.pop()
        if isinstance(n, ast.IfExp):
            ie = n
            break
        for c in ast.iter_child_nodes(n):
            if not isinstance(c, (ast.Lambda, ast.ListComp, ast.SetComp, ast.DictComp, ast.GeneratorExp)):
                stack.append(c)
    if ie is None:
        return [(list(guards), e)]

    def repl(root, new):
        if root is ie:
            return _copy.deepcopy(new)
        out = _copy.copy(root)
        for fld, val in ast.iter_fields(root):
            if isinstance(val, ast.AST):
                setattr(out, fld, repl(val, new))
            elif isinstance(val, list):
                setattr(out, fld, [repl(x, new) if isinstance(x, ast.AST) else x for x in val])
        return out
    return split_ifexp(repl(e, ie.body), list(guards) + [(ie.test, True)]) + split_ifexp(repl(e, ie.orelse), list(guards) + [(ie.test, False)])


def value_alternatives(du: DefUse, e: ast.AST, at: ast.AST, depth: int = 4, max_alts: int = 24, keep=()) -> List[Tuple[list, ast.AST]]:
    """The values expression `e` can take at statement `at`, as [(guards, expr)]: every local name whose reaching
    definitions are plain assignments is replaced by the assigned value (recursively, evaluated where it was assigned); one
    alternative per combination of reaching definitions, each carrying the guards of the definitions chosen, the guards of
    `at` itself and the branch of every conditional expression.  Names in `keep`, parameters, loop targets, unpacked or
    mutated definitions stay names.  Raises AnalysisError beyond `max_alts` alternatives."""
    import copy as _copy
    import itertools as _it
    cfg = du.cfg

    def expand(expr, at_stmt, d) -> List[Tuple[list, ast.AST]]:
        names = []
        for n in ast.walk(expr):
            if isinstance(n, ast.Name) and isinstance(n.ctx, ast.Load) and n.id not in names and n.id not in keep:
                names.append(n.id)
        choices = {}
        for nm in names:
            defs = [x for x in du.reaching(nm, at_stmt) if x.kind != "mutate"]
            if not defs or d <= 0:
                continue
            opts = []
            here_n = cfg.node_for(at_stmt)
            for x in defs:
                # conditions under which this definition is made and arrives here without being overwritten
                gx = []
                if len(defs) > 1:
                    gx = list(cfg.guards(x.node))
                    if here_n is not None and x.kind != "param":
                        gx += cfg.guards_between(x.node, here_n, avoid=[y.node for y in defs if y is not x])
                    elif here_n is not None:
                        gx += cfg.guards_between(cfg.entry, here_n, avoid=[y.node for y in defs if y is not x])
                if x.kind == "assign" and x.value is not None and x.unpack_index is None and x.stmt is not at_stmt \
                        and not any(m.kind == "mutate" for m in du.reaching(nm, at_stmt)):
                    for g2, v2 in expand(x.value, x.stmt, d - 1):
                        opts.append((gx + g2, v2))
                else:
                    opts.append((gx, None))  # stays a name
            if all(v is None for _, v in opts) and len(opts) == 1:
                continue
            choices[nm] = opts
        if not choices:
            return [([], expr)]
        keys = list(choices)
        total = 1
        for k in keys:
            total *= len(choices[k])
        if total > max_alts:
            raise AnalysisError(f"more than {max_alts} value alternatives for `{src(expr)[:60]}`")
        out = []
        for combo in _it.product(*[choices[k] for k in keys]):
            g = []
            mapping = {}
            for k, (gk, vk) in zip(keys, combo):
                g += gk
                if vk is not None:
                    mapping[k] = vk

            class S(ast.NodeTransformer):
                def visit_Name(self, node):
                    if isinstance(node.ctx, ast.Load) and node.id in mapping:
                        return _copy.deepcopy(mapping[node.id])
                    return node
            out.append((g, S().visit(_copy.deepcopy(expr))))
        return out

    alts = []
    here = list(cfg.guards(cfg.node_for(at))) if cfg.node_for(at) is not None else []
    for g, v in expand(e, at, depth):
        for g2, v2 in split_ifexp(v, g):
            alts.append((here + g2, v2))
    if len(alts) > max_alts:
        raise AnalysisError(f"more than {max_alts} value alternatives for `{src(e)[:60]}`")
    return alts


def expand_property(repo: Repo, fi: FunctionInfo, e: ast.AST) -> ast.AST:
    """`self.X` where X is a @property of the same class whose body is a single `return <expr>`: that expression."""
    if isinstance(e, ast.Attribute) and isinstance(e.value, ast.Name) and e.value.id == "self" and fi.cls:
        clsq = repo.class_of(fi)
        q = repo.method(clsq, e.attr) if clsq else None
        pf = repo.functions.get(q) if q else None
        if pf is not None and any(isinstance(d, ast.Name) and d.id == "property" for d in pf.node.decorator_list):
            body = [b for b in pf.node.body if not (isinstance(b, ast.Expr) and isinstance(b.value, ast.Constant))]
            if len(body) == 1 and isinstance(body[0], ast.Return) and body[0].value is not None:
                return body[0].value
    return e


def falsy_constant(e: ast.AST) -> bool:
    """A literal that is falsy but not None: 0, 0.0, '', False, (), []."""
    if isinstance(e, ast.Constant):
        return e.value is not None and not e.value and not isinstance(e.value, type(Ellipsis))
    if isinstance(e, (ast.Tuple, ast.List)) and not e.elts:
        return True
    return False


def keyword_values(repo: Repo, fi: FunctionInfo, call: ast.Call, du: DefUse = None) -> Dict[str, ast.AST]:
    """Keyword name -> value expression of a call, literal `**dict` arguments expanded through the dict's definitions in the
    enclosing function (dict literal or dict(k=v) call; later `d[k] = v` stores override)."""
    out = {k.arg: k.value for k in call.keywords if k.arg is not None}
    stars = [k.value for k in call.keywords if k.arg is None]
    owner = fi
    for sv in stars:
        nm = loc_name(sv)
        if nm is None:
            continue
        # the dict may be defined in the function that encloses a lambda / nested def
        cand = owner
        while cand is not None:
            for n in walk_function(cand.node):
                if isinstance(n, ast.Assign) and any(loc_name(t) == nm for t in n.targets):
                    v = n.value
                    if isinstance(v, ast.Dict):
                        for k, vv in zip(v.keys, v.values):
                            if isinstance(k, ast.Constant) and isinstance(k.value, str):
                                out.setdefault(k.value, vv)
                    elif isinstance(v, ast.Call) and call_name(v) == "dict":
                        for k in v.keywords:
                            if k.arg:
                                out.setdefault(k.arg, k.value)
                elif isinstance(n, ast.Assign) and isinstance(n.targets[0], ast.Subscript) and loc_name(n.targets[0].value) == nm:
                    ok, key = const_value(n.targets[0].slice)
                    if ok and isinstance(key, str):
                        out[key] = n.value
            cand = cand.parent
    return out


def swallowed_falsy_arguments(repo: Repo, callee: FunctionInfo) -> List[Tuple[str, ast.AST, FunctionInfo, ast.Call, ast.AST]]:
    """(parameter, `p or default` expression, caller, call, falsy literal): the callee replaces a falsy value of `p` by a default
    (`p = p or d`) and some call site in the library binds `p` to a literal 0 / 0.0 / '' / False / () explicitly - that
    explicit setting is silently replaced.  (`None` is the legitimate 'use the default' marker and is not reported.)"""
    du = DefUse(callee.node)
    params = set(callee.params)
    sites = []
    for n in walk_function(callee.node):
        if isinstance(n, ast.BoolOp) and isinstance(n.op, ast.Or) and isinstance(n.values[0], ast.Name) and n.values[0].id in params:
            p = n.values[0].id
            ds = du.reaching(p, n)
            if ds and all(d.kind == "param" for d in ds):
                sites.append((p, n))
    out = []
    if not sites:
        return out
    for q, fi in repo.functions.items():
        for c, target in repo.calls_in(fi, include_nested=False):
            if target != callee.qualname:
                continue
            from .calls import bind
            b = bind(c, callee)
            kv = keyword_values(repo, fi, c)
            for p, expr in sites:
                v = b.bound.get(p) or kv.get(p)
                if v is not None and falsy_constant(v):
                    out.append((p, expr, fi, c, v))
    # lambdas: `lambda dat: kfilt(dat, **k_kwargs)` is not a FunctionInfo of its own in every tree; scan them explicitly
    for q, fi in repo.functions.items():
        for lam in find(fi.node, ast.Lambda):
            for c in find(lam.body, ast.Call):
                if repo.resolve_call(fi, c) != callee.qualname:
                    continue
                kv = keyword_values(repo, fi, c)
                for p, expr in sites:
                    v = kv.get(p)
                    if v is not None and falsy_constant(v) and not any(o[3] is c and o[0] == p for o in out):
                        out.append((p, expr, fi, c, v))
    return out


def returns_of(fn_node: ast.AST) -> List[ast.Return]:
    return [n for n in walk_function(fn_node) if isinstance(n, ast.Return)]


def stores_to(fn_node: ast.AST, location: str) -> List[Tuple[ast.stmt, ast.AST, Optional[ast.AST]]]:
    """(statement, target node, value) for every assignment whose target is `location` or a subscript of it."""
    out = []
    for n in walk_function(fn_node):
        if isinstance(n, ast.Assign):
            for t in n.targets:
                for el in (t.elts if isinstance(t, (ast.Tuple, ast.List)) else [t]):
                    base = el
                    while isinstance(base, ast.Subscript):
                        base = base.value
                    if loc_name(base) == location:
                        out.append((n, el, n.value))
        elif isinstance(n, ast.AugAssign):
            base = n.target
            while isinstance(base, ast.Subscript):
                base = base.value
            if loc_name(base) == location:
                out.append((n, n.target, n.value))
    return out


# ------------------------------------------------------------------------------------------------ shared (memoised) state
VIEW_METHODS = ("reshape", "ravel", "view", "squeeze", "transpose", "swapaxes")
FRESH_CALLS = ("array", "copy", "asarray_chkfinite", "astype", "zeros", "zeros_like", "ones", "ones_like", "empty", "empty_like", "full", "arange",
               "linspace", "rfft", "fft", "irfft", "ifft", "exp", "real", "abs", "angle", "concatenate", "hstack", "vstack", "r_", "c_", "deepcopy")


def view_source(e: ast.AST) -> ast.AST:
    """Strip view-preserving wrappers: x.reshape(..), x.T, x[...], x.ravel() -> x"""
    while True:
        if isinstance(e, ast.Call) and isinstance(e.func, ast.Attribute) and e.func.attr in VIEW_METHODS:
            e = e.func.value
        elif isinstance(e, ast.Call) and isinstance(e.func, ast.Attribute) and e.func.attr in ALIAS_PRESERVING and e.args \
                and isinstance(e.func.value, ast.Name) and e.func.value.id in ("np", "numpy", "gp", "cp", "cupy"):
            e = e.args[0]  # np.asarray(x) / np.atleast_1d(x) / np.reshape(x, ..) return x itself or a view of it
        elif isinstance(e, ast.Attribute) and e.attr in ("T", "real", "imag"):
            e = e.value
        elif isinstance(e, ast.Subscript):
            e = e.value
        else:
            return e


def is_memoised(fi: FunctionInfo) -> bool:
    for d in getattr(fi.node, "decorator_list", []):
        t = src(d)
        if "lru_cache" in t or t.split("(")[0].split(".")[-1] in ("cache", "cached", "memoize", "memoized", "cached_property"):
            return True
    return hand_memoised(fi)


def module_containers(module) -> set:
    """Names bound at module level to a mutable container ({} / dict() / [] / OrderedDict() ...): candidates for hand-rolled caches."""
    out = set()
    for st in module.tree.body:
        tg, v = None, None
        if isinstance(st, ast.Assign) and len(st.targets) == 1 and isinstance(st.targets[0], ast.Name):
            tg, v = st.targets[0].id, st.value
        elif isinstance(st, ast.AnnAssign) and isinstance(st.target, ast.Name) and st.value is not None:
            tg, v = st.target.id, st.value
        if tg is None:
            continue
        if isinstance(v, (ast.Dict, ast.List, ast.Set)) and not getattr(v, "keys", None) and not getattr(v, "elts", None):
            out.add(tg)
        elif isinstance(v, ast.Call) and call_name(v) in ("dict", "list", "OrderedDict", "defaultdict", "WeakValueDictionary", "LRU"):
            out.add(tg)
    return out


def hand_memoised(fi: FunctionInfo, want_returns: bool = False):
    """A function that keeps what it returns in a module-level (or class-level / instance) container: `G[key] = v ... return v`,
    `return G[key]`, `v = G.get(key) ... return v`.  Its result is the same object for every call with the same key."""
    if isinstance(fi.node, ast.Lambda):
        return [] if want_returns else False
    G = module_containers(fi.module)
    if not G:
        return [] if want_returns else False

    def is_entry(e):
        if isinstance(e, ast.Subscript) and isinstance(e.value, ast.Name) and e.value.id in G:
            return True
        return isinstance(e, ast.Call) and isinstance(e.func, ast.Attribute) and isinstance(e.func.value, ast.Name) and e.func.value.id in G \
            and e.func.attr in ("get", "setdefault", "pop")
    stored = set()      # local names stored into a container
    loaded = set()      # local names read from a container
    for n in walk_function(fi.node):
        if isinstance(n, ast.Assign):
            for t in n.targets:
                if isinstance(t, ast.Subscript) and isinstance(t.value, ast.Name) and t.value.id in G:
                    if isinstance(n.value, ast.Name):
                        stored.add(n.value.id)
                    elif isinstance(n.value, (ast.Tuple, ast.List)):       # G[key] = (stamp, size, value)
                        stored |= {x.id for x in n.value.elts if isinstance(x, ast.Name)}
                if isinstance(t, ast.Name) and is_entry(n.value):
                    loaded.add(t.id)
                if isinstance(t, (ast.Tuple, ast.List)) and is_entry(n.value):           # stamp, size, value = G.get(key, ...)
                    loaded |= {x.id for x in t.elts if isinstance(x, ast.Name)}
        elif isinstance(n, ast.Expr) and isinstance(n.value, ast.Call) and isinstance(n.value.func, ast.Attribute) and isinstance(n.value.func.value, ast.Name) \
                and n.value.func.value.id in G and n.value.func.attr in ("setdefault", "append", "__setitem__") and n.value.args and isinstance(n.value.args[-1], ast.Name):
            stored.add(n.value.args[-1].id)
    found = []
    for r in returns_of(fi.node):
        if r.value is None:
            continue
        if is_entry(r.value):
            found.append((r, True))
            continue
        if isinstance(r.value, ast.Name) and (r.value.id in stored or r.value.id in loaded):
            found.append((r, True))
            continue
        # a shallow copy of the cached mapping: the values (lists, arrays) are still the cached objects
        v = r.value
        if isinstance(v, ast.Call) and ((call_name(v) in ("dict", "Bunch", "OrderedDict") and v.args and isinstance(v.args[0], ast.Name) and v.args[0].id in (stored | loaded))
                                        or (call_name(v) == "copy" and isinstance(v.func, ast.Attribute) and isinstance(v.func.value, ast.Name) and v.func.value.id in (stored | loaded))):
            found.append((r, "copy"))
    if want_returns:
        return found
    if not found:
        return False
    return True if any(k is True for _, k in found) else "copy"


def shared_returning(repo: Repo) -> Dict[str, str]:
    """Functions whose result is (or contains views of) an object shared between calls: memoised functions, and - to a
    fixpoint - functions that return such a result, a view of it, a shallow dict copy of it, or a dict of views of it.
    Value: 'array' or 'dict' (a dict whose values are shared arrays)."""
    shared: Dict[str, str] = {}
    for q, fi in repo.functions.items():
        m = is_memoised(fi)
        if m:
            kinds = {"dict" if isinstance(r.value, (ast.Dict, ast.DictComp)) else "array" for r in returns_of(fi.node) if r.value is not None}
            shared[q] = "dict" if (kinds == {"dict"} or m == "copy") else "array"
    changed = True
    while changed:
        changed = False
        for q, fi in repo.functions.items():
            if q in shared or isinstance(fi.node, ast.Lambda):
                continue
            du = None
            for r in returns_of(fi.node):
                if r.value is None:
                    continue
                du = du or DefUse(fi.node)
                k = shared_kind(repo, fi, du, r.value, r, shared)
                if k:
                    shared[q] = k
                    changed = True
                    break
    return shared


def shared_kind(repo: Repo, fi: FunctionInfo, du: DefUse, e: ast.AST, at: ast.AST, shared: Dict[str, str], depth: int = 0) -> Optional[str]:
    """'array' / 'dict' if expression e may denote (a view of / a dict of views of) a shared object, else None."""
    if depth > 6 or e is None:
        return None
    if isinstance(e, (ast.Dict, ast.DictComp)):
        vals = e.values if isinstance(e, ast.Dict) else [e.value]
        for v in vals:
            if v is not None and shared_kind(repo, fi, du, v, at, shared, depth + 1) == "array":
                return "dict"
        return None
    # element of a shared dict: d["k"]
    if isinstance(e, ast.Subscript) and isinstance(e.slice, ast.Constant) and isinstance(e.slice.value, str):
        if shared_kind(repo, fi, du, e.value, at, shared, depth + 1) == "dict":
            return "array"
    base = view_source(e)
    if isinstance(base, ast.IfExp):
        ks = {shared_kind(repo, fi, du, base.body, at, shared, depth + 1), shared_kind(repo, fi, du, base.orelse, at, shared, depth + 1)} - {None}
        return ("dict" if ks == {"dict"} else "array") if ks else None
    if isinstance(base, ast.BoolOp):
        ks = {shared_kind(repo, fi, du, v, at, shared, depth + 1) for v in base.values} - {None}
        return ("dict" if ks == {"dict"} else "array") if ks else None
    if isinstance(base, ast.Call):
        q = repo.resolve_call(fi, base)
        if q in shared:
            return call_result_shared(repo, fi, base, q, shared)
        nm = call_name(base)
        # shallow copies of a dict keep its (shared) values
        if nm in ("copy",) and isinstance(base.func, ast.Attribute):
            if shared_kind(repo, fi, du, base.func.value, at, shared, depth + 1) == "dict":
                return "dict"
            return None
        if nm == "dict" and base.args:
            if shared_kind(repo, fi, du, base.args[0], at, shared, depth + 1) == "dict":
                return "dict"
        return None
    if isinstance(base, ast.Name):
        kinds = set()
        for d in du.reaching(base.id, at):
            if d.kind in ("assign",) and d.value is not None and d.unpack_index is None:
                kinds.add(shared_kind(repo, fi, du, d.value, d.stmt, shared, depth + 1))
        kinds.discard(None)
        if kinds:
            return "dict" if kinds == {"dict"} else "array"
    if isinstance(base, ast.Attribute) and isinstance(base.value, ast.Name) and base.value.id == "self" and fi.cls:
        # an attribute that some method of the class binds to a shared object (self.x = memoised(...)) is shared wherever it is read
        return _shared_attrs(repo, fi, shared).get(base.attr)
    return None


def _shared_attrs(repo: Repo, fi: FunctionInfo, shared: Dict[str, str]) -> Dict[str, str]:
    clsq = fi.qualname.rsplit(".", 1)[0]
    cache = repo.__dict__.setdefault("_shared_attr_cache", {})
    key = (clsq, tuple(sorted(shared.items())))
    if key in cache:
        return cache[key]
    cache[key] = {}          # recursion guard
    out: Dict[str, str] = {}
    for q, m in repo.functions.items():
        if not q.startswith(clsq + ".") or isinstance(m.node, ast.Lambda):
            continue
        dum = None
        for st in walk_function(m.node):
            if isinstance(st, ast.Assign):
                for t in st.targets:
                    if isinstance(t, ast.Attribute) and isinstance(t.value, ast.Name) and t.value.id == "self":
                        dum = dum or DefUse(m.node)
                        k = shared_kind(repo, m, dum, st.value, st, shared, 1)
                        if k:
                            out[t.attr] = k
    cache[key] = out
    return out


def inplace_mutations(fn_node: ast.AST) -> List[Tuple[ast.stmt, ast.AST]]:
    """(statement, mutated target expression) for in-place operations: x op= y, x[...] op= y, np.put(x, ..), x.sort() ..."""
    out = []
    for n in walk_function(fn_node):
        if isinstance(n, ast.AugAssign):
            out.append((n, n.target))
        elif isinstance(n, ast.Assign):
            for t in n.targets:
                if isinstance(t, ast.Subscript) and not (isinstance(t.slice, ast.Constant) and isinstance(t.slice.value, str)):
                    out.append((n, t))  # element/slice store into an array (re-binding a dict key is not a mutation of the array)
        elif isinstance(n, ast.Expr) and isinstance(n.value, ast.Call):
            c = n.value
            nm = call_name(c)
            if nm in ("put", "copyto", "place", "putmask", "fill_diagonal") and c.args:
                out.append((n, c.args[0]))
            elif nm in ("sort", "fill", "resize", "partition", "itemset") and isinstance(c.func, ast.Attribute):
                out.append((n, c.func.value))
    return out


DICT_CTORS = ("dict", "Bunch", "OrderedDict", "defaultdict")


def _dictlike_returns(repo: Repo, fi: FunctionInfo, depth: int = 0) -> bool:
    """does every value the function returns look like a mapping (dict display, dict(...) / Bunch(...), or the result of such a function)?"""
    if depth > 4 or isinstance(fi.node, ast.Lambda):
        return False
    rets = [r for r in returns_of(fi.node) if r.value is not None]
    if not rets:
        return False
    du = None
    for r in rets:
        v = r.value
        if isinstance(v, ast.Name):
            du = du or DefUse(fi.node)
            v = expand_name(du, v, r)
        if isinstance(v, (ast.Dict, ast.DictComp)):
            continue
        if isinstance(v, ast.Call):
            if call_name(v) in DICT_CTORS:
                continue
            q = repo.resolve_call(fi, v)
            if q and repo.has_fn(q) and _dictlike_returns(repo, repo.fn(q), depth + 1):
                continue
        return False
    return True


def live_returns(repo: Repo, caller: FunctionInfo, call: ast.Call, callee: FunctionInfo):
    """The return statements of `callee` that this call can reach, given the constants it passes (or leaves to their defaults) for parameters that are
    tested as plain flags (`if cache:` / `if not cache:`).  A cached branch selected by a flag that the call leaves off does not make this call's result shared."""
    from .calls import bind
    from .cfg import CFG, conjuncts
    rets = [r for r in returns_of(callee.node) if r.value is not None]
    try:
        b = bind(call, callee)
    except Exception:
        return rets
    consts = {}
    dflt = callee.defaults()
    for p_ in callee.params:
        a = b.bound.get(p_, dflt.get(p_))
        if a is not None:
            ok, v = const_value(a)
            if ok:
                consts[p_] = v
    if b.star_args or b.star_kwargs or not consts:
        return rets
    # a flag parameter that the callee re-binds is not a constant any more
    stored = {n.id for n in ast.walk(callee.node) if isinstance(n, ast.Name) and isinstance(n.ctx, ast.Store)}
    consts = {k: v for k, v in consts.items() if k not in stored}
    if not consts:
        return rets
    cfg = CFG(callee.node)
    out = []
    for r in rets:
        dead = False
        for t, pol in cfg.guards(cfg.node_for(r)):
            for tt, pp in conjuncts(t, pol):
                if isinstance(tt, ast.Name) and tt.id in consts and bool(consts[tt.id]) != pp:
                    dead = True
                if isinstance(tt, ast.Compare) and len(tt.ops) == 1 and isinstance(tt.left, ast.Name) and tt.left.id in consts and isinstance(tt.ops[0], (ast.Is, ast.IsNot, ast.Eq, ast.NotEq)):
                    okc, cv = const_value(tt.comparators[0])
                    if okc:
                        val = (consts[tt.left.id] is cv) if isinstance(tt.ops[0], (ast.Is, ast.IsNot)) else (consts[tt.left.id] == cv)
                        if isinstance(tt.ops[0], (ast.IsNot, ast.NotEq)):
                            val = not val
                        if val != pp:
                            dead = True
        # an earlier `if flag: return ...` that always returns makes everything after it dead for flag == True (handled by the guards of the CFG: the
        # fall-through carries `not flag`)
        if not dead:
            out.append(r)
    return out


def call_result_shared(repo: Repo, caller: FunctionInfo, call: ast.Call, q: str, shared: Dict[str, str]) -> Optional[str]:
    """kind of sharing of THIS call's result: the callee's kind, unless the returns that make it shared cannot be reached with the flags this call passes"""
    kind = shared.get(q)
    if kind is None or not repo.has_fn(q):
        return kind
    callee = repo.fn(q)
    if is_memoised(callee) is True and not hand_memoised(callee):
        return kind        # a decorator cache: every return is cached
    live = live_returns(repo, caller, call, callee)
    allr = [r for r in returns_of(callee.node) if r.value is not None]
    if len(live) == len(allr):
        return kind
    du = DefUse(callee.node)
    ks = {shared_kind(repo, callee, du, r.value, r, shared) for r in live} - {None}
    cached = hand_memoised(callee, want_returns=True)
    for r, k in cached:
        if any(r is x for x in live):
            ks.add("dict" if k == "copy" else kind)
    if not ks:
        return None
    return "dict" if ks == {"dict"} else "array"


def shared_dict_functions(repo: Repo) -> set:
    """Functions that hand out THE SAME mapping object on every call with the same arguments (memoised and mapping-valued), and - to a fixpoint -
    functions that return the result of such a function unchanged."""
    cache = repo.__dict__.setdefault("_shared_dict_fns", None)
    if cache is not None:
        return cache
    out = set()
    for q, fi in repo.functions.items():
        if is_memoised(fi) is True and _dictlike_returns(repo, fi):
            out.add(q)
    changed = True
    while changed:
        changed = False
        for q, fi in repo.functions.items():
            if q in out or isinstance(fi.node, ast.Lambda):
                continue
            du = None
            for r in returns_of(fi.node):
                v = r.value
                if isinstance(v, ast.Name):
                    du = du or DefUse(fi.node)
                    v = expand_name(du, v, r)
                if isinstance(v, ast.Call) and repo.resolve_call(fi, v) in out:
                    out.add(q)
                    changed = True
                    break
    repo.__dict__["_shared_dict_fns"] = out
    return out


def is_shared_dict_object(repo: Repo, fi: FunctionInfo, du: DefUse, e: ast.AST, at: ast.AST, depth: int = 0) -> bool:
    """may `e` denote a mapping object that other callers hold too (the result of a memoised mapping-valued function, directly or through a
    local / an attribute that some method of the class binds to one)?"""
    sd = shared_dict_functions(repo)
    if not sd or depth > 5 or e is None:
        return False
    if isinstance(e, ast.Call):
        q = repo.resolve_call(fi, e)
        if q not in sd:
            return False
        callee = repo.fn(q)
        if is_memoised(callee) is True and not hand_memoised(callee) and any("lru_cache" in src(d_) or "cache" in src(d_) for d_ in getattr(callee.node, "decorator_list", [])):
            return True
        live = live_returns(repo, fi, e, callee)
        duc = DefUse(callee.node)
        for r in live:
            v = r.value
            v = expand_name(duc, v, r) if isinstance(v, ast.Name) else v
            if isinstance(v, ast.Call) and repo.resolve_call(callee, v) in sd:
                return True
        return False
    if isinstance(e, ast.IfExp):
        return is_shared_dict_object(repo, fi, du, e.body, at, depth + 1) or is_shared_dict_object(repo, fi, du, e.orelse, at, depth + 1)
    if isinstance(e, ast.Name):
        return any(d.kind == "assign" and d.value is not None and d.unpack_index is None and is_shared_dict_object(repo, fi, du, d.value, d.stmt, depth + 1)
                   for d in du.reaching(e.id, at))
    if isinstance(e, ast.Attribute) and isinstance(e.value, ast.Name) and e.value.id == "self" and fi.cls:
        clsq = fi.qualname.rsplit(".", 1)[0]
        for q, m in repo.functions.items():
            if not q.startswith(clsq + ".") or isinstance(m.node, ast.Lambda):
                continue
            dum = None
            for st in walk_function(m.node):
                if isinstance(st, ast.Assign) and any(isinstance(t, ast.Attribute) and isinstance(t.value, ast.Name) and t.value.id == "self" and t.attr == e.attr for t in st.targets):
                    dum = dum or DefUse(m.node)
                    if is_shared_dict_object(repo, m, dum, st.value, st, depth + 1):
                        return True
    return False


def shared_dict_mutations(repo: Repo, fi: FunctionInfo):
    """Key stores / deletions / update / pop on a mapping object that is shared between calls.  -> [(stmt, target, description)]"""
    if not shared_dict_functions(repo):
        return []
    du = DefUse(fi.node)
    out = []
    for n in walk_function(fi.node):
        tgt = None
        if isinstance(n, (ast.Assign, ast.AugAssign)):
            for t in (n.targets if isinstance(n, ast.Assign) else [n.target]):
                if isinstance(t, ast.Subscript) and isinstance(t.slice, ast.Constant) and isinstance(t.slice.value, str):
                    tgt = t
        elif isinstance(n, ast.Delete):
            for t in n.targets:
                if isinstance(t, ast.Subscript):
                    tgt = t
        elif isinstance(n, ast.Expr) and isinstance(n.value, ast.Call) and isinstance(n.value.func, ast.Attribute) and n.value.func.attr in ("update", "pop", "setdefault", "clear", "popitem"):
            tgt = ast.Subscript(value=n.value.func.value, slice=ast.Constant(value="*"), ctx=ast.Store())
        if tgt is not None and is_shared_dict_object(repo, fi, du, tgt.value, n):
            out.append((n, tgt, f"`{src(tgt.value)}` is a mapping that a memoised function hands out to every caller: `{src(n)[:60]}` changes it for all of them"))
    return out


def _param_deps(fi: FunctionInfo, du: DefUse, e: ast.AST, at: ast.AST, params, seen=None, depth: int = 0) -> set:
    """parameters of `fi` that the value of expression `e` (evaluated at `at`) depends on, through local definitions"""
    seen = seen if seen is not None else set()
    out = set()
    if depth > 8 or e is None:
        return out
    for n in ast.walk(e):
        if isinstance(n, ast.Name) and isinstance(n.ctx, ast.Load):
            for d in du.reaching(n.id, at):
                if d.kind == "param":
                    if d.var in params:
                        out.add(d.var)
                elif d.idx not in seen and d.stmt is not None:
                    seen.add(d.idx)
                    srcs = []
                    if isinstance(d.stmt, (ast.Assign, ast.AugAssign, ast.AnnAssign)) and d.stmt.value is not None:
                        srcs.append(d.stmt.value)
                    elif isinstance(d.stmt, (ast.For,)):
                        srcs.append(d.stmt.iter)
                    elif isinstance(d.stmt, ast.With):
                        srcs += [it.context_expr for it in d.stmt.items]
                    for v in srcs:
                        out |= _param_deps(fi, du, v, d.stmt, params, seen, depth + 1)
    return out


def cache_key_gaps(repo: Repo, fi: FunctionInfo):
    """A hand-rolled cache `G[key] = value`: every parameter the stored value is computed from must take part in the key, otherwise a later
    call that differs only in that parameter is served the earlier call's value.  -> [(stmt, missing parameters, key expr)]"""
    if isinstance(fi.node, ast.Lambda):
        return []
    G = module_containers(fi.module)
    if not G:
        return []
    params = set(fi.params) - {"self", "cls"}
    du = None
    out = []
    for n in walk_function(fi.node):
        key = val = None
        if isinstance(n, ast.Assign) and len(n.targets) == 1 and isinstance(n.targets[0], ast.Subscript) and isinstance(n.targets[0].value, ast.Name) \
                and n.targets[0].value.id in G:
            key, val = n.targets[0].slice, n.value
        elif isinstance(n, ast.Expr) and isinstance(n.value, ast.Call) and isinstance(n.value.func, ast.Attribute) and isinstance(n.value.func.value, ast.Name) \
                and n.value.func.value.id in G and n.value.func.attr == "setdefault" and len(n.value.args) == 2:
            key, val = n.value.args
        if key is None:
            continue
        du = du or DefUse(fi.node)
        kd = _param_deps(fi, du, key, n, params)
        vd = _param_deps(fi, du, val, n, params)
        missing = sorted(vd - kd)
        if missing:
            out.append((n, missing, key))
    return out


def shared_mutations(repo: Repo, fi: FunctionInfo, shared: Dict[str, str] = None):
    """In-place mutations in `fi` whose target may be (a view of) a shared/memoised array.  -> [(stmt, target, description)]"""
    shared = shared if shared is not None else shared_returning(repo)
    if not shared:
        return []
    du = DefUse(fi.node)
    out = []
    for st, tgt in inplace_mutations(fi.node):
        t = tgt
        # x[...] op= y  mutates x ; d["k"] op= y mutates the array stored under k
        if isinstance(t, ast.Subscript) and not (isinstance(t.slice, ast.Constant) and isinstance(t.slice.value, str)):
            t = t.value
        k = shared_kind(repo, fi, du, t, st, shared)
        if k == "array":
            out.append((st, tgt, f"`{src(tgt)}` may be (a view of) an array that is cached/shared between calls"))
    return out


# ------------------------------------------------------------------------------------------------ argument purity
ALIAS_PRESERVING = ("atleast_1d", "atleast_2d", "atleast_3d", "asarray", "asanyarray", "ascontiguousarray", "asfarray", "squeeze", "ravel", "reshape",
                    "transpose", "swapaxes", "view", "broadcast_to", "expand_dims", "moveaxis")


def aliases_param(repo: Repo, fi: FunctionInfo, du: DefUse, e: ast.AST, at: ast.AST, params: Sequence[str], depth: int = 0) -> Optional[str]:
    """Name of the parameter that expression e may alias (same buffer), following views and alias-preserving numpy calls."""
    if depth > 6 or e is None:
        return None
    e = view_source(e)
    if isinstance(e, ast.Name):
        if e.id in params:
            ds = du.reaching(e.id, at)
            if any(d.kind == "param" for d in ds):
                return e.id
        for d in du.reaching(e.id, at):
            if d.kind == "assign" and d.value is not None and d.unpack_index is None:
                r = aliases_param(repo, fi, du, d.value, d.stmt, params, depth + 1)
                if r:
                    return r
            elif d.kind == "aug" and d.stmt is not None:
                # x op= y keeps the identity of x: look at what x was before
                for d2 in du.reaching(e.id, d.stmt):
                    if d2.kind == "param" and e.id in params:
                        return e.id
                    if d2.kind == "assign" and d2.value is not None and d2.idx != d.idx:
                        r = aliases_param(repo, fi, du, d2.value, d2.stmt, params, depth + 1)
                        if r:
                            return r
        return None
    if isinstance(e, ast.Call):
        nm = call_name(e)
        if nm in ALIAS_PRESERVING:
            a = e.args[0] if e.args and not (isinstance(e.func, ast.Attribute) and nm in VIEW_METHODS and not _is_np(e.func.value)) else \
                (e.func.value if isinstance(e.func, ast.Attribute) else None)
            return aliases_param(repo, fi, du, a, at, params, depth + 1)
    return None


def _is_np(e):
    return isinstance(e, ast.Name) and e.id in ("np", "numpy", "gp", "cp")


def param_mutations(repo: Repo, fi: FunctionInfo, params: Sequence[str]):
    """In-place operations whose target may alias one of `params` (the caller's own array).  -> [(stmt, target, param)]"""
    du = DefUse(fi.node)
    out = []
    for st, tgt in inplace_mutations(fi.node):
        t = tgt
        if isinstance(t, ast.Subscript):
            t = t.value
        p = aliases_param(repo, fi, du, t, st, params)
        if p:
            out.append((st, tgt, p))
    return out


# ------------------------------------------------------------------------------------------------ buffer identity between values
def returns_view_of_param(repo: Repo, callee: FunctionInfo) -> Optional[str]:
    """Name of the parameter whose buffer the callee's return value may share (basic slicing / alias-preserving calls), else None."""
    du = DefUse(callee.node)
    params = [p for p in callee.params if p != "self"]
    for r in returns_of(callee.node):
        if r.value is None:
            continue
        p = aliases_param(repo, callee, du, r.value, r, params)
        if p:
            return p
    return None


def buffer_roots(repo: Repo, fi: FunctionInfo, du: DefUse, e: ast.AST, at: ast.AST, depth: int = 0) -> Set[str]:
    """Identifiers of the buffers that expression e may share memory with: the local (at its defining line) that first held a fresh
    array, followed through views, alias-preserving calls and repository functions returning a view of an argument.  A fresh
    expression (a reader read, an arithmetic result, a numpy constructor) is its own root."""
    if depth > 8 or e is None:
        return set()
    # indexing an object of a repository class (e.g. a spikeglx.Reader) goes through its __getitem__, which returns a new array
    cur = e
    while True:
        if isinstance(cur, ast.Subscript):
            base = cur.value
            if isinstance(base, ast.Attribute) and isinstance(base.value, ast.Name) and base.value.id == "self":
                clsq = repo.class_of(fi)
                t = repo.class_attr_types.get((clsq, base.attr)) if clsq else None
                if t and repo.method(t, "__getitem__"):
                    return {f"fresh@{getattr(cur, 'lineno', 0)}:{getattr(cur, 'col_offset', 0)}"}
            if isinstance(base, ast.Name):
                lt = repo.local_types(fi).get(base.id)
                if lt and repo.method(lt, "__getitem__"):
                    return {f"fresh@{getattr(cur, 'lineno', 0)}:{getattr(cur, 'col_offset', 0)}"}
            cur = base
        elif isinstance(cur, ast.Attribute) and cur.attr in ("T", "real", "imag"):
            cur = cur.value
        elif isinstance(cur, ast.Call) and isinstance(cur.func, ast.Attribute) and cur.func.attr in VIEW_METHODS:
            cur = cur.func.value
        else:
            break
    b = view_source(e)
    if isinstance(b, ast.Call):
        q = repo.resolve_call(fi, b)
        if q in repo.functions:
            callee = repo.functions[q]
            p = returns_view_of_param(repo, callee)
            if p:
                from .calls import bind
                arg = bind(b, callee).bound.get(p)
                if arg is not None:
                    return buffer_roots(repo, fi, du, arg, at, depth + 1)
            return {f"fresh@{getattr(b, 'lineno', 0)}:{getattr(b, 'col_offset', 0)}"}
        if call_name(b) in ALIAS_PRESERVING and (b.args or isinstance(b.func, ast.Attribute)):
            a = b.args[0] if b.args and _is_np(getattr(b.func, "value", None)) else (b.func.value if isinstance(b.func, ast.Attribute) else (b.args[0] if b.args else None))
            return buffer_roots(repo, fi, du, a, at, depth + 1)
        return {f"fresh@{getattr(b, 'lineno', 0)}:{getattr(b, 'col_offset', 0)}"}
    if isinstance(b, ast.Name):
        out: Set[str] = set()
        defs = [d for d in du.reaching(b.id, at) if d.kind in ("assign", "param", "for", "unpack", "with")]
        if not defs:
            return {b.id}
        for d in defs:
            if d.kind == "assign" and d.value is not None and d.unpack_index is None:
                vs = view_source(d.value)
                if isinstance(vs, ast.Name) or (isinstance(vs, ast.Call) and (repo.resolve_call(fi, vs) in repo.functions or call_name(vs) in ALIAS_PRESERVING)):
                    out |= buffer_roots(repo, fi, du, d.value, d.stmt, depth + 1)
                else:
                    out.add(f"{b.id}@{d.lineno}")
            else:
                out.add(f"{b.id}@{d.lineno}")
        return out
    if isinstance(b, ast.Attribute) and loc_name(b):
        return {loc_name(b)}
    return {f"fresh@{getattr(b, 'lineno', 0)}:{getattr(b, 'col_offset', 0)}"}


# ------------------------------------------------------------------------------------------------ scratch buffers re-used across iterations
FRESH_ALLOC = ("zeros", "empty", "ones", "zeros_like", "empty_like", "ones_like", "full", "full_like", "empty_aligned")


def stale_scratch_reads(fi: FunctionInfo):
    """Work arrays allocated once before a loop and re-used by every iteration: an iteration that overwrites only PART of the buffer
    (`out=B[:k]`, `B[:k] = ..` with k depending on the iteration) and then reads MORE of it (the whole `B`, or another range) sees what an
    earlier iteration left in the rows it did not write.  -> [(loop, buffer name, write node, written range text, read node, read range text)]."""
    from .struct import kwarg
    out = []
    du = DefUse(fi.node)
    cfg = du.cfg
    for loop in [n for n in walk_function(fi.node) if isinstance(n, (ast.For, ast.While))]:
        body_nodes = [x for b in loop.body for x in ast.walk(b)]
        body_ids = {id(x) for x in body_nodes}
        names = {n.id for n in body_nodes if isinstance(n, ast.Name)}
        for B in sorted(names):
            defs = [d for d in du.defs if d.var == B and d.kind == "assign"]
            if len(defs) != 1 or id(defs[0].stmt) in body_ids or not (isinstance(defs[0].value, ast.Call) and call_name(defs[0].value) in FRESH_ALLOC):
                continue
            if any(d.var == B and d.kind in ("assign", "for", "unpack", "with") and d.stmt is not None and id(d.stmt) in body_ids for d in du.defs):
                continue
            alloc = defs[0].value
            dim0 = None
            if alloc.args:
                shp = alloc.args[0]
                dim0 = shp.elts[0] if isinstance(shp, (ast.Tuple, ast.List)) and shp.elts else shp
            # accesses in source order within the loop body (top-level statements and their sub-expressions)
            events = []   # (order, kind, node, region ast or None)
            order = 0

            def region_of(sub):
                sl = sub.slice.elts[0] if isinstance(sub.slice, ast.Tuple) and sub.slice.elts else sub.slice
                if isinstance(sl, ast.Slice) and sl.lower is None and sl.upper is None and sl.step is None:
                    return None
                if isinstance(sl, ast.Constant) and sl.value is Ellipsis:
                    return None
                return sl
            for st in loop.body:
                writes_here = set()
                for n in ast.walk(st):
                    order += 1
                    if isinstance(n, ast.Call):
                        o = kwarg(n, "out")
                        if o is not None:
                            root = o
                            while isinstance(root, ast.Subscript):
                                root = root.value
                            if loc_name(root) == B:
                                events.append((order, "write", n, region_of(o) if isinstance(o, ast.Subscript) else None))
                                for x in ast.walk(o):
                                    writes_here.add(id(x))
                    if isinstance(n, ast.Assign):
                        for t in n.targets:
                            root = t
                            while isinstance(root, ast.Subscript):
                                root = root.value
                            if loc_name(root) == B and isinstance(t, ast.Subscript):
                                events.append((order, "write", n, region_of(t)))
                                for x in ast.walk(t):
                                    writes_here.add(id(x))
                    if isinstance(n, ast.AugAssign):
                        root = n.target
                        while isinstance(root, ast.Subscript):
                            root = root.value
                        if loc_name(root) == B:
                            events.append((order, "accumulate", n, None))
                            for x in ast.walk(n.target):
                                writes_here.add(id(x))
                # reads: Name loads of B not inside a write target of this statement
                parents = {}
                for p_ in ast.walk(st):
                    for c_ in ast.iter_child_nodes(p_):
                        parents[id(c_)] = p_
                for n in ast.walk(st):
                    if isinstance(n, ast.Name) and n.id == B and isinstance(n.ctx, ast.Load) and id(n) not in writes_here:
                        par = parents.get(id(n))
                        reg, node = None, n
                        if isinstance(par, ast.Subscript) and par.value is n:
                            reg, node = region_of(par), par
                        if isinstance(par, ast.Attribute) and par.attr in ("shape", "size", "dtype", "ndim", "nbytes"):
                            continue
                        events.append((order + 0.5, "read", node, reg))
            if any(k == "accumulate" for _, k, _, _ in events) and not any(k == "write" for _, k, _, _ in events):
                continue
            events.sort(key=lambda t: t[0])
            partial = None
            for o_, kind, node, reg in events:
                if kind == "write":
                    if reg is None:
                        partial = None
                        break   # the whole buffer is rewritten by every iteration
                    same_as_alloc = False
                    if isinstance(reg, ast.Slice) and reg.step is None and (reg.lower is None or const_value(reg.lower) == (True, 0)) and reg.upper is not None and dim0 is not None:
                        same_as_alloc = norm(reg.upper) == norm(dim0)
                    elif isinstance(reg, ast.Call) and call_name(reg) == "slice" and dim0 is not None:
                        up = reg.args[1] if len(reg.args) >= 2 else (reg.args[0] if reg.args else None)
                        same_as_alloc = up is not None and norm(up) == norm(dim0) and (len(reg.args) < 2 or const_value(reg.args[0]) in ((True, 0), (True, None)))
                    partial = None if same_as_alloc else (node, reg)
                elif kind == "read" and partial is not None:
                    wnode, wreg = partial
                    if reg is None or norm(reg) != norm(wreg):
                        out.append((loop, B, wnode, src(wreg), node, src(reg) if reg is not None else "the whole buffer"))
                        break
    return out


# ------------------------------------------------------------------------------------------------ finite label domain
def _is_label_vector(du: DefUse, e: ast.AST, at: ast.AST, labels: Sequence[str], depth: int = 0) -> bool:
    if depth > 5 or e is None:
        return False
    if loc_name(e) in labels:
        return True
    if isinstance(e, ast.Call):
        nm = call_name(e)
        if nm in ("asarray", "array", "atleast_1d", "asanyarray", "squeeze", "ravel", "int8", "int32", "int64", "copy") and e.args:
            return _is_label_vector(du, e.args[0], at, labels, depth + 1)
        if isinstance(e.func, ast.Attribute) and e.func.attr in ("astype", "copy", "ravel", "flatten", "squeeze", "get"):
            return _is_label_vector(du, e.func.value, at, labels, depth + 1)
    if isinstance(e, ast.Name):
        d = du.single_def_value(e.id, at)
        if d is not None and d.kind == "assign" and d.value is not None and d.unpack_index is None:
            return _is_label_vector(du, d.value, d.stmt, labels, depth + 1)
    return False


def label_set(du: DefUse, e: ast.AST, at: ast.AST, labels: Sequence[str], domain: Sequence[int] = (0, 1, 2, 3), depth: int = 0):
    """The set of label values v such that the boolean mask / index array `e` selects exactly the channels whose label is in the set.
    The labels are only ever touched through comparisons with constants, so a mask is a function of the label alone and the finite
    domain is evaluated exhaustively.  None when `e` is not such a mask (it depends on something else than the labels)."""
    D = frozenset(domain)
    if depth > 10 or e is None:
        return None
    rec = lambda x, a=at: label_set(du, x, a, labels, domain, depth + 1)
    if isinstance(e, ast.Name):
        ds = du.strong_reaching(e.id, at)
        if len(ds) != 1:
            return None
        d = ds[0]
        if isinstance(d.stmt, ast.For) and d.kind in ("for", "unpack"):
            return label_set(du, d.stmt.iter, d.stmt, labels, domain, depth + 1) if d.kind == "for" else None
        if d.kind == "assign" and d.value is not None and d.unpack_index is None:
            return label_set(du, d.value, d.stmt, labels, domain, depth + 1)
        return None
    if isinstance(e, ast.Subscript):
        ok, k = const_value(e.slice)
        if ok and k == 0 and isinstance(expand_name(du, e.value, at), ast.Call) and call_name(expand_name(du, e.value, at)) in ("where", "nonzero"):
            return rec(expand_name(du, e.value, at).args[0]) if expand_name(du, e.value, at).args else None
        return None
    if isinstance(e, ast.Call):
        nm = call_name(e)
        if nm in ("flatnonzero", "argwhere") and len(e.args) == 1:
            return rec(e.args[0])
        if nm in ("where", "nonzero") and len(e.args) == 1:
            return None   # a tuple of index arrays: needs [0]
        if nm in ("logical_or", "logical_and", "bitwise_or", "bitwise_and") and len(e.args) >= 2:
            a, b = rec(e.args[0]), rec(e.args[1])
            if a is None or b is None:
                return None
            return (a | b) if nm.endswith("or") else (a & b)
        if nm in ("logical_not", "invert", "bitwise_not") and e.args:
            a = rec(e.args[0])
            return None if a is None else D - a
        if nm in ("isin", "in1d") and len(e.args) >= 2 and _is_label_vector(du, e.args[0], at, labels):
            ok, vals = const_value(expand_name(du, e.args[1], at))
            if ok and isinstance(vals, (list, tuple, set)):
                s_ = frozenset(v for v in D if v in vals)
                inv = kwarg_value(e, "invert")
                return D - s_ if inv is True else s_
            return None
        if nm in ("asarray", "array") and e.args:
            return rec(e.args[0])
        return None
    if isinstance(e, ast.BoolOp):
        parts = [rec(v) for v in e.values]
        if any(p is None for p in parts):
            return None
        out = parts[0]
        for p in parts[1:]:
            out = (out | p) if isinstance(e.op, ast.Or) else (out & p)
        return out
    if isinstance(e, ast.BinOp) and isinstance(e.op, (ast.BitOr, ast.BitAnd)):
        a, b = rec(e.left), rec(e.right)
        if a is None or b is None:
            return None
        return (a | b) if isinstance(e.op, ast.BitOr) else (a & b)
    if isinstance(e, ast.UnaryOp) and isinstance(e.op, (ast.Invert, ast.Not)):
        a = rec(e.operand)
        return None if a is None else D - a
    if isinstance(e, ast.Compare) and len(e.ops) == 1:
        l, r, op = e.left, e.comparators[0], e.ops[0]
        flip = False
        if not _is_label_vector(du, l, at, labels) and _is_label_vector(du, r, at, labels):
            l, r, flip = r, l, True
        if not _is_label_vector(du, l, at, labels):
            return None
        ok, c = const_value(expand_name(du, r, at))
        if isinstance(op, (ast.In, ast.NotIn)):
            return None
        if not ok or not isinstance(c, (int, float)) or isinstance(c, bool):
            return None
        import operator as _op
        table = {ast.Eq: _op.eq, ast.NotEq: _op.ne, ast.Lt: _op.lt, ast.LtE: _op.le, ast.Gt: _op.gt, ast.GtE: _op.ge}
        f = table.get(type(op))
        if f is None:
            return None
        return frozenset(v for v in D if (f(c, v) if flip else f(v, c)))
    return None


def kwarg_value(call: ast.Call, name: str):
    for k in call.keywords:
        if k.arg == name:
            ok, v = const_value(k.value)
            return v if ok else None
    return None


# ------------------------------------------------------------------------------------------------ group-by idioms
def _def_of(du: DefUse, name: str, at: ast.AST):
    ds = du.strong_reaching(name, at)
    return ds[0] if len(ds) == 1 else None


def _expand_unpacked(du: DefUse, e: ast.AST, at: ast.AST, depth: int = 5):
    """Follow a name to its defining value; a name bound by tuple unpacking gives (value, index)."""
    idx = None
    cur = e
    for _ in range(depth):
        if isinstance(cur, ast.Name):
            d = _def_of(du, cur.id, at)
            if d is None or d.value is None:
                break
            if d.kind == "unpack" and d.unpack_index is not None:
                return d.value, d.unpack_index, d.stmt
            if d.kind == "assign":
                cur, at = d.value, d.stmt
                continue
        break
    return cur, idx, at


def _is_sorted_view_of(du: DefUse, e: ast.AST, at: ast.AST, vec: str) -> Optional[bool]:
    """Is `e` the vector `vec` in sorted order (vec[argsort(vec)], np.sort(vec), np.take(vec, argsort(vec)))?  False when it is
    `vec` itself (unsorted); None when unknown."""
    from .struct import call_name
    v = expand_name(du, e, at)
    if loc_name(v) == vec:
        return False
    if isinstance(v, ast.Call) and call_name(v) == "sort" and v.args and loc_name(expand_name(du, v.args[0], at)) == vec:
        return True
    idx = None
    if isinstance(v, ast.Subscript) and loc_name(v.value) == vec:
        idx = v.slice
    elif isinstance(v, ast.Call) and call_name(v) == "take" and len(v.args) >= 2 and loc_name(v.args[0]) == vec:
        idx = v.args[1]
    if idx is not None:
        o = expand_name(du, idx, at)
        if isinstance(o, ast.Call) and call_name(o) == "argsort" and o.args and loc_name(expand_name(du, o.args[0], at)) == vec:
            return True
    return None


def group_selector_verdict(du: DefUse, sel: ast.AST, at: ast.AST, vec: str) -> Tuple[str, str]:
    """Does the row selector `sel` (as used at statement `at`) enumerate, over the enclosing loop, exactly the groups of equal
    values of the vector `vec` (each group once, all its members)?  -> ("ok" | "bad" | "unknown", explanation).

    Recognised forms (model table, numpy semantics):
      A  for c in unique(vec): sel = (vec == c) | where(vec == c)[0] | flatnonzero(vec == c)
      B  for sel in split(argsort(vec[, kind=..]), CUTS): CUTS must be the group starts *in the sorted vector*:
         unique(<vec sorted>, return_index=True)[1][1:], cumsum(unique(vec, return_counts=True)[1])[:-1],
         (where|flatnonzero)(diff(<vec sorted>))[0] + 1, searchsorted(<vec sorted>, unique(vec))[1:].
         unique(vec, return_index=True) on the *unsorted* vector gives first occurrences in the original order: wrong cut points
         unless every group is one contiguous ascending block."""
    from .struct import call_name, kwarg
    name = loc_name(sel)
    if name is None:
        # the selector written in place: judged as if it had been held in a local defined right here
        class _D:
            kind, value, stmt, unpack_index = "assign", sel, at, None
        d = _D()
        name = src(sel)[:40]
    else:
        d = _def_of(du, name, at)
    if d is None:
        return "unknown", f"selector `{name}` has no single definition"
    # ---- form A
    if d.kind == "assign" and d.value is not None:
        v = d.value
        if isinstance(v, ast.Subscript) and isinstance(v.value, ast.Call) and call_name(v.value) == "where" and v.value.args:
            v = v.value.args[0]
        elif isinstance(v, ast.Call) and call_name(v) in ("flatnonzero",) and v.args:
            v = v.args[0]
        if isinstance(v, ast.Compare) and len(v.ops) == 1 and isinstance(v.ops[0], ast.Eq):
            l, r = v.left, v.comparators[0]
            for a, b in ((l, r), (r, l)):
                if loc_name(a) == vec and isinstance(b, ast.Name):
                    dc = _def_of(du, b.id, d.stmt)
                    if dc is not None and dc.kind == "for":
                        it = expand_name(du, dc.stmt.iter, dc.stmt)
                        if isinstance(it, ast.Call) and call_name(it) == "unique" and it.args and loc_name(expand_name(du, it.args[0], dc.stmt)) == vec \
                                and not it.keywords:
                            return "ok", f"for {b.id} in unique({vec}): rows where {vec} == {b.id}"
                        return "unknown", f"loop over `{src(dc.stmt.iter)}` is not unique({vec})"
            return "bad", f"selector `{src(d.value)}` does not compare `{vec}` with the loop's group value"
        if isinstance(v, ast.Compare) and len(v.ops) == 1 and any(loc_name(x) == vec for x in (v.left, v.comparators[0])):
            other = v.comparators[0] if loc_name(v.left) == vec else v.left
            dc = _def_of(du, other.id, d.stmt) if isinstance(other, ast.Name) else None
            if dc is not None and dc.kind == "for":
                return "bad", f"selector `{src(d.value)}` is not an equality test of `{vec}` against the group value: a row can fall into several groups"
        return "unknown", f"selector definition `{src(d.value)[:80]}` not understood"
    # ---- form B
    if d.kind == "for":
        it = expand_name(du, d.stmt.iter, d.stmt)
        if isinstance(it, ast.Call) and call_name(it) in ("split", "array_split") and len(it.args) >= 2:
            order = expand_name(du, it.args[0], d.stmt)
            if not (isinstance(order, ast.Call) and call_name(order) == "argsort" and order.args and loc_name(expand_name(du, order.args[0], d.stmt)) == vec):
                return "unknown", f"split() of `{src(order)[:60]}` - not argsort({vec})"
            cuts = it.args[1]
            cv, cidx, cat = _expand_unpacked(du, cuts, d.stmt)
            # peel a trailing [1:] / [:-1]
            peel = None
            node = cv if cidx is None else cuts
            node = expand_name(du, cuts, d.stmt) if cidx is None else cuts
            if isinstance(node, ast.Subscript) and isinstance(node.slice, ast.Slice):
                lo, hi = node.slice.lower, node.slice.upper
                if lo is not None and const_value(lo) == (True, 1) and hi is None:
                    peel = "drop-first"
                elif lo is None and hi is not None and const_value(hi) == (True, -1):
                    peel = "drop-last"
                inner = node.value
            else:
                inner = node
            iv, iidx, iat = _expand_unpacked(du, inner, d.stmt)
            # + 1 around a diff form
            plus1 = False
            if isinstance(iv, ast.BinOp) and isinstance(iv.op, ast.Add) and const_value(iv.right) == (True, 1):
                plus1, iv = True, iv.left
                if isinstance(iv, ast.Subscript) and const_value(iv.slice) == (True, 0):
                    iv = iv.value
            if isinstance(iv, ast.Subscript) and isinstance(iv.value, ast.Call) and call_name(iv.value) == "unique" and iidx is None:
                ok, k = const_value(iv.slice)
                iidx, iv = (k if ok else None), iv.value
            if isinstance(iv, ast.Call) and call_name(iv) == "unique" and iv.args:
                ret_index = kwarg(iv, "return_index")
                ret_counts = kwarg(iv, "return_counts")
                if ret_index is not None and const_value(ret_index) == (True, True) and iidx == 1 and peel == "drop-first":
                    sv = _is_sorted_view_of(du, iv.args[0], iat, vec)
                    if sv is True:
                        return "ok", "cut points = first index of each value in the sorted vector"
                    if sv is False:
                        return "bad", (f"the cut points `{src(cuts)}` come from np.unique({vec}, return_index=True) on the UNSORTED vector: those are first occurrences in the "
                                       f"original order, not group boundaries of the sorted order - groups are wrong whenever a group is not one contiguous ascending block "
                                       f"(e.g. interleaved shanks)")
                    return "unknown", f"unique() of `{src(iv.args[0])}` - sortedness unknown"
            if isinstance(iv, ast.Call) and call_name(iv) == "cumsum" and iv.args and peel == "drop-last":
                cv2, cidx2, cat2 = _expand_unpacked(du, iv.args[0], iat)
                if isinstance(cv2, ast.Subscript) and isinstance(cv2.value, ast.Call) and cidx2 is None:
                    ok, k = const_value(cv2.slice)
                    cidx2, cv2 = (k if ok else None), cv2.value
                if isinstance(cv2, ast.Call) and call_name(cv2) == "unique" and cv2.args and kwarg(cv2, "return_counts") is not None and cidx2 == 1 \
                        and kwarg(cv2, "return_index") is None and kwarg(cv2, "return_inverse") is None:
                    base = expand_name(du, cv2.args[0], cat2)
                    if loc_name(base) == vec or _is_sorted_view_of(du, cv2.args[0], cat2, vec):
                        return "ok", "cut points = cumulative group sizes"
            if plus1 and isinstance(iv, ast.Call) and call_name(iv) in ("where", "flatnonzero", "nonzero") and iv.args and peel is None:
                t = iv.args[0]
                if isinstance(t, ast.Compare):
                    t = t.left
                if isinstance(t, ast.Call) and call_name(t) == "diff" and t.args:
                    sv = _is_sorted_view_of(du, t.args[0], iat, vec)
                    if sv is True:
                        return "ok", "cut points = positions after each change in the sorted vector"
                    if sv is False:
                        return "bad", f"the cut points `{src(cuts)}` are the value changes of the UNSORTED vector but split the sorted order"
            return "unknown", f"cut points `{src(cuts)[:80]}` not understood"
        if isinstance(it, ast.Call) and call_name(it) == "unique":
            return "bad", f"rows are indexed by the group value `{name}` itself"
        return "unknown", f"loop iterable `{src(it)[:80]}` not understood"
    return "unknown", f"selector `{name}` is defined by {d.kind}"


def rule_no_shared_mutation(ctx, rule_id: str, functions: Sequence[str], consequence: str):
    """Generic rule: the listed functions (and the private helpers they call that the pinned tree does not have) do not modify in place an
    array that is cached / shared between calls (result of a memoised function, or a view / row / dict entry of one)."""
    repo = ctx.repo
    ctx.rule(rule_id, "no in-place operation on an array that is cached / shared between calls (memoised helper results and their views)")
    shared = shared_returning(repo)
    todo = [q for q in functions if repo.has_fn(q)]
    missing = [q for q in functions if not repo.has_fn(q)]
    if missing and not todo:
        raise AnchorMissing(f"none of {list(functions)} found")
    # helpers reachable from the anchored functions that are not memoised themselves (a memoised helper may build its own result in place)
    seen = set(todo)
    work = list(todo)
    while work:
        q = work.pop()
        fi = repo.fn(q)
        for c, tq in repo.calls_in(fi, include_nested=True):
            if tq and tq not in seen and repo.has_fn(tq) and tq.rsplit(".", 1)[-1].startswith("_"):
                # (memoised helpers included: building its own fresh result in place is fine and not reported, but a memoised helper that works in place
                #  on the RESULT OF ANOTHER memoised call - itself, recursively, for another key - corrupts that entry)
                seen.add(tq)
                work.append(tq)
    for q in sorted(seen):
        fi = repo.fn(q)
        muts = shared_mutations(repo, fi, shared) + shared_dict_mutations(repo, fi)
        if not muts:
            ctx.ok(fi, fi.node, f"{q.split('.')[-1]}: no in-place operation on a cached array" + (f" (memoised: {sorted(shared)})" if shared else ""),
                   "arrays modified in place are fresh for every call", key="shared:" + q)
        for st, tgt, why in muts:
            ctx.violation(fi, st, st, f"{why}: `{src(st)[:70]}` changes it for every later call with the same arguments - {consequence}",
                          key="shared:" + q + ":" + norm(tgt)[:40], name_free=True)
        for st, missing, key in cache_key_gaps(repo, fi):
            ctx.violation(fi, st, st, f"the value kept in the cache is computed from {missing} but the key `{src(key)[:60]}` does not depend on "
                          f"{'it' if len(missing) == 1 else 'them'}: a later call that differs only in {missing} is served the value of the earlier call - {consequence}",
                          key="cache-key:" + q, name_free=True)
