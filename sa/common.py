"""Helpers shared by the rule modules (expression chains, selectors, guards)."""
from __future__ import annotations

import ast
from typing import Callable, Dict, Iterable, List, Optional, Sequence, Set, Tuple

from .cfg import CFG, CNode, conjuncts, expr_guards
from .defuse import DefUse, loc_name
from .model import AnalysisError, AnchorMissing, FunctionInfo, Repo, const_value, src, walk_function
from .struct import call_name, find, norm


def is_full_slice(e: ast.AST) -> bool:
    if isinstance(e, ast.Slice) and e.lower is None and e.upper is None and e.step is None:
        return True
    if isinstance(e, ast.Constant) and e.value is Ellipsis:
        return True
    if isinstance(e, ast.Call) and call_name(e) == "slice" and len(e.args) == 1 and isinstance(e.args[0], ast.Constant) \
            and e.args[0].value is None:
        return True
    return False


def index_elts(sub: ast.Subscript) -> List[ast.AST]:
    s = sub.slice
    if isinstance(s, ast.Tuple):
        return list(s.elts)
    return [s]


def chain_root(e: ast.AST) -> Tuple[Optional[str], List[ast.AST]]:
    """Follow value/receiver links (subscripts, attributes, method calls, .T) down to a named location.
    Returns (location name or None, list of nodes on the way, outermost first)."""
    path = []
    cur = e
    while True:
        path.append(cur)
        ln = loc_name(cur) if isinstance(cur, (ast.Name, ast.Attribute)) else None
        if ln is not None and not _is_method_tail(cur, path):
            return ln, path
        if isinstance(cur, ast.Subscript):
            cur = cur.value
        elif isinstance(cur, ast.Attribute):
            cur = cur.value
        elif isinstance(cur, ast.Call) and isinstance(cur.func, ast.Attribute):
            cur = cur.func.value
        elif isinstance(cur, ast.Call) and len(cur.args) >= 1 and isinstance(cur.func, (ast.Name, ast.Attribute)):
            # np.float32(x), np.copy(x) ... : transparent single-argument wrappers
            cur = cur.args[0]
        else:
            return None, path


def _is_method_tail(node: ast.AST, path: List[ast.AST]) -> bool:
    """x.astype in x.astype(...) is not a location; x.T is a view of x."""
    if isinstance(node, ast.Attribute):
        if len(path) >= 2 and isinstance(path[-2], ast.Call) and path[-2].func is node:
            return True
        if node.attr in ("T", "real", "flat", "values"):
            return True
    return False


def root_location(e: ast.AST) -> Optional[str]:
    return chain_root(e)[0]


def subscripts_rooted_at(fn_node: ast.AST, roots: Sequence[str]) -> List[ast.Subscript]:
    out = []
    for n in walk_function(fn_node):
        if isinstance(n, ast.Subscript):
            r, _ = chain_root(n)
            if r in roots:
                out.append(n)
    return out


def outermost(nodes: List[ast.AST], parent_of: Callable) -> List[ast.AST]:
    ids = {id(n) for n in nodes}
    out = []
    for n in nodes:
        p = parent_of(n)
        inside = False
        while p is not None and not isinstance(p, ast.stmt):
            if id(p) in ids:
                inside = True
                break
            p = parent_of(p)
        if not inside:
            out.append(n)
    return out


def guards_of(repo: Repo, fi: FunctionInfo, cfg: CFG, node: ast.AST) -> List[Tuple[ast.AST, bool]]:
    """All atomic guard facts (test expr, polarity) that hold whenever `node` is evaluated."""
    cn = cfg.node_for(node)
    if cn is None:
        raise AnalysisError(f"{fi.qualname}: node at line {getattr(node, 'lineno', '?')} not in CFG")
    gs = list(cfg.guards(cn))
    stmt = cn.stmt
    gs += expr_guards(fi.module.parent, node, stmt)
    out = []
    for t, pol in gs:
        out += conjuncts(t, pol)
    return out


def guard_texts(gs: List[Tuple[ast.AST, bool]]) -> List[str]:
    return [("" if pol else "not ") + norm(t) for t, pol in gs]


def has_guard(gs: List[Tuple[ast.AST, bool]], pred: Callable[[ast.AST, bool], bool]) -> bool:
    return any(pred(t, pol) for t, pol in gs)


def calls_named(fn_node: ast.AST, name: str, nested: bool = False) -> List[ast.Call]:
    return [n for n in walk_function(fn_node, include_nested=nested) if isinstance(n, ast.Call) and call_name(n) == name]


def resolved_calls(repo: Repo, fi: FunctionInfo, target: str, nested: bool = False) -> List[ast.Call]:
    return [c for c, q in repo.calls_in(fi, include_nested=nested) if q == target]


def assigned_value(du: DefUse, var: str, at: ast.AST) -> Optional[ast.AST]:
    d = du.single_def_value(var, at)
    return d.value if d is not None and d.kind == "assign" else None


def expand_name(du: DefUse, e: ast.AST, at: ast.AST = None, depth: int = 4) -> ast.AST:
    """Replace a Name by its unique reaching definition's value (repeatedly), so that hoisting an
    expression into a local does not change what a rule sees."""
    cur = e
    for _ in range(depth):
        if isinstance(cur, ast.Name):
            d = du.single_def_value(cur.id, at if at is not None else cur)
            if d is not None and d.kind == "assign" and d.value is not None and d.unpack_index is None:
                at = d.stmt
                cur = d.value
                continue
        break
    return cur


def returns_of(fn_node: ast.AST) -> List[ast.Return]:
    return [n for n in walk_function(fn_node) if isinstance(n, ast.Return)]


def stores_to(fn_node: ast.AST, location: str) -> List[Tuple[ast.stmt, ast.AST, Optional[ast.AST]]]:
    """(statement, target node, value) for every assignment whose target is `location` or a subscript of it."""
    out = []
    for n in walk_function(fn_node):
        if isinstance(n, ast.Assign):
            for t in n.targets:
                for el in (t.elts if isinstance(t, (ast.Tuple, ast.List)) else [t]):
                    base = el
                    while isinstance(base, ast.Subscript):
                        base = base.value
                    if loc_name(base) == location:
                        out.append((n, el, n.value))
        elif isinstance(n, ast.AugAssign):
            base = n.target
            while isinstance(base, ast.Subscript):
                base = base.value
            if loc_name(base) == location:
                out.append((n, n.target, n.value))
    return out
