"""E2 - reaching definitions, uses, dead stores over the statement CFG.

Tracked locations: local names (`x`), attributes of self (`self.a`), and constant-key cells
(`x[0]`, `meta["fileTimeSecs"]`, `self.a["k"]`).  A store into a cell is a *weak* update of its base
(it does not kill the base's definitions) and a strong update of the cell.
"""
from __future__ import annotations

import ast
from dataclasses import dataclass
from typing import Dict, List, Optional, Set, Tuple

from .cfg import CFG, CNode
from .model import const_value


@dataclass
class Def:
    idx: int
    var: str
    node: CNode
    value: Optional[ast.AST]  # RHS expression when the whole value is known
    kind: str  # assign aug param for unpack with mutate import def
    stmt: Optional[ast.AST] = None
    unpack_index: Optional[int] = None  # position in a tuple target
    target: Optional[ast.AST] = None

    @property
    def lineno(self):
        return getattr(self.stmt, "lineno", 0)


def loc_name(node: ast.AST) -> Optional[str]:
    """Canonical location string for a Name / self.attr / constant-key subscript, else None."""
    if isinstance(node, ast.Name):
        return node.id
    if isinstance(node, ast.Attribute):
        base = loc_name(node.value)
        if base is not None:
            return f"{base}.{node.attr}"
        return None
    if isinstance(node, ast.Subscript):
        base = loc_name(node.value)
        if base is None:
            return None
        ok, v = const_value(node.slice)
        if ok and isinstance(v, (int, str)):
            return f"{base}[{v!r}]"
        return None
    return None


def base_of(node: ast.AST) -> Optional[str]:
    """Location of the object being mutated by a store into `node` (a Subscript/Attribute target)."""
    cur = node
    while isinstance(cur, (ast.Subscript,)):
        cur = cur.value
    return loc_name(cur)


class DefUse:
    def __init__(self, fn_node: ast.AST, cfg: CFG = None, track_attrs_of=("self",)):
        self.fn = fn_node
        self.cfg = cfg or CFG(fn_node)
        self.defs: List[Def] = []
        self.node_defs: Dict[int, List[int]] = {n.id: [] for n in self.cfg.nodes}
        self._collect()
        self._solve()

    # ------------------------------------------------------------ collection
    def _add(self, var, node, value, kind, stmt, unpack_index=None, target=None):
        d = Def(len(self.defs), var, node, value, kind, stmt, unpack_index, target)
        self.defs.append(d)
        self.node_defs[node.id].append(d.idx)
        return d

    def _target(self, tgt: ast.AST, value, node: CNode, stmt, kind="assign", idx=None):
        if isinstance(tgt, (ast.Tuple, ast.List)):
            for i, e in enumerate(tgt.elts):
                if isinstance(value, (ast.Tuple, ast.List)) and len(value.elts) == len(tgt.elts):
                    self._target(e, value.elts[i], node, stmt, kind)
                else:
                    self._target(e, value, node, stmt, "unpack", i)
            return
        if isinstance(tgt, ast.Starred):
            self._target(tgt.value, None, node, stmt, "unpack", idx)
            return
        name = loc_name(tgt)
        if name is not None:
            self._add(name, node, value if kind != "unpack" else value, kind, stmt, idx, tgt)
        if isinstance(tgt, (ast.Subscript, ast.Attribute)):
            b = base_of(tgt) if isinstance(tgt, ast.Subscript) else loc_name(tgt.value)
            if b is not None and b != name:
                self._add(b, node, value, "mutate", stmt, None, tgt)

    def _collect(self):
        a = self.fn.args
        for p in a.posonlyargs + a.args + a.kwonlyargs + ([a.vararg] if a.vararg else []) + ([a.kwarg] if a.kwarg else []):
            self._add(p.arg, self.cfg.entry, None, "param", None)
        for n in self.cfg.nodes:
            s = n.stmt
            if s is None:
                continue
            if n.kind == "stmt":
                if isinstance(s, ast.Assign):
                    for t in s.targets:
                        self._target(t, s.value, n, s)
                elif isinstance(s, ast.AnnAssign) and s.value is not None:
                    self._target(s.target, s.value, n, s)
                elif isinstance(s, ast.AugAssign):
                    name = loc_name(s.target)
                    if name is not None:
                        self._add(name, n, None, "aug", s, None, s.target)
                    if isinstance(s.target, ast.Subscript):
                        b = base_of(s.target)
                        if b is not None and b != name:
                            self._add(b, n, None, "mutate", s, None, s.target)
                elif isinstance(s, (ast.FunctionDef, ast.AsyncFunctionDef, ast.ClassDef)):
                    self._add(s.name, n, None, "def", s)
                elif isinstance(s, (ast.Import, ast.ImportFrom)):
                    for al in s.names:
                        self._add((al.asname or al.name).split(".")[0], n, None, "import", s)
                elif isinstance(s, ast.Delete):
                    for t in s.targets:
                        name = loc_name(t)
                        if name:
                            self._add(name, n, None, "del", s)
                # walrus inside any simple statement
                for sub in ast.walk(s):
                    if isinstance(sub, ast.NamedExpr):
                        self._add(sub.target.id, n, sub.value, "assign", s)
            elif n.kind == "iter":
                self._target(s.target, None, n, s, "for")
            elif n.kind == "with":
                for it in s.items:
                    if it.optional_vars is not None:
                        self._target(it.optional_vars, it.context_expr, n, s, "with")
            elif n.kind == "handler":
                if getattr(s, "name", None):
                    self._add(s.name, n, None, "assign", s)

    # ------------------------------------------------------------ dataflow
    def _kills(self, d: Def, other: Def) -> bool:
        """Does definition d overwrite `other` (same location, strong update)?"""
        if d.kind == "mutate":
            return False
        if d.var == other.var:
            return True
        # redefining a base kills its cells: x = ... kills x[0]
        return other.var.startswith(d.var + "[") or other.var.startswith(d.var + ".")

    def _solve(self):
        n_nodes = len(self.cfg.nodes)
        self.IN: List[Set[int]] = [set() for _ in range(n_nodes)]
        self.OUT: List[Set[int]] = [set() for _ in range(n_nodes)]
        by_var: Dict[str, List[int]] = {}
        for d in self.defs:
            by_var.setdefault(d.var, []).append(d.idx)
        work = list(range(n_nodes))
        while work:
            i = work.pop()
            new_in: Set[int] = set()
            for p, _ in self.cfg.pred[i]:
                new_in |= self.OUT[p]
            out = set(new_in)
            for di in self.node_defs[i]:
                d = self.defs[di]
                if d.kind != "mutate":
                    out = {o for o in out if not self._kills(d, self.defs[o])}
                out.add(di)
            self.IN[i] = new_in
            if out != self.OUT[i]:
                self.OUT[i] = out
                for s, _ in self.cfg.succ[i]:
                    if s not in work:
                        work.append(s)

    # ------------------------------------------------------------ queries
    def reaching_at(self, cnode: CNode, var: str, after: bool = False) -> List[Def]:
        s = self.OUT[cnode.id] if after else self.IN[cnode.id]
        return [self.defs[i] for i in sorted(s) if self.defs[i].var == var]

    def reaching(self, var: str, at: ast.AST) -> List[Def]:
        """Definitions of `var` reaching the statement that contains ast node `at` (before it executes)."""
        cn = self.cfg.node_for(at)
        if cn is None:
            return []
        return self.reaching_at(cn, var)

    def strong_reaching(self, var: str, at: ast.AST) -> List[Def]:
        return [d for d in self.reaching(var, at) if d.kind != "mutate"]

    def loads_in(self, cnode: CNode) -> List[Tuple[str, ast.AST]]:
        """(location, ast node) for every read performed by the CFG node itself."""
        s = cnode.stmt
        if s is None:
            return []
        if cnode.kind in ("test", "iter"):
            roots = [cnode.expr]
        elif cnode.kind == "with":
            roots = [it.context_expr for it in s.items]
        elif cnode.kind == "handler":
            roots = [s.type] if s.type is not None else []
        elif isinstance(s, (ast.FunctionDef, ast.AsyncFunctionDef, ast.ClassDef)):
            roots = [s]  # closure reads count at the definition site (approximation)
        elif isinstance(s, ast.Try):
            roots = []
        else:
            roots = [s]
        out = []
        for r in roots:
            covered = set()  # sub-chains of a longer named location are not separate reads
            for sub in ast.walk(r):
                if isinstance(sub, (ast.Attribute, ast.Subscript)) and loc_name(sub) is not None:
                    covered.add(id(sub.value))
            for sub in ast.walk(r):
                if id(sub) in covered:
                    continue
                if isinstance(sub, ast.Name) and isinstance(sub.ctx, ast.Load):
                    out.append((sub.id, sub))
                elif isinstance(sub, (ast.Attribute, ast.Subscript)) and isinstance(sub.ctx, ast.Load):
                    nm = loc_name(sub)
                    if nm:
                        out.append((nm, sub))
                elif isinstance(sub, ast.AugAssign):
                    nm = loc_name(sub.target)
                    if nm:
                        out.append((nm, sub.target))
                if isinstance(sub, ast.Call) and isinstance(sub.func, ast.Attribute) and isinstance(sub.func.value, ast.Name):
                    # a method call on an object may read any of its attributes
                    out.append((sub.func.value.id, sub))
        return out

    def uses_of(self, d: Def) -> List[Tuple[CNode, ast.AST]]:
        """Reads that may observe definition d (reads of d.var, of a cell/attribute under it, or of a base
        object of it)."""
        out = []
        for n in self.cfg.nodes:
            if d.idx not in self.IN[n.id] and not (n.id == d.node.id and False):
                continue
            for nm, node in self.loads_in(n):
                if nm == d.var or nm.startswith(d.var + "[") or nm.startswith(d.var + ".") \
                        or d.var.startswith(nm + "[") or d.var.startswith(nm + "."):
                    out.append((n, node))
        return out

    def dead_stores(self, var: str) -> List[Def]:
        """Strong definitions of `var` that no read can observe and that do not reach the function exit
        (for self.* locations reaching the exit counts as observed)."""
        out = []
        for d in self.defs:
            if d.var != var or d.kind in ("mutate", "param"):
                continue
            if self.uses_of(d):
                continue
            if var.startswith("self.") and d.idx in self.IN[self.cfg.exit.id]:
                continue
            out.append(d)
        return out

    def single_def_value(self, var: str, at: ast.AST) -> Optional[Def]:
        ds = self.strong_reaching(var, at)
        if len(ds) == 1:
            return ds[0]
        return None
