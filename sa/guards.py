"""Propositional reasoning over branch predicates.

A path condition is the conjunction of the (test, polarity) guards the CFG proves for a node.  Instead of matching the
*shape* of a guard (`if not (a or b) or c:` vs. the early-return form `if (a or b) and not c: return`), rules ask whether
the path condition *entails* a goal formula over the same atoms.  Atoms are the maximal non-boolean sub-expressions of the
tests, canonicalised (negated comparison operators are folded into a negation, `a > b` is `b < a`, operands of `==` are
sorted); entailment is decided by a truth table over the atoms (a handful per function).  No arithmetic is interpreted:
two different atoms are independent, which can only make an entailment fail (never succeed wrongly).
"""
from __future__ import annotations

import ast
import itertools
from typing import Callable, Dict, Iterable, List, Optional, Tuple

from .struct import norm

# formulas: ("atom", key) | ("not", f) | ("and", [f..]) | ("or", [f..]) | ("const", bool)
TRUE = ("const", True)
FALSE = ("const", False)


def Atom(key):
    return ("atom", key)


def Not(f):
    if f[0] == "const":
        return ("const", not f[1])
    if f[0] == "not":
        return f[1]
    return ("not", f)


def And(*fs):
    fs = [f for f in _flat(fs)]
    return ("and", fs) if fs else TRUE


def Or(*fs):
    fs = [f for f in _flat(fs)]
    return ("or", fs) if fs else FALSE


def _flat(fs):
    for f in fs:
        if isinstance(f, list):
            yield from _flat(f)
        else:
            yield f


class Atoms:
    """key -> representative expression; keys are canonical texts."""

    def __init__(self):
        self.exprs: Dict[str, ast.AST] = {}

    def key(self, e: ast.AST) -> str:
        k = ast.unparse(e)
        self.exprs.setdefault(k, e)
        return k

    def matching(self, pred: Callable[[str], bool]) -> List[str]:
        return [k for k in self.exprs if pred(k)]


_NEG = {ast.NotEq: ast.Eq, ast.IsNot: ast.Is, ast.NotIn: ast.In, ast.GtE: ast.Lt, ast.LtE: ast.Gt}


def formula(test: ast.AST, atoms: Atoms, polarity: bool = True):
    f = _formula(test, atoms)
    return f if polarity else Not(f)


def _formula(e: ast.AST, atoms: Atoms):
    if isinstance(e, ast.Constant) and isinstance(e.value, (bool, type(None))):
        return ("const", bool(e.value))
    if isinstance(e, ast.UnaryOp) and isinstance(e.op, ast.Not):
        return Not(_formula(e.operand, atoms))
    if isinstance(e, ast.BoolOp):
        parts = [_formula(v, atoms) for v in e.values]
        return And(*parts) if isinstance(e.op, ast.And) else Or(*parts)
    if isinstance(e, ast.Call) and isinstance(e.func, ast.Name) and e.func.id == "bool" and len(e.args) == 1 and not e.keywords:
        return _formula(e.args[0], atoms)
    if isinstance(e, ast.Compare):
        parts = []
        left = e.left
        for op, right in zip(e.ops, e.comparators):
            parts.append(_compare(left, op, right, atoms))
            left = right
        return And(*parts) if len(parts) > 1 else parts[0]
    if _is_count(e):  # truthiness of a count: `if x.size:`  ==  not (x.size == 0)
        return Not(Atom(atoms.key(ast.Compare(left=e, ops=[ast.Eq()], comparators=[ast.Constant(value=0)]))))
    return Atom(atoms.key(e))


def _is_count(e: ast.AST) -> bool:
    """A non-negative integer quantity: x.size, x.shape[k], len(x), x.ndim, x.nbytes."""
    if isinstance(e, ast.Attribute) and e.attr in ("size", "ndim", "nbytes"):
        return True
    if isinstance(e, ast.Subscript) and isinstance(e.value, ast.Attribute) and e.value.attr == "shape":
        return True
    return isinstance(e, ast.Call) and isinstance(e.func, ast.Name) and e.func.id == "len"


def _compare(left, op, right, atoms: Atoms):
    # counts are non-negative integers:  n > 0, n >= 1, n != 0  ==  not (n == 0) ;  n < 1, n <= 0  ==  (n == 0)
    for a, b, flip in ((left, right, False), (right, left, True)):
        if _is_count(a) and isinstance(b, ast.Constant) and isinstance(b.value, int) and not isinstance(b.value, bool):
            t0 = type(op)
            if flip:
                t0 = {ast.Lt: ast.Gt, ast.Gt: ast.Lt, ast.LtE: ast.GtE, ast.GtE: ast.LtE}.get(t0, t0)
            zero = Atom(atoms.key(ast.Compare(left=a, ops=[ast.Eq()], comparators=[ast.Constant(value=0)])))
            if (t0, b.value) in ((ast.Gt, 0), (ast.GtE, 1), (ast.NotEq, 0)):
                return Not(zero)
            if (t0, b.value) in ((ast.Lt, 1), (ast.LtE, 0), (ast.Eq, 0)):
                return zero
    neg = False
    t = type(op)
    if t in _NEG:
        t = _NEG[t]
        neg = True
    if t is ast.Gt:  # a > b  ==  b < a
        left, right, t = right, left, ast.Lt
    if t in (ast.Eq, ast.Is):
        # `x is None` and `x == None` are the same atom; operands sorted
        a, b = sorted([left, right], key=lambda x: ast.unparse(x))
        t = ast.Eq
        left, right = a, b
    k = atoms.key(ast.Compare(left=left, ops=[t()], comparators=[right]))
    f = Atom(k)
    return Not(f) if neg else f


def _eval(f, val: Dict[str, bool]) -> bool:
    tag = f[0]
    if tag == "const":
        return f[1]
    if tag == "atom":
        return val[f[1]]
    if tag == "not":
        return not _eval(f[1], val)
    if tag == "and":
        return all(_eval(x, val) for x in f[1])
    if tag == "or":
        return any(_eval(x, val) for x in f[1])
    raise ValueError(tag)


def atoms_of(f, out=None) -> List[str]:
    out = [] if out is None else out
    if f[0] == "atom":
        if f[1] not in out:
            out.append(f[1])
    elif f[0] == "not":
        atoms_of(f[1], out)
    elif f[0] in ("and", "or"):
        for x in f[1]:
            atoms_of(x, out)
    return out


MAX_ATOMS = 14


def entails(premise, goal) -> Optional[bool]:
    """premise |= goal ?  None when there are too many atoms to enumerate."""
    names = atoms_of(And(premise, goal))
    if len(names) > MAX_ATOMS:
        return None
    for bits in itertools.product((False, True), repeat=len(names)):
        val = dict(zip(names, bits))
        if _eval(premise, val) and not _eval(goal, val):
            return False
    return True


def satisfiable(f) -> Optional[bool]:
    e = entails(f, FALSE)
    return None if e is None else not e


def equivalent(a, b) -> Optional[bool]:
    x, y = entails(a, b), entails(b, a)
    if x is None or y is None:
        return None
    return x and y


def path_condition(cfg, cnode, atoms: Atoms, extra: Iterable[Tuple[ast.AST, bool]] = ()):
    """Conjunction of the guards that hold on every path entry -> cnode (plus expression-level guards in `extra`)."""
    fs = [formula(t, atoms, pol) for t, pol in list(cfg.guards(cnode)) + list(extra)]
    return And(*fs)


def show(f) -> str:
    tag = f[0]
    if tag == "const":
        return str(f[1])
    if tag == "atom":
        return f[1]
    if tag == "not":
        return f"not ({show(f[1])})"
    sep = " and " if tag == "and" else " or "
    return "(" + sep.join(show(x) for x in f[1]) + ")" if f[1] else ("True" if tag == "and" else "False")


_ = norm
