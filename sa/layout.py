"""E7 - symbolic bit-layout interpreter.

A 16-bit word is the label row [b0 .. b15] (b0 = least significant bit).  The chain of data-independent
re-arrangements in `split_sync` (view as bytes, unpackbits, reshape, roll, flip) is pushed through symbolically;
the result is one label row per word, valid for all 65 536 words at once because every step is a permutation
of bit positions that does not look at the values.
"""
from __future__ import annotations

import ast
from dataclasses import dataclass
from typing import Dict, List, Optional

from .model import AnalysisError, const_value, src
from .struct import call_name, kwarg


class LayoutViolation(Exception):
    """The chain provably mixes bits of different words or is not a per-word permutation."""


@dataclass
class Val:
    kind: str  # words | bytes | flatbits | rows | other
    data: object = None  # words: None ; bytes: list of byte label lists per word ; flatbits/rows: label row per word
    note: str = ""
    dtype: str = ""  # element type of a bit array when known (unpackbits yields uint8)


WORD = [f"b{i}" for i in range(16)]


class LayoutInterp:
    def __init__(self, param: str, little_endian: bool = True):
        self.env: Dict[str, Val] = {param: Val("words")}
        self.little = little_endian
        self.param = param

    def ev(self, e: ast.AST) -> Val:
        if isinstance(e, ast.Name):
            if e.id in self.env:
                return self.env[e.id]
            return Val("other", note=e.id)
        if isinstance(e, ast.Attribute):
            if e.attr in ("size",):
                base = self.ev(e.value)
                return Val("other", note=f"size:{base.kind}")
            return Val("other", note=src(e))
        if isinstance(e, ast.Subscript):
            base = self.ev(e.value)
            if base.kind == "rows":
                # x[:, ::-1] is a flip
                sl = e.slice
                if isinstance(sl, ast.Tuple) and len(sl.elts) == 2 and _is_full(sl.elts[0]) and _is_reverse(sl.elts[1]):
                    return Val("rows", list(reversed(base.data)), dtype=base.dtype)
                raise AnalysisError(f"layout: subscript {src(e)} on bit rows not modelled")
            return Val("other", note=src(e))
        if isinstance(e, ast.Call):
            nm = call_name(e)
            recv = e.func.value if isinstance(e.func, ast.Attribute) and not _is_module(e.func.value) else None
            args = list(e.args)
            if nm in ("int16", "copy", "asarray", "array", "ascontiguousarray") and args:
                v = self.ev(args[0])
                return v
            if nm in ("ravel", "flatten", "squeeze", "copy") and recv is not None and not args:
                v = self.ev(recv)
                if v.kind in ("words", "other"):
                    return v          # a vector of words stays a vector of words
            if nm == "astype":
                v = self.ev(recv)
                if v.kind in ("rows", "flatbits"):
                    t = src(args[0]) if args else ""
                    return Val(v.kind, v.data, v.note, t.split(".")[-1].strip("'\""))
                if v.kind == "words":
                    t = src(args[0]) if args else ""
                    if "int16" in t:
                        return v
                    raise AnalysisError(f"layout: words cast to {t}")
                return v
            if nm in ("int8", "uint8", "bool_", "int16", "int32", "float32") and args and self.ev(args[0]).kind in ("rows", "flatbits"):
                v = self.ev(args[0])
                return Val(v.kind, v.data, v.note, nm)
            if nm == "view":
                v = self.ev(recv)
                t = src(args[0]) if args else src(kwarg(e, "dtype") or ast.Constant(None))
                if v.kind in ("rows", "flatbits") and ("int8" in t) and (v.dtype in ("uint8", "int8", None)):
                    # one-byte 0/1 values re-read as another one-byte type: same values, same places
                    return Val(v.kind, v.data, v.note, t.split(".")[-1].strip("'\""))
                if v.kind != "words":
                    raise AnalysisError("layout: view on a non-word value")
                if "uint8" in t or "int8" in t:
                    lo, hi = WORD[:8], WORD[8:]
                    return Val("bytes", [lo, hi] if self.little else [hi, lo])
                if "uint16" in t or "int16" in t:
                    return v
                raise AnalysisError(f"layout: view({t}) not modelled")
            if nm == "unpackbits" and args:
                v = self.ev(args[0])
                if v.kind != "bytes":
                    raise LayoutViolation("unpackbits applied to something that is not the byte view of the int16 words: "
                                          "unpackbits needs uint8 input")
                bo = kwarg(e, "bitorder")
                little_bits = isinstance(bo, ast.Constant) and bo.value == "little"
                ax = kwarg(e, "axis")
                if ax is not None and not (isinstance(ax, ast.Constant) and ax.value is None):
                    raise AnalysisError("layout: unpackbits with an axis not modelled")
                row = []
                for byte in v.data:
                    row += list(byte) if little_bits else list(reversed(byte))
                return Val("flatbits", row, dtype="uint8")
            if nm == "reshape":
                v = self.ev(recv) if recv is not None else self.ev(args.pop(0))
                shape = args[0].elts if len(args) == 1 and isinstance(args[0], (ast.Tuple, ast.List)) else args
                if v.kind != "flatbits":
                    raise AnalysisError("layout: reshape of a non-flat value")
                if len(shape) != 2:
                    raise AnalysisError("layout: reshape to other than 2-D")
                ok, ncol = const_value(shape[1])
                if not ok or ncol != 16:
                    raise LayoutViolation(f"bits are reshaped to rows of {src(shape[1])} instead of 16: rows no longer correspond to words")
                first = self.ev(shape[0]) if not isinstance(shape[0], ast.Constant) else None
                if isinstance(shape[0], ast.Constant) and shape[0].value != -1:
                    raise AnalysisError("layout: constant row count")
                if first is not None and not (first.kind == "other" and first.note.startswith("size:words")) and src(shape[0]) != "-1":
                    # len(x) / x.shape[0] / -1 are accepted forms for the word count
                    if not any(k in src(shape[0]) for k in ("len(", ".shape[0]", ".size")):
                        raise AnalysisError(f"layout: row count {src(shape[0])} not recognised")
                return Val("rows", list(v.data), dtype=v.dtype)
            if nm == "roll" and args:
                v = self.ev(args[0])
                if v.kind != "rows":
                    raise AnalysisError("layout: roll of a non-row value")
                ok, k = const_value(args[1] if len(args) > 1 else kwarg(e, "shift"))
                ax = kwarg(e, "axis") or (args[2] if len(args) > 2 else None)
                if ax is None:
                    raise LayoutViolation("np.roll without axis rolls the flattened array: bits move between neighbouring words")
                oka, a = const_value(ax)
                if not oka or a not in (1, -1):
                    raise LayoutViolation(f"np.roll along axis {src(ax)} moves whole words, not bits within a word")
                if not ok:
                    raise AnalysisError("layout: non-constant roll")
                k = k % 16
                row = v.data
                return Val("rows", row[-k:] + row[:-k] if k else list(row), dtype=v.dtype)
            if nm in ("flip", "fliplr") and args:
                v = self.ev(args[0])
                if v.kind != "rows":
                    raise AnalysisError("layout: flip of a non-row value")
                if nm == "flip":
                    ax = kwarg(e, "axis") or (args[1] if len(args) > 1 else None)
                    if ax is None:
                        raise LayoutViolation("np.flip without axis also reverses the sample order")
                    oka, a = const_value(ax)
                    if not oka or a not in (1, -1):
                        raise LayoutViolation(f"np.flip along axis {src(ax)} reverses samples, not bit columns")
                return Val("rows", list(reversed(v.data)), dtype=v.dtype)
            if nm == "flipud" and args:
                raise LayoutViolation("flipud reverses the sample order")
            return Val("other", note=src(e))
        return Val("other", note=src(e))

    def run(self, fn_node: ast.FunctionDef) -> Val:
        for s in fn_node.body:
            if isinstance(s, ast.Expr) and isinstance(s.value, ast.Constant):
                continue
            if isinstance(s, ast.Assign) and len(s.targets) == 1 and isinstance(s.targets[0], ast.Name):
                self.env[s.targets[0].id] = self.ev(s.value)
            elif isinstance(s, ast.Return):
                return self.ev(s.value)
            else:
                raise AnalysisError(f"layout: statement not modelled: {src(s)[:60]}")
        raise AnalysisError("layout: no return")


def _is_full(e):
    return isinstance(e, ast.Slice) and e.lower is None and e.upper is None and e.step is None


def _is_reverse(e):
    return isinstance(e, ast.Slice) and e.lower is None and e.upper is None and isinstance(e.step, ast.UnaryOp) \
        and isinstance(e.step.operand, ast.Constant) and e.step.operand.value == 1


def _is_module(e):
    return isinstance(e, ast.Name) and e.id in ("np", "numpy", "gp", "cp")
