"""E0 - source model: modules, functions, import aliases, callee resolution, anchors.

Nothing from the repository is imported or executed; every fact comes from `ast.parse` of the
files on disk (or of in-memory override texts used by the checker self-test).
"""
from __future__ import annotations

import ast
import hashlib
import os
from dataclasses import dataclass, field
from typing import Dict, Iterable, Iterator, List, Optional, Tuple

REPO_ROOT = os.environ.get("VERIF_REPO", "/repo")
SRC_SUBDIR = "src"

# array-module aliases: numpy and its drop-in cupy stand-ins are one namespace for the rules
ARRAY_ALIASES = {"np": "numpy", "gp": "numpy", "cp": "numpy", "cupy": "numpy", "numpy": "numpy"}


class AnalysisError(Exception):
    """The checker cannot decide (anchor vanished, construct not understood). Exit code 2."""


class AnchorMissing(AnalysisError):
    pass


@dataclass
class FunctionInfo:
    qualname: str
    module: "Module"
    node: ast.AST  # FunctionDef / Lambda
    cls: Optional[str] = None  # enclosing class name
    parent: Optional["FunctionInfo"] = None  # enclosing function

    @property
    def params(self) -> List[str]:
        a = self.node.args
        return [x.arg for x in (a.posonlyargs + a.args + a.kwonlyargs)]

    @property
    def file(self) -> str:
        return self.module.relpath

    @property
    def lineno(self) -> int:
        return self.node.lineno

    def defaults(self) -> Dict[str, ast.AST]:
        a = self.node.args
        pos = a.posonlyargs + a.args
        out = {}
        for p, d in zip(pos[len(pos) - len(a.defaults):], a.defaults):
            out[p.arg] = d
        for p, d in zip(a.kwonlyargs, a.kw_defaults):
            if d is not None:
                out[p.arg] = d
        return out


@dataclass
class Module:
    name: str
    relpath: str
    source: str
    tree: ast.Module
    aliases: Dict[str, str] = field(default_factory=dict)  # local name -> dotted target
    parents: Dict[int, ast.AST] = field(default_factory=dict)

    def parent(self, node: ast.AST) -> Optional[ast.AST]:
        return self.parents.get(id(node))

    def ancestors(self, node: ast.AST) -> Iterator[ast.AST]:
        p = self.parent(node)
        while p is not None:
            yield p
            p = self.parent(p)


def _module_name(relpath: str) -> str:
    p = relpath[len(SRC_SUBDIR) + 1:] if relpath.startswith(SRC_SUBDIR + "/") else relpath
    p = p[:-3]
    parts = p.split("/")
    if parts[-1] == "__init__":
        parts = parts[:-1]
    return ".".join(parts)


class Repo:
    """Parsed view of the repository's library code (tests excluded)."""

    def __init__(self, root: str = None, overrides: Dict[str, str] = None):
        self.root = root or REPO_ROOT
        self.modules: Dict[str, Module] = {}
        self.functions: Dict[str, FunctionInfo] = {}
        self.classes: Dict[str, ast.ClassDef] = {}
        self.class_bases: Dict[str, List[str]] = {}
        self.class_attr_types: Dict[Tuple[str, str], str] = {}
        self.overrides = overrides or {}
        self._load()

    # ------------------------------------------------------------------ loading
    def _iter_files(self) -> Iterable[str]:
        src = os.path.join(self.root, SRC_SUBDIR)
        for dirpath, dirnames, filenames in os.walk(src):
            dirnames[:] = sorted(d for d in dirnames if d not in ("tests", "__pycache__") and not d.endswith(".egg-info"))
            for fn in sorted(filenames):
                if fn.endswith(".py"):
                    yield os.path.relpath(os.path.join(dirpath, fn), self.root)

    def _load(self):
        for rel in self._iter_files():
            if rel in self.overrides:
                text = self.overrides[rel]
            else:
                with open(os.path.join(self.root, rel), "rb") as f:
                    text = f.read().decode("utf-8").replace("\r\n", "\n")
            try:
                tree = ast.parse(text, filename=rel)
            except SyntaxError as e:  # a file of the library that does not parse: nothing can be decided
                raise AnalysisError(f"{rel} does not parse: {e}")
            m = Module(_module_name(rel), rel, text, tree)
            for parent in ast.walk(tree):
                for child in ast.iter_child_nodes(parent):
                    m.parents[id(child)] = parent
            self._collect_aliases(m)
            self.modules[m.name] = m
        for m in self.modules.values():
            self._collect_defs(m, m.tree, prefix=m.name, cls=None, parent=None)
        self._normalise_pre()
        self._apply_roles()
        self._normalise_post()
        self._collect_attr_types()

    def _normalise_pre(self):
        """sa/normalize.py passes 1+2: inline helpers the pinned tree does not have, canonical dict loops (in-memory AST only)."""
        from . import normalize as N
        self.normalised: Dict[str, List[str]] = {}
        if os.environ.get("VERIF_NO_NORMALIZE") or not N.vocab()["functions"]:
            return
        mc = N.inline_new_module_constants(self)
        if mc:
            self.normalised["inlined module constants"] = mc
        for m in self.modules.values():
            if N.canonical_idioms(m.tree):
                self.normalised.setdefault("idioms", []).append(m.name)
        for q, fi in self.functions.items():
            if isinstance(fi.node, ast.FunctionDef) and N.distribute_ifexp_returns(fi.node):
                self.normalised.setdefault("conditional returns", []).append(q)
        pr = N.inline_new_properties(self)
        if pr:
            self.normalised["inlined new properties in"] = pr
        done = N.inline_new_helpers(self)
        if done:
            self.normalised["inlined helpers"] = done
        cms = N.inline_new_context_managers(self)
        if cms:
            self.normalised["inlined context managers"] = cms
        for q, fi in self.functions.items():
            if isinstance(fi.node, ast.FunctionDef) and N.canonical_dict_loops(fi.node):
                self.normalised.setdefault("dict loops", []).append(q)

    def _resolve_roles_of(self, q, fi):
        from .roles import resolve_function
        from .role_table import R
        if q in R:
            un = resolve_function(fi.node, R[q])
            if un:
                self.unresolved[q] = un
            else:
                self.unresolved.pop(q, None)

    def _normalise_post(self):
        """sa/normalize.py pass 3 (after role resolution, so canonical spellings are known), then roles once more."""
        from . import normalize as N
        if os.environ.get("VERIF_NO_NORMALIZE") or not N.vocab()["functions"]:
            return
        any_ = False
        for q, fi in self.functions.items():
            if isinstance(fi.node, ast.FunctionDef):
                try:
                    names = N.inline_new_locals(q, fi.node, on_change=(lambda f=fi, q=q: self._resolve_roles_of(q, f)))
                except AnalysisError:
                    names = []
                if names:
                    self.normalised[f"inlined locals {q}"] = names
                    any_ = True
                    N.fuse_comprehensions(fi.node)
                    if N.distribute_ifexp_returns(fi.node):
                        self.normalised.setdefault("conditional returns", []).append(q)
        if any_:
            self._apply_roles()

    def _apply_roles(self):
        """Map differently spelled locals back to the canonical spelling the rules use (sa/roles.py); in-memory AST only."""
        from .roles import resolve_function
        from .role_table import R
        self.unresolved: Dict[str, List[str]] = {}
        for q in sorted(R, key=lambda x: (x.count("."), x)):
            fi = self.functions.get(q)
            if fi is None:
                continue
            un = resolve_function(fi.node, R[q])
            if un:
                self.unresolved[q] = un
        # parents maps were built before renaming: Name nodes were replaced, rebuild them
        for m in self.modules.values():
            m.parents.clear()
            for parent in ast.walk(m.tree):
                for child in ast.iter_child_nodes(parent):
                    m.parents[id(child)] = parent

    def digest(self) -> str:
        h = hashlib.sha256()
        for name in sorted(self.modules):
            h.update(name.encode())
            h.update(self.modules[name].source.encode())
        return h.hexdigest()[:16]

    def _collect_aliases(self, m: Module):
        pkg = m.name.rsplit(".", 1)[0] if "." in m.name else ""
        for node in ast.walk(m.tree):
            if isinstance(node, ast.Import):
                for a in node.names:
                    local = a.asname or a.name.split(".")[0]
                    target = a.name if a.asname else a.name.split(".")[0]
                    m.aliases.setdefault(local, target)
            elif isinstance(node, ast.ImportFrom):
                base = node.module or ""
                if node.level:
                    up = m.name.split(".")[: -node.level]
                    base = ".".join(up + ([base] if base else []))
                for a in node.names:
                    m.aliases.setdefault(a.asname or a.name, f"{base}.{a.name}" if base else a.name)
        _ = pkg

    def _collect_defs(self, m: Module, node: ast.AST, prefix: str, cls: Optional[str], parent: Optional[FunctionInfo]):
        for child in ast.iter_child_nodes(node):
            if isinstance(child, (ast.FunctionDef, ast.AsyncFunctionDef)):
                q = f"{prefix}.{child.name}"
                # property setters etc. would collide; the repo has none, keep first
                fi = FunctionInfo(q, m, child, cls=cls, parent=parent)
                self.functions.setdefault(q, fi)
                self._collect_defs(m, child, q, cls, fi)
            elif isinstance(child, ast.ClassDef):
                q = f"{prefix}.{child.name}"
                self.classes[q] = child
                self.class_bases[q] = [ast.unparse(b) for b in child.bases]
                self._collect_defs(m, child, q, child.name, parent)
            elif isinstance(child, (ast.If, ast.For, ast.While, ast.With, ast.Try)):
                self._collect_defs(m, child, prefix, cls, parent)

    def _collect_attr_types(self):
        """self.X = <Call to a repo class>  ->  (class qualname, X) : class qualname of the value."""
        for q, fi in self.functions.items():
            if not fi.cls:
                continue
            clsq = q.rsplit(".", 1)[0]
            while clsq not in self.classes and "." in clsq:
                clsq = clsq.rsplit(".", 1)[0]
            for node in ast.walk(fi.node):
                if isinstance(node, ast.Assign) and isinstance(node.value, ast.Call):
                    t = self.resolve_expr(fi, node.value.func, shallow=True)
                    if t in self.classes:
                        for tgt in node.targets:
                            if isinstance(tgt, ast.Attribute) and isinstance(tgt.value, ast.Name) and tgt.value.id == "self":
                                self.class_attr_types[(clsq, tgt.attr)] = t

    # ------------------------------------------------------------------ lookup
    def fn(self, qualname: str) -> FunctionInfo:
        fi = self.functions.get(qualname)
        if fi is None:
            raise AnchorMissing(f"anchor function {qualname} not found in {self.root}/{SRC_SUBDIR}")
        return fi

    def has_fn(self, qualname: str) -> bool:
        return qualname in self.functions

    def module(self, name: str) -> Module:
        m = self.modules.get(name)
        if m is None:
            raise AnchorMissing(f"anchor module {name} not found")
        return m

    def class_of(self, fi: FunctionInfo) -> Optional[str]:
        if not fi.cls:
            return None
        q = fi.qualname
        while q and q not in self.classes:
            q = q.rsplit(".", 1)[0] if "." in q else ""
        return q or None

    def method(self, clsq: str, name: str) -> Optional[str]:
        """Resolve a method through the (single-module, by-name) base-class chain."""
        seen = set()
        while clsq and clsq not in seen:
            seen.add(clsq)
            q = f"{clsq}.{name}"
            if q in self.functions:
                return q
            bases = self.class_bases.get(clsq, [])
            nxt = None
            for b in bases:
                mod = clsq.rsplit(".", 1)[0]
                cand = f"{mod}.{b}"
                if cand in self.classes:
                    nxt = cand
                    break
            clsq = nxt
        return None

    def local_types(self, fi: FunctionInfo) -> Dict[str, str]:
        """v = <Call to a repo class> inside fi (flow-insensitive; only when unambiguous)."""
        out: Dict[str, Optional[str]] = {}
        for node in ast.walk(fi.node):
            if isinstance(node, ast.Assign) and len(node.targets) == 1 and isinstance(node.targets[0], ast.Name):
                name = node.targets[0].id
                t = None
                if isinstance(node.value, ast.Call):
                    t = self.resolve_expr(fi, node.value.func, shallow=True)
                    if t not in self.classes:
                        t = None
                if name in out and out[name] != t:
                    out[name] = None
                else:
                    out[name] = t
            elif isinstance(node, ast.withitem) and isinstance(node.optional_vars, ast.Name) and isinstance(node.context_expr, ast.Call):
                t = self.resolve_expr(fi, node.context_expr.func, shallow=True)
                if t in self.classes:
                    out[node.optional_vars.id] = t
        return {k: v for k, v in out.items() if v}

    def resolve_expr(self, fi: FunctionInfo, expr: ast.AST, shallow: bool = False) -> Optional[str]:
        """Dotted target of a Name/Attribute expression as seen from function `fi`.

        numpy/cupy aliases collapse to 'numpy'.  self.m -> method qualname.  Constructor-typed
        locals and attributes resolve through their class.  Unknown -> best-effort dotted text.
        """
        chain: List[str] = []
        cur = expr
        while isinstance(cur, ast.Attribute):
            chain.append(cur.attr)
            cur = cur.value
        if isinstance(cur, ast.Call) and not chain:
            return None
        if not isinstance(cur, ast.Name):
            # e.g. (a + b).astype, x[...].T, call().method : keep only the method tail
            return ".".join(["<expr>"] + list(reversed(chain))) if chain else None
        chain.append(cur.id)
        chain.reverse()
        root = chain[0]
        m = fi.module
        clsq = self.class_of(fi)
        # self.method / self.attr.method
        if root == "self" and clsq:
            if len(chain) == 2:
                q = self.method(clsq, chain[1])
                return q or f"{clsq}.{chain[1]}"
            if len(chain) >= 3:
                t = self.class_attr_types.get((clsq, chain[1]))
                if t:
                    rest = chain[2:]
                    q = self.method(t, rest[0])
                    if q and len(rest) == 1:
                        return q
                    return ".".join([t] + rest)
            return ".".join(chain)
        # nested function of an enclosing function, visible by name
        if len(chain) == 1:
            p = fi
            while p is not None:
                q = f"{p.qualname}.{root}"
                if q in self.functions:
                    return q
                p = p.parent
            q = f"{m.name}.{root}"
            if q in self.functions or q in self.classes:
                return q
        if not shallow and len(chain) >= 2:
            lt = self.local_types(fi)
            if root in lt:
                q = self.method(lt[root], chain[1])
                if q and len(chain) == 2:
                    return q
                return ".".join([lt[root]] + chain[1:])
        if root in ARRAY_ALIASES and (root not in m.aliases or m.aliases[root] in ("numpy", "cupy")):
            return ".".join(["numpy"] + chain[1:])
        if root in m.aliases:
            tgt = m.aliases[root]
            full = ".".join([tgt] + chain[1:])
            if full.split(".")[0] in ("numpy", "cupy"):
                return "numpy." + ".".join(full.split(".")[1:]) if "." in full else "numpy"
            return full
        return ".".join(chain)

    def resolve_call(self, fi: FunctionInfo, call: ast.Call) -> Optional[str]:
        return self.resolve_expr(fi, call.func)

    # ------------------------------------------------------------------ iteration helpers
    def calls_in(self, fi: FunctionInfo, include_nested: bool = False) -> Iterator[Tuple[ast.Call, Optional[str]]]:
        for node in walk_function(fi.node, include_nested=include_nested):
            if isinstance(node, ast.Call):
                yield node, self.resolve_call(fi, node)

    def enclosing_function(self, m: Module, node: ast.AST) -> Optional[FunctionInfo]:
        for a in m.ancestors(node):
            if isinstance(a, (ast.FunctionDef, ast.AsyncFunctionDef)):
                for fi in self.functions.values():
                    if fi.node is a:
                        return fi
        return None


def walk_function(fn_node: ast.AST, include_nested: bool = False) -> Iterator[ast.AST]:
    """ast.walk limited to the function's own body (nested defs/lambdas/classes skipped unless asked)."""
    body = fn_node.body if isinstance(fn_node.body, list) else [fn_node.body]
    stack = list(reversed(body))
    while stack:
        n = stack.pop()
        yield n
        if not include_nested and isinstance(n, (ast.FunctionDef, ast.AsyncFunctionDef, ast.ClassDef, ast.Lambda)):
            continue  # the nested definition itself is a statement of this body; its inside is another scope
        for c in reversed(list(ast.iter_child_nodes(n))):
            stack.append(c)
    # default expressions and decorators belong to the enclosing scope: not visited here


def const_value(node: ast.AST):
    """Fold a literal / simple constant expression; returns (ok, value)."""
    try:
        return True, ast.literal_eval(node)
    except Exception:
        pass
    if isinstance(node, ast.UnaryOp) and isinstance(node.op, ast.USub):
        ok, v = const_value(node.operand)
        if ok and isinstance(v, (int, float)):
            return True, -v
    if isinstance(node, ast.BinOp):
        ok1, a = const_value(node.left)
        ok2, b = const_value(node.right)
        if ok1 and ok2 and isinstance(a, (int, float)) and isinstance(b, (int, float)):
            try:
                if isinstance(node.op, ast.Add):
                    return True, a + b
                if isinstance(node.op, ast.Sub):
                    return True, a - b
                if isinstance(node.op, ast.Mult):
                    return True, a * b
                if isinstance(node.op, ast.Div):
                    return True, a / b
                if isinstance(node.op, ast.FloorDiv):
                    return True, a // b
                if isinstance(node.op, ast.Pow):
                    return True, a ** b
            except Exception:
                return False, None
    return False, None


def src(node: ast.AST) -> str:
    try:
        return ast.unparse(node)
    except Exception:
        return f"<{type(node).__name__}>"


def loc(fi: FunctionInfo, node: ast.AST = None) -> str:
    ln = getattr(node, "lineno", None) or fi.lineno
    return f"{fi.file}:{ln}"
