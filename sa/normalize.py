"""Normalisation of the analysed tree *towards the vocabulary of the pinned tree* (in-memory AST only).

The rules are written against the functions and local names of the pinned tree (frozen in sa/vocab.json by
tools/gen_vocab.py).  A behaviour-preserving clean-up typically introduces vocabulary the rules do not know: a new private
helper holding an extracted block, a new temporary holding a hoisted sub-expression, a loop over `d.values()` instead of
`d.keys()`.  Each of the three passes below undoes one of these, by a transformation that preserves semantics:

1. `inline_new_helpers`  - a call to a function that does not exist in the pinned tree is replaced by the callee's body
   (tail call `return f(..)`, statement `targets = f(..)` / `f(..)` with a straight-line callee, or an expression call of a
   single-`return` callee), parameters substituted, callee locals renamed on clashes.
2. `canonical_dict_loops` - `for v in D.values()` / `for k, v in D.items()` (also under enumerate) become loops over
   `D.keys()` with `v` replaced by `D[k]`.
3. `inline_new_locals`   - a local that does not exist in the pinned function, is assigned exactly once with a pure
   expression, is never mutated, dominates its uses and whose operands are not redefined in between, is substituted into
   its uses.

Anything that does not meet a pass's side conditions is left alone (the rules then either still recognise the code, or
report an analysis error - never a violation because of it, see sa/roles.py for the trust policy).
"""
from __future__ import annotations

import ast
import copy
import json
import os
from typing import Dict, List, Optional, Set

from .roles import bound_names, own_statements, _walk_no_nested

VOCAB_FILE = os.path.join(os.path.dirname(os.path.abspath(__file__)), "vocab.json")
_VOCAB = None

IMPURE_CALLS = {"open", "next", "pop", "popitem", "unlink", "tofile", "write", "read", "readline", "remove", "rename", "mkdir", "seek", "append", "extend",
                "update", "sort", "put", "copyto", "fill", "choice", "random", "randn", "randint", "default_rng", "time", "input", "close", "compress_file",
                "decompress_file", "compress", "decompress", "load", "save", "savez", "memmap", "open_memmap", "warning", "info", "error", "print", "setdefault",
                "send", "Parallel", "delayed", "Reader"}


def vocab() -> Dict:
    global _VOCAB
    if _VOCAB is None:
        if os.path.exists(VOCAB_FILE):
            with open(VOCAB_FILE) as f:
                _VOCAB = json.load(f)
        else:
            _VOCAB = {"functions": [], "locals": {}}
    return _VOCAB


# ------------------------------------------------------------------------------------------------ helpers
class _Subst(ast.NodeTransformer):
    """Replace loads of given names by expressions (deep copies); nested scopes that rebind a name are left alone."""

    def __init__(self, mapping: Dict[str, ast.AST]):
        self.mapping = mapping
        self.blocked: List[Set[str]] = []

    def visit_Name(self, node):
        if isinstance(node.ctx, ast.Load) and node.id in self.mapping and not any(node.id in b for b in self.blocked):
            return ast.copy_location(copy.deepcopy(self.mapping[node.id]), node)
        return node

    def _scope(self, node):
        if isinstance(node, ast.Lambda):
            rebinds = {a.arg for a in node.args.args}
        else:
            rebinds = bound_names(node)
        self.blocked.append(rebinds & set(self.mapping))
        node = self.generic_visit(node)
        self.blocked.pop()
        return node

    visit_FunctionDef = visit_AsyncFunctionDef = visit_Lambda = _scope

    def _comp(self, node):
        targets = set()
        for g in node.generators:
            for n in ast.walk(g.target):
                if isinstance(n, ast.Name):
                    targets.add(n.id)
        self.blocked.append(targets & set(self.mapping))
        node = self.generic_visit(node)
        self.blocked.pop()
        return node

    visit_ListComp = visit_SetComp = visit_DictComp = visit_GeneratorExp = _comp


class _Rename(ast.NodeTransformer):
    def __init__(self, mapping: Dict[str, str]):
        self.mapping = mapping

    def visit_Name(self, node):
        if node.id in self.mapping:
            return ast.copy_location(ast.Name(id=self.mapping[node.id], ctx=node.ctx), node)
        return node

    def visit_arg(self, node):
        return node


def _is_simple(e: ast.AST) -> bool:
    if isinstance(e, (ast.Name, ast.Constant)):
        return True
    if isinstance(e, ast.Attribute):
        return _is_simple(e.value)
    return False


_PURE_NS = ("np", "numpy", "scipy", "cp", "cupy", "math")
_ALIASING_CALLS = {"asarray", "asanyarray", "atleast_1d", "atleast_2d", "atleast_3d", "reshape", "ravel", "squeeze", "transpose", "swapaxes", "moveaxis",
                   "real", "imag", "view", "expand_dims", "broadcast_to", "diagonal", "array_split", "split", "hsplit", "vsplit", "frombuffer", "rollaxis",
                   "put", "copyto", "place", "putmask", "shuffle", "fill", "nan_to_num", "array", "require", "ascontiguousarray", "flip", "flipud", "fliplr"}
_PURE_BUILTINS = {"len", "int", "float", "abs", "min", "max", "sum", "range", "slice", "str", "bool", "round", "isinstance", "list", "tuple", "sorted", "any",
                  "all", "repr", "format", "divmod", "enumerate", "zip", "set", "dict", "print"}
_VALUE_ATTRS = {"shape", "size", "ndim", "dtype", "nbytes", "itemsize"}
_FRESH_METHODS = {"astype", "copy", "sum", "mean", "max", "min", "any", "all", "std", "var", "argmax", "argmin", "argsort", "tolist", "item", "nonzero", "cumsum",
                  "prod", "round", "dot", "conj", "tobytes", "with_suffix", "joinpath", "exists", "is_file", "split", "replace", "strip", "startswith",
                  "endswith", "format", "count", "index", "keys", "values", "items", "get"}


_SCALAR_BUILTINS = {"min", "max", "int", "len", "float", "round", "abs", "bool", "str", "slice", "range", "isinstance", "divmod", "repr", "format"}


def _immutable_value(e: ast.AST) -> bool:
    """The expression evaluates to an immutable object (number, string, bool, slice, tuple of those) whatever its operands
    are: duplicating its evaluation cannot be observed through object identity."""
    if isinstance(e, ast.Constant):
        return True
    if isinstance(e, ast.Call) and isinstance(e.func, ast.Name) and e.func.id in _SCALAR_BUILTINS:
        return True
    if isinstance(e, (ast.Compare, ast.JoinedStr)):
        return all(not isinstance(x, ast.Call) or _immutable_value(x) or True for x in [e]) and not any(isinstance(n, ast.Subscript) for n in [e]) and _scalar_operands(e)
    if isinstance(e, ast.Attribute) and e.attr in ("size", "ndim", "dtype", "shape", "nbytes", "itemsize", "name", "suffix", "stem"):
        return True
    if isinstance(e, ast.Subscript) and isinstance(e.value, ast.Attribute) and e.value.attr == "shape":
        return True
    if isinstance(e, ast.BinOp):
        return _immutable_value(e.left) and _immutable_value(e.right)
    if isinstance(e, ast.UnaryOp):
        return _immutable_value(e.operand)
    if isinstance(e, ast.Tuple):
        return all(_immutable_value(x) for x in e.elts)
    if isinstance(e, ast.IfExp):
        return _immutable_value(e.body) and _immutable_value(e.orelse)
    return False


def _scalar_operands(e: ast.AST) -> bool:
    # a comparison of arrays yields an array (fresh, but mutable): only comparisons of immutable values are immutable
    if isinstance(e, ast.Compare):
        return _immutable_value(e.left) and all(_immutable_value(c) for c in e.comparators)
    return True


def _root_name(f: ast.AST) -> Optional[str]:
    while isinstance(f, ast.Attribute):
        f = f.value
    return f.id if isinstance(f, ast.Name) else None


def _is_one_dim(e: ast.AST) -> bool:
    """Is the value of e certainly a 1-D array?  (np.unique / np.flatnonzero / np.arange / .ravel() / .flatten() without axis.)"""
    if isinstance(e, ast.Call) and isinstance(e.func, ast.Attribute):
        if e.func.attr in ("unique", "sort") and _root_name(e.func) in _PURE_NS and not any(k.arg == "axis" for k in e.keywords) and len(e.args) == 1:
            return e.func.attr == "unique" or _is_one_dim(e.args[0])
        if e.func.attr in ("arange", "flatnonzero") and _root_name(e.func) in _PURE_NS:
            return True
        if e.func.attr in ("ravel", "flatten") and not e.args:
            return True
    return False


def _consumed_read_only(node: ast.AST, parents: Dict[int, ast.AST], one_dim: bool = False) -> bool:
    """Is this read of a freshly created object consumed by an operation that neither keeps a reference to it (or to a view
    of it) nor modifies it?  (arithmetic / comparison operand, index position, argument of a numpy / scipy / builtin function
    that returns a new object, `.astype()`-like methods, `.shape`-like attributes.)"""
    cur = node
    while True:
        par = parents.get(id(cur))
        if par is None:
            return False
        if isinstance(par, (ast.BinOp, ast.UnaryOp, ast.Compare, ast.BoolOp, ast.JoinedStr, ast.FormattedValue)):
            return True
        if isinstance(par, (ast.comprehension, ast.For)) and cur is par.iter:
            return True  # iterated over
        if isinstance(par, ast.IfExp):
            if cur is par.test:
                return True
            return False
        if isinstance(par, ast.keyword) and par.arg in ("out", "where_out", "dst"):
            return False  # the object is written through (ufunc out= argument)
        if isinstance(par, (ast.Tuple, ast.List, ast.Starred, ast.keyword, ast.Slice)):
            cur = par
            continue
        if isinstance(par, ast.Subscript):
            if cur is par.slice:
                # indexing *by* the object; fancy-index stores through it do not modify it
                return True
            if isinstance(par.ctx, ast.Load):
                if one_dim and cur is node and not any(isinstance(x, ast.Slice) for x in ast.walk(par.slice)) and not isinstance(par.slice, ast.Tuple):
                    return True  # element(s) of a 1-D array picked by an integer / integer-array index: a scalar or a copy, never a view
                cur = par  # a view of the object: judged by what consumes the view
                continue
            return False
        if isinstance(par, ast.Attribute):
            if par.attr in _VALUE_ATTRS:
                return True
            gp = parents.get(id(par))
            if isinstance(gp, ast.Call) and gp.func is par:
                return par.attr in _FRESH_METHODS
            if par.attr == "T" and isinstance(par.ctx, ast.Load):
                cur = par
                continue
            return False
        if isinstance(par, ast.Call):
            if cur is par.func:
                return False
            f = par.func
            if isinstance(f, ast.Name):
                return f.id in _PURE_BUILTINS
            if isinstance(f, ast.Attribute) and _root_name(f) in _PURE_NS:
                return f.attr not in _ALIASING_CALLS
            if isinstance(f, ast.Subscript) and isinstance(f.value, ast.Attribute) and _root_name(f.value) in _PURE_NS:
                return True  # np.r_[...] / np.c_[...]
            return False
        if isinstance(par, ast.Index if hasattr(ast, "Index") else ()):
            cur = par
            continue
        return False


def _effects_between(fn_node, def_stmt: ast.stmt, use_nodes, operands) -> bool:
    """Could a statement executed between the definition and a use act on an operand of the defining expression (a call
    that receives it, or a method called on it)?  Statements are taken in source order between definition and the last use;
    if a use precedes the definition in source order (loop), every statement of the function counts."""
    lo = getattr(def_stmt, "end_lineno", def_stmt.lineno)
    use_lines = [getattr(u, "lineno", lo) for u in use_nodes]
    if not use_lines:
        return False
    whole = min(use_lines) <= def_stmt.lineno
    hi = max(use_lines)
    names = {o for o in operands if o.isidentifier()} - {"np", "numpy", "scipy", "cp", "self", "math"}
    attrs = {o for o in operands if not o.isidentifier()}

    def touches(e: ast.AST) -> bool:
        for n in ast.walk(e):
            if isinstance(n, ast.Name) and n.id in names:
                return True
            if isinstance(n, ast.Attribute) and ast.unparse(n) in attrs:
                return True
        return False

    for st in own_statements(fn_node):
        if st is def_stmt or isinstance(st, (ast.FunctionDef, ast.ClassDef)):
            continue
        if not whole and not (lo < st.lineno < hi):
            continue
        heads = []
        for fld, val in ast.iter_fields(st):
            if fld in ("body", "orelse", "finalbody", "handlers"):
                continue
            if isinstance(val, ast.AST):
                heads.append(val)
            elif isinstance(val, list):
                heads += [x for x in val if isinstance(x, ast.AST)]
        for h in heads:
            for c in ast.walk(h):
                if not isinstance(c, ast.Call):
                    continue
                f = c.func
                pure = (isinstance(f, ast.Name) and f.id in _PURE_BUILTINS) or \
                    (isinstance(f, ast.Attribute) and _root_name(f) in _PURE_NS and f.attr not in ("put", "copyto", "place", "putmask", "shuffle", "fill"))
                if isinstance(f, ast.Attribute) and not pure and _root_name(f) not in _PURE_NS:
                    # method call on an operand (x.sort(), self.sr.close()): reading methods are fine
                    if touches(f.value) and f.attr not in _FRESH_METHODS and f.attr not in ("reshape", "ravel", "view", "T", "info", "debug", "warning"):
                        return True
                if not pure and any(touches(a) for a in list(c.args) + [k.value for k in c.keywords]):
                    return True
    return False


def _heads(st: ast.stmt) -> List[ast.AST]:
    """The expressions a statement evaluates itself (not the statements nested in it)."""
    out = []
    for fld, val in ast.iter_fields(st):
        if fld in ("body", "orelse", "finalbody", "handlers"):
            continue
        if isinstance(val, ast.AST):
            out.append(val)
        elif isinstance(val, list):
            out += [x for x in val if isinstance(x, ast.AST)]
    return out


def _only_iterated(fn_node, v: str) -> bool:
    """Every read of `v` is the iterable of a comprehension generator."""
    iters = set()
    for n in ast.walk(fn_node):
        if isinstance(n, ast.comprehension) and isinstance(n.iter, ast.Name) and n.iter.id == v:
            iters.add(id(n.iter))
    for n in ast.walk(fn_node):
        if isinstance(n, ast.Name) and n.id == v and isinstance(n.ctx, ast.Load) and id(n) not in iters:
            return False
    return bool(iters)


def fuse_comprehensions(fn_node) -> int:
    """[f(x) for x in [g(y) for y in L]]  ->  [f(g(y)) for y in L]   (single generators, no conditions, no capture)."""
    n = 0
    for _ in range(8):
        hit = False
        for outer in ast.walk(fn_node):
            if not isinstance(outer, (ast.ListComp, ast.GeneratorExp, ast.SetComp)) or len(outer.generators) != 1:
                continue
            g = outer.generators[0]
            inner = g.iter
            if not isinstance(inner, ast.ListComp) or len(inner.generators) != 1 or inner.generators[0].ifs or g.is_async or not isinstance(g.target, ast.Name):
                continue
            ig = inner.generators[0]
            inner_names = {x.id for x in ast.walk(ig.target) if isinstance(x, ast.Name)}
            outer_free = {x.id for x in ast.walk(outer.elt) if isinstance(x, ast.Name)} | {x.id for c in g.ifs for x in ast.walk(c) if isinstance(x, ast.Name)}
            if inner_names & (outer_free - {g.target.id}):
                continue
            sub = _Subst({g.target.id: inner.elt})
            outer.elt = sub.visit(outer.elt)
            new_ifs = [sub.visit(c) for c in g.ifs]
            outer.generators = [ast.comprehension(target=ig.target, iter=ig.iter, ifs=new_ifs, is_async=0)]
            ast.fix_missing_locations(outer)
            n += 1
            hit = True
            break
        if not hit:
            break
    return n


def _is_path(e: ast.AST) -> bool:
    """Name / attribute / subscript chain with name or constant indices (evaluating it twice yields the same object)."""
    if isinstance(e, ast.Name):
        return True
    if isinstance(e, ast.Attribute):
        return _is_path(e.value)
    if isinstance(e, ast.Subscript):
        return _is_path(e.value) and isinstance(e.slice, (ast.Name, ast.Constant))
    return False


def _has_impure_call(e: ast.AST) -> bool:
    for n in ast.walk(e):
        if isinstance(n, (ast.Yield, ast.YieldFrom, ast.Await, ast.NamedExpr)):
            return True
        if isinstance(n, ast.Call):
            f = n.func
            nm = f.attr if isinstance(f, ast.Attribute) else f.id if isinstance(f, ast.Name) else ""
            if nm in IMPURE_CALLS:
                return True
    return False


def _replace_stmt(fn_node, old: ast.stmt, new: List[ast.stmt]) -> bool:
    """Replace statement `old` (by identity) with the list `new` anywhere in fn_node's own statement lists."""
    for holder in ast.walk(fn_node):
        for fld in ("body", "orelse", "finalbody"):
            lst = getattr(holder, fld, None)
            if isinstance(lst, list):
                for i, s in enumerate(lst):
                    if s is old:
                        lst[i:i + 1] = new if (new or len(lst) > 1) else [ast.copy_location(ast.Pass(), old)]
                        return True
    return False


def _bind_args(call: ast.Call, callee: ast.FunctionDef, is_method: bool):
    """param -> argument expression, or None if the call cannot be bound statically."""
    a = callee.args
    if a.vararg or any(isinstance(x, ast.Starred) for x in call.args):
        return None
    if not a.kwarg and any(k.arg is None for k in call.keywords):
        return None
    pos = [x.arg for x in a.posonlyargs + a.args]
    if is_method and pos and pos[0] == "self":
        pos = pos[1:]
    kwonly = [x.arg for x in a.kwonlyargs]
    out: Dict[str, ast.AST] = {}
    if len(call.args) > len(pos):
        return None
    for p, arg in zip(pos, call.args):
        out[p] = arg
    extras: List[ast.keyword] = []
    for k in call.keywords:
        if k.arg is None or (a.kwarg and k.arg not in pos + kwonly):
            # collected by the callee's **kwargs: only forwarded verbatim (see _spread_kwargs)
            if not a.kwarg or not _is_simple(k.value):
                return None
            extras.append(k)
            continue
        if k.arg in out or k.arg not in pos + kwonly:
            return None
        out[k.arg] = k.value
    if a.kwarg:
        out["**" + a.kwarg.arg] = extras
    allpos = a.posonlyargs + a.args
    defaults = dict(zip([x.arg for x in allpos[len(allpos) - len(a.defaults):]], a.defaults))
    for p, d in zip(kwonly, a.kw_defaults):
        if d is not None:
            defaults[p] = d
    for p in pos + kwonly:
        if p not in out:
            if p not in defaults:
                return None
            out[p] = defaults[p]
    return out


# ------------------------------------------------------------------------------------------------ pass 1
def inline_new_helpers(repo, max_rounds: int = 3) -> List[str]:
    """Inline calls to functions absent from the pinned vocabulary.  Returns the qualified names that were inlined."""
    known = set(vocab()["functions"])
    if not known:
        return []
    done: List[str] = []
    for _ in range(max_rounds):
        # a decorated function (memoised, jitted, property ..) is not its body: never inlined
        new_fns = {q: fi for q, fi in repo.functions.items() if q not in known and isinstance(fi.node, ast.FunctionDef)
                   and all(isinstance(d, ast.Name) and d.id == "staticmethod" for d in fi.node.decorator_list)}
        if not new_fns:
            break
        changed = False
        for q, caller in list(repo.functions.items()):
            if q in new_fns or not isinstance(caller.node, ast.FunctionDef):
                continue
            for st in list(own_statements(caller.node)):
                call, form = None, None
                if isinstance(st, ast.Return) and isinstance(st.value, ast.Call):
                    call, form = st.value, "return"
                elif isinstance(st, ast.Assign) and isinstance(st.value, ast.Call):
                    call, form = st.value, "assign"
                elif isinstance(st, ast.Expr) and isinstance(st.value, ast.Call):
                    call, form = st.value, "expr"
                target_q = repo.resolve_call(caller, call) if call is not None else None
                if target_q in new_fns and target_q != q:
                    if _inline_statement_call(repo, caller, st, call, form, new_fns[target_q]):
                        done.append(target_q)
                        changed = True
                        continue
                # expression-position calls of single-return helpers
                for sub in list(ast.walk(st)):
                    if isinstance(sub, ast.Call) and sub is not call:
                        tq = repo.resolve_call(caller, sub)
                        if tq in new_fns and tq != q and (_inline_expression_call(caller, st, sub, new_fns[tq]) or
                                                          (not _is_generator(new_fns[tq].node) and _hoist_call(caller, st, sub))):
                            done.append(tq)
                            changed = True
                            break
        if not changed:
            break
    return sorted(set(done))


def _is_generator(fn_node) -> bool:
    return any(isinstance(n, (ast.Yield, ast.YieldFrom)) for n in _walk_no_nested(fn_node))


def _callee_parts(callee_fi):
    body = [s for s in callee_fi.node.body if not (isinstance(s, ast.Expr) and isinstance(s.value, ast.Constant))]
    return body


def _live_after(fn_node, st: ast.stmt, name: str) -> bool:
    """May `name` be read after statement `st` before it is rebound?  (CFG reachability avoiding strong definitions.)"""
    from .defuse import DefUse
    du = DefUse(fn_node)
    cfg = du.cfg
    start = cfg.node_for(st)
    if start is None:
        return True
    killers = [d.node for d in du.defs if d.var == name and d.kind not in ("mutate", "param") and d.node.id != start.id]
    kill_ids = {k.id for k in killers}
    seen = set()
    stack = [t for t, _ in cfg.succ[start.id]]
    while stack:
        i = stack.pop()
        if i in seen:
            continue
        seen.add(i)
        node = cfg.nodes[i]
        if any(nm == name or nm.startswith(name + "[") or nm.startswith(name + ".") for nm, _ in du.loads_in(node)):
            return True
        if i in kill_ids:
            continue
        stack.extend(t for t, _ in cfg.succ[i])
    return False


def _spread_kwargs(body: List[ast.stmt], name: str, extras: List[ast.keyword]) -> Optional[List[ast.stmt]]:
    """The callee's `**name` parameter may only be forwarded (`f(..., **name)`); each such use is replaced by the keywords
    the call site supplied.  Any other use of `name` (lookup, mutation, truth test) -> None (not inlined)."""
    spread = set()
    for s in body:
        for n in ast.walk(s):
            if isinstance(n, ast.Call):
                for k in n.keywords:
                    if k.arg is None and isinstance(k.value, ast.Name) and k.value.id == name:
                        spread.add(id(k.value))
    for s in body:
        for n in ast.walk(s):
            if isinstance(n, ast.Name) and n.id == name and id(n) not in spread:
                return None
    for s in body:
        for n in ast.walk(s):
            if isinstance(n, ast.Call):
                new_kw = []
                for k in n.keywords:
                    if k.arg is None and isinstance(k.value, ast.Name) and k.value.id == name:
                        new_kw.extend(copy.deepcopy(extras))
                    else:
                        new_kw.append(k)
                n.keywords = new_kw
    return body


def _prepare_body(caller_fi, call: ast.Call, callee_fi, st=None):
    callee = callee_fi.node
    if any(isinstance(n, (ast.Yield, ast.YieldFrom, ast.Global, ast.Nonlocal, ast.FunctionDef, ast.Lambda)) for s in callee.body for n in ast.walk(s)):
        return None
    is_method = isinstance(call.func, ast.Attribute) and isinstance(call.func.value, ast.Name) and call.func.value.id == "self" and bool(callee_fi.cls)
    if isinstance(call.func, ast.Attribute) and not is_method and callee_fi.cls:
        return None
    binding = _bind_args(call, callee, is_method)
    if binding is None:
        return None
    body = copy.deepcopy(_callee_parts(callee_fi))
    for kname in [k for k in binding if k.startswith("**")]:
        body = _spread_kwargs(body, kname[2:], binding.pop(kname))
        if body is None:
            return None
    caller_names = bound_names(caller_fi.node)
    callee_locals = bound_names(callee) - {a.arg for a in callee.args.posonlyargs + callee.args.args + callee.args.kwonlyargs}
    pre: List[ast.stmt] = []
    subst: Dict[str, ast.AST] = {}
    rename: Dict[str, str] = {}
    assigned_params = {n.id for s in callee.body for n in _walk_no_nested(s) if isinstance(n, ast.Name) and isinstance(n.ctx, ast.Store)}
    for p, arg in binding.items():
        if p in assigned_params or not _is_simple(arg):
            # the parameter is rebound in the callee, or the argument is a compound expression: bind it to a local first
            same = isinstance(arg, ast.Name) and arg.id == p
            overwritten = isinstance(st, ast.Assign) and any(isinstance(t, ast.Name) and t.id == p for t in st.targets)
            if same and p in assigned_params and st is not None and not overwritten and _live_after(caller_fi.node, st, p):
                same = False  # the callee rebinds its parameter; the caller still needs its own value afterwards
            free = p not in caller_names or (st is not None and not same and not _live_after(caller_fi.node, st, p)
                                            and not any(isinstance(n, ast.Name) and n.id == p for a2 in binding.values() for n in ast.walk(a2)))
            tmp = p if (same or free) else f"{p}__h"
            if not (isinstance(arg, ast.Name) and arg.id == tmp):
                pre.append(ast.copy_location(ast.Assign(targets=[ast.Name(id=tmp, ctx=ast.Store())], value=copy.deepcopy(arg)), call))
            if tmp != p:
                rename[p] = tmp
        else:
            subst[p] = arg
    # free names of the callee must mean the same thing at the call site (no capture by a caller local)
    params_all = {a.arg for a in callee.args.posonlyargs + callee.args.args + callee.args.kwonlyargs}
    free = {n.id for s2 in callee.body for n in ast.walk(s2) if isinstance(n, ast.Name) and isinstance(n.ctx, ast.Load)} - callee_locals - params_all
    nested_sibling = callee_fi.parent is not None and (caller_fi.parent is callee_fi.parent or caller_fi is callee_fi.parent)
    captured = free & caller_names
    if captured and not nested_sibling:
        return None
    if nested_sibling and caller_fi is not callee_fi.parent and (free & (caller_names - bound_names(callee_fi.parent.node))):
        return None
    st_targets = {n.id for t in st.targets for n in ast.walk(t) if isinstance(n, ast.Name) and isinstance(n.ctx, ast.Store)} if isinstance(st, ast.Assign) else set()
    if isinstance(st, ast.With):
        st_targets = {n.id for it in st.items if it.optional_vars is not None for n in ast.walk(it.optional_vars) if isinstance(n, ast.Name)}
    arg_names = {n.id for a2 in binding.values() for n in ast.walk(a2) if isinstance(n, ast.Name)}
    for loc in sorted(callee_locals):
        if loc in caller_names and loc not in binding:
            # same spelling in caller and callee: kept when the caller's variable is overwritten by the call statement or dead
            # after it (and no argument mentions it), else the callee's local is renamed
            caller_params = {a.arg for a in caller_fi.node.args.posonlyargs + caller_fi.node.args.args + caller_fi.node.args.kwonlyargs}
            harmless = loc not in arg_names and loc not in caller_params \
                and (loc in st_targets or (st is not None and not _live_after(caller_fi.node, st, loc)))
            if not harmless:
                rename[loc] = f"{loc}__h"
    # an argument substituted textually must not mention a name the inlined body assigns
    assigned_after = {rename.get(x, x) for x in (callee_locals | assigned_params)}
    for p2 in list(subst):
        if any(isinstance(n, ast.Name) and n.id in assigned_after for n in ast.walk(subst[p2])):
            arg = subst.pop(p2)
            tmp = p2 if p2 not in caller_names else f"{p2}__h"
            pre.append(ast.copy_location(ast.Assign(targets=[ast.Name(id=tmp, ctx=ast.Store())], value=copy.deepcopy(arg)), call))
            if tmp != p2:
                rename[p2] = tmp
    body = [_Subst(subst).visit(s) for s in body]
    body = _fold_constant_ifs(body)
    real_rename = {k: v for k, v in rename.items() if k != v}
    if real_rename:
        body = [_Rename(real_rename).visit(s) for s in body]
    for s in pre + body:
        ast.fix_missing_locations(s)
    return pre, body


def _const_truth(t: ast.AST) -> Optional[bool]:
    """Truth value of a test made of literals only (after a default / literal argument was substituted for a parameter)."""
    if isinstance(t, ast.Constant):
        return bool(t.value)
    if isinstance(t, ast.UnaryOp) and isinstance(t.op, ast.Not):
        v = _const_truth(t.operand)
        return None if v is None else not v
    if isinstance(t, ast.Compare) and len(t.ops) == 1 and isinstance(t.left, ast.Constant) and isinstance(t.comparators[0], ast.Constant):
        a, b, op = t.left.value, t.comparators[0].value, t.ops[0]
        if isinstance(op, ast.Is):
            return a is b if (a is None or b is None or isinstance(a, bool) or isinstance(b, bool)) else None
        if isinstance(op, ast.IsNot):
            return a is not b if (a is None or b is None or isinstance(a, bool) or isinstance(b, bool)) else None
        if isinstance(op, ast.Eq):
            return a == b
        if isinstance(op, ast.NotEq):
            return a != b
    if isinstance(t, ast.BoolOp):
        vs = [_const_truth(v) for v in t.values]
        if isinstance(t.op, ast.And):
            if any(v is False for v in vs):
                return False
            return True if all(v is True for v in vs) else None
        if any(v is True for v in vs):
            return True
        return False if all(v is False for v in vs) else None
    return None


def _fold_constant_ifs(stmts: List[ast.stmt]) -> List[ast.stmt]:
    out: List[ast.stmt] = []
    for s in stmts:
        if isinstance(s, ast.If):
            v = _const_truth(s.test)
            if v is not None:
                out.extend(_fold_constant_ifs(s.body if v else s.orelse))
                continue
            s.body = _fold_constant_ifs(s.body) or [ast.copy_location(ast.Pass(), s)]
            s.orelse = _fold_constant_ifs(s.orelse)
        elif isinstance(s, (ast.For, ast.While, ast.With)):
            s.body = _fold_constant_ifs(s.body) or [ast.copy_location(ast.Pass(), s)]
        out.append(s)
    return out


def _inline_statement_call(repo, caller_fi, st, call, form, callee_fi) -> bool:
    prep = _prepare_body(caller_fi, call, callee_fi, st)
    if prep is None:
        return False
    pre, body = prep
    rets = [n for s in body for n in ast.walk(s) if isinstance(n, ast.Return)]
    if form == "return":
        new = pre + body
        if not rets or not isinstance(body[-1], (ast.Return, ast.If, ast.Raise)):
            new.append(ast.copy_location(ast.Return(value=None), st))
        return _replace_stmt(caller_fi.node, st, new)
    # assign / expr: bring the callee to single-exit form (`if c: return a` + rest  ->  `if c: t = a  else: rest`)
    if any(r is not body[-1] for r in rets):
        if form == "expr" and all(r.value is None for r in rets):
            conv = _strip_void_returns(body)
            if conv is None:
                return False
            new = pre + conv
            for s2 in new:
                ast.fix_missing_locations(s2)
            return _replace_stmt(caller_fi.node, st, new)
        if form != "assign":
            return False
        conv = _single_exit(body, st.targets, st)
        if conv is None:
            return False
        new = pre + conv
        for s2 in new:
            ast.fix_missing_locations(s2)
        return _replace_stmt(caller_fi.node, st, new)
    tail = body[-1] if rets else None
    new = pre + (body[:-1] if tail is not None else body)
    if form == "assign":
        if tail is None or tail.value is None:
            return False
        if not (len(st.targets) == 1 and isinstance(st.targets[0], ast.Name) and isinstance(tail.value, ast.Name) and st.targets[0].id == tail.value.id):
            new.extend(_split_tuple_assign(ast.copy_location(ast.Assign(targets=st.targets, value=tail.value), st)))
    else:
        if tail is not None and tail.value is not None:
            new.append(ast.copy_location(ast.Expr(value=tail.value), st))
    for s in new:
        ast.fix_missing_locations(s)
    return _replace_stmt(caller_fi.node, st, new)


_HOIST_N = [0]


def _hoist_call(caller_fi, st, call: ast.Call) -> bool:
    """`stmt[f(a)]` -> `t = f(a); stmt[t]` when f(a) is evaluated unconditionally by a simple statement and everything
    evaluated before it in that statement is pure (the next round then inlines `t = f(a)`)."""
    if isinstance(st, ast.For):
        # `for t in g(f(a)):` -> `h = f(a); for t in g(h):`  (the iterable is evaluated once, before the first iteration)
        if not any(n is call for n in ast.walk(st.iter)):
            return False
        parents = {}
        for p in ast.walk(st.iter):
            for c in ast.iter_child_nodes(p):
                parents[id(c)] = p
        cur = call
        while cur is not st.iter:
            par = parents.get(id(cur))
            if par is None or isinstance(par, (ast.IfExp, ast.BoolOp, ast.Lambda, ast.ListComp, ast.SetComp, ast.DictComp, ast.GeneratorExp)):
                return False
            cur = par
        others = [n for n in ast.walk(st.iter) if isinstance(n, ast.Call) and n is not call and not any(m is n for m in ast.walk(call))]
        if any(_has_impure_call(o) for o in others if not any(m is call for m in ast.walk(o))):
            return False
        _HOIST_N[0] += 1
        tmp = f"h{_HOIST_N[0]}__r"
        pre = ast.copy_location(ast.Assign(targets=[ast.Name(id=tmp, ctx=ast.Store())], value=call), st)
        st.iter = _replace_node(st.iter, call, ast.Name(id=tmp, ctx=ast.Load()))
        ast.fix_missing_locations(pre)
        ast.fix_missing_locations(st)
        return _replace_stmt(caller_fi.node, st, [pre, st])
    if not isinstance(st, (ast.Assign, ast.AugAssign, ast.Expr, ast.Return, ast.AnnAssign)):
        return False
    # the call must not sit under a conditional / deferred evaluation context
    parents = {}
    for p in ast.walk(st):
        for c in ast.iter_child_nodes(p):
            parents[id(c)] = p
    cur = call
    while cur is not st:
        par = parents.get(id(cur))
        if par is None:
            return False
        if isinstance(par, (ast.IfExp, ast.BoolOp, ast.Lambda, ast.ListComp, ast.SetComp, ast.DictComp, ast.GeneratorExp)):
            return False
        cur = par
    others = [n for n in ast.walk(st) if isinstance(n, ast.Call) and n is not call and not any(m is n for m in ast.walk(call))]
    if any(_has_impure_call(o) for o in others if o.lineno <= call.lineno and not any(m is call for m in ast.walk(o))):
        return False
    _HOIST_N[0] += 1
    tmp = f"h{_HOIST_N[0]}__r"
    pre = ast.copy_location(ast.Assign(targets=[ast.Name(id=tmp, ctx=ast.Store())], value=call), st)
    new_st = _replace_node(st, call, ast.Name(id=tmp, ctx=ast.Load()))
    ast.fix_missing_locations(pre)
    ast.fix_missing_locations(new_st)
    return _replace_stmt(caller_fi.node, st, [pre, new_st])


def _strip_void_returns(stmts) -> Optional[List[ast.stmt]]:
    """A statement list with valueless `return`s (outside loops / try / with) rewritten without them: what follows an `if c: ...; return` moves
    into the else branch.  None when a return sits inside a loop, try or with block."""
    out: List[ast.stmt] = []
    for i, s2 in enumerate(stmts):
        if isinstance(s2, ast.Return):
            if s2.value is not None:
                return None
            return out or [ast.copy_location(ast.Pass(), s2)]
        has_ret = any(isinstance(n, ast.Return) for n in ast.walk(s2))
        if not has_ret:
            out.append(s2)
            continue
        if not isinstance(s2, ast.If):
            return None
        rest = list(stmts[i + 1:])
        b_ret, o_ret = _always_returns(s2.body), _always_returns(s2.orelse) if s2.orelse else False
        if b_ret and not o_ret:
            body = _strip_void_returns(list(s2.body))
            orelse = _strip_void_returns(list(s2.orelse) + rest)
        elif o_ret and not b_ret:
            body = _strip_void_returns(list(s2.body) + rest)
            orelse = _strip_void_returns(list(s2.orelse))
        elif b_ret and o_ret:
            body = _strip_void_returns(list(s2.body))
            orelse = _strip_void_returns(list(s2.orelse))
        else:
            return None   # a conditional return deeper inside a branch that can also fall through
        if body is None or orelse is None:
            return None
        orelse = [x for x in orelse if not isinstance(x, ast.Pass)]
        out.append(ast.copy_location(ast.If(test=s2.test, body=body or [ast.Pass()], orelse=orelse), s2))
        return out
    return out


def _always_returns(stmts) -> bool:
    for s2 in stmts:
        if isinstance(s2, (ast.Return, ast.Raise)):
            return True
        if isinstance(s2, ast.If) and s2.orelse and _always_returns(s2.body) and _always_returns(s2.orelse):
            return True
    return False


def _single_exit(stmts, targets, at) -> Optional[List[ast.stmt]]:
    """Rewrite a statement list in which every path ends in `return <value>` so that each return becomes
    `targets = <value>` and nothing follows it; None when the shape is not supported (returns inside loops / try / with)."""
    out: List[ast.stmt] = []
    for i, s2 in enumerate(stmts):
        if isinstance(s2, ast.Return):
            if s2.value is None:
                return None
            if not (len(targets) == 1 and isinstance(targets[0], ast.Name) and isinstance(s2.value, ast.Name) and targets[0].id == s2.value.id):
                out.extend(_split_tuple_assign(ast.copy_location(ast.Assign(targets=copy.deepcopy(targets), value=s2.value), at)))
            return out or [ast.copy_location(ast.Pass(), at)]
        has_ret = any(isinstance(n, ast.Return) for n in ast.walk(s2))
        if not has_ret:
            out.append(s2)
            continue
        if not isinstance(s2, ast.If):
            return None
        rest = list(stmts[i + 1:])
        if _always_returns(s2.body):
            b = _single_exit(s2.body, targets, at)
            o = _single_exit(list(s2.orelse) + rest, targets, at)
        elif s2.orelse and _always_returns(s2.orelse):
            b = _single_exit(list(s2.body) + rest, targets, at)
            o = _single_exit(s2.orelse, targets, at)
        else:
            return None
        if b is None or o is None:
            return None
        out.append(ast.copy_location(ast.If(test=s2.test, body=b, orelse=o), s2))
        return out
    return None  # a path falls off the end without a value


def _split_tuple_assign(a: ast.Assign) -> List[ast.stmt]:
    """`t0, t1 = (e0, e1)` -> `t0 = e0; t1 = e1` when no later element reads an earlier target; `x = x` is dropped."""
    if len(a.targets) != 1 or not isinstance(a.targets[0], ast.Tuple) or not isinstance(a.value, ast.Tuple):
        return [a]
    ts, es = a.targets[0].elts, a.value.elts
    if len(ts) != len(es) or not all(isinstance(t, ast.Name) for t in ts) or any(isinstance(e, ast.Starred) for e in es):
        return [a]
    for i, t in enumerate(ts):
        for e in es[i + 1:]:
            if any(isinstance(n, ast.Name) and n.id == t.id for n in ast.walk(e)):
                return [a]
    out = []
    for t, e in zip(ts, es):
        if isinstance(e, ast.Name) and e.id == t.id:
            continue
        out.append(ast.copy_location(ast.Assign(targets=[t], value=e), a))
    return out or [ast.copy_location(ast.Pass(), a)]


def _returns_tree_expr(stmts) -> Optional[ast.AST]:
    """A body that is nothing but a decision tree of `return <expr>` statements, as one (conditional) expression."""
    if not stmts:
        return None
    head, rest = stmts[0], stmts[1:]
    if isinstance(head, ast.Return):
        return head.value if head.value is not None and not rest else None
    if isinstance(head, ast.If):
        a = _returns_tree_expr(head.body)
        b = _returns_tree_expr(list(head.orelse) + list(rest)) if (head.orelse or rest) else None
        if a is None or b is None:
            return None
        if head.orelse and rest and not _always_returns(head.orelse):
            return None
        return ast.copy_location(ast.IfExp(test=head.test, body=a, orelse=b), head)
    return None


def _inline_expression_call(caller_fi, st, call: ast.Call, callee_fi) -> bool:
    body = _callee_parts(callee_fi)
    tree = _returns_tree_expr(body)
    if tree is None:
        return False
    body = [ast.Return(value=tree)]
    is_method = isinstance(call.func, ast.Attribute) and isinstance(call.func.value, ast.Name) and call.func.value.id == "self" and bool(callee_fi.cls)
    if isinstance(call.func, ast.Attribute) and not is_method and callee_fi.cls:
        return False
    binding = _bind_args(call, callee_fi.node, is_method)
    if binding is None:
        return False
    if any(k.startswith("**") for k in binding):
        spread = _spread_kwargs(copy.deepcopy(body), [k for k in binding if k.startswith("**")][0][2:], binding[[k for k in binding if k.startswith("**")][0]])
        if spread is None:
            return False
        body = spread
        binding = {k: v for k, v in binding.items() if not k.startswith("**")}
    expr = copy.deepcopy(body[0].value)
    # every parameter is substituted textually: safe when arguments are pure expressions
    if any(_has_impure_call(a) for a in binding.values()):
        return False
    expr = _Subst(binding).visit(expr)
    ast.fix_missing_locations(expr)

    class R(ast.NodeTransformer):
        hit = False

        def visit_Call(self, node):
            if node is call:
                R.hit = True
                return ast.copy_location(expr, node)
            return self.generic_visit(node)
    R.hit = False
    R().visit(st)
    return R.hit


# ------------------------------------------------------------------------------------------------ pass 1a'
def inline_new_properties(repo) -> List[str]:
    """A @property the pinned class does not have, whose body is one `return <pure expression over self>`: reads `self.<name>` in the
    methods of that class (and of its subclasses that do not override it) are replaced by the expression."""
    known = set(vocab()["functions"])
    done: List[str] = []
    props: Dict[Tuple[str, str], ast.AST] = {}
    for q, fi in repo.functions.items():
        if q in known or not isinstance(fi.node, ast.FunctionDef) or not fi.cls or fi.parent is not None:
            continue
        ds = fi.node.decorator_list
        if len(ds) != 1 or not (isinstance(ds[0], ast.Name) and ds[0].id == "property"):
            continue
        body = _callee_parts(fi)
        if len(body) == 1 and isinstance(body[0], ast.Return) and body[0].value is not None and not _has_impure_call(body[0].value) \
                and len(fi.node.args.args) == 1:
            props[(q.rsplit(".", 1)[0], fi.node.name)] = body[0].value
    if not props:
        return done
    bases = getattr(repo, "class_bases", {})

    def inherits(cq, target, depth=0):
        if cq == target:
            return True
        if depth > 4:
            return False
        mod = cq.rsplit(".", 1)[0]
        return any(inherits(b if b in bases else f"{mod}.{b}", target, depth + 1) for b in bases.get(cq, []))
    for q, fi in repo.functions.items():
        if not isinstance(fi.node, ast.FunctionDef) or not fi.cls or fi.parent is not None or not fi.node.args.args:
            continue
        cq = q.rsplit(".", 1)[0]
        mine = {}
        for (pc, name), v in props.items():
            if name == fi.node.name and pc == cq:
                continue
            if pc == cq or (inherits(cq, pc) and f"{cq}.{name}" not in repo.functions):
                mine[name] = v
        if not mine:
            continue
        selfname = fi.node.args.args[0].arg

        class R(ast.NodeTransformer):
            hit = False

            def visit_Attribute(self, node):
                node = self.generic_visit(node)
                if isinstance(node.ctx, ast.Load) and isinstance(node.value, ast.Name) and node.value.id == selfname and node.attr in mine:
                    R.hit = True
                    e = copy.deepcopy(mine[node.attr])
                    if selfname != "self":
                        e = _Rename({"self": selfname}).visit(e)
                    return ast.copy_location(e, node)
                return node
        R.hit = False
        fi.node.body = [R().visit(b) for b in fi.node.body]
        if R.hit:
            ast.fix_missing_locations(fi.node)
            done.append(q)
    return sorted(set(done))


# ------------------------------------------------------------------------------------------------ pass 1b
def _is_contextmanager(fn: ast.FunctionDef) -> bool:
    ds = fn.decorator_list
    return len(ds) == 1 and ((isinstance(ds[0], ast.Attribute) and ds[0].attr == "contextmanager") or (isinstance(ds[0], ast.Name) and ds[0].id == "contextmanager"))


def inline_new_context_managers(repo) -> List[str]:
    """`with f(args) as v: BODY` where f is a generator-based context manager absent from the pinned tree, of the plain shape
    `PRE; yield X; POST` (no try / finally: an exception in BODY skips POST, as in the inlined form)  ->  `PRE; v = X; BODY; POST`."""
    known = set(vocab()["functions"])
    if not known:
        return []
    cms = {q: fi for q, fi in repo.functions.items() if q not in known and isinstance(fi.node, ast.FunctionDef) and _is_contextmanager(fi.node)}
    done: List[str] = []
    if not cms:
        return done
    for q, caller in list(repo.functions.items()):
        if q in cms or not isinstance(caller.node, ast.FunctionDef):
            continue
        for _ in range(6):
            hit = False
            for st in own_statements(caller.node):
                if not isinstance(st, ast.With) or len(st.items) != 1 or not isinstance(st.items[0].context_expr, ast.Call):
                    continue
                call = st.items[0].context_expr
                tq = repo.resolve_call(caller, call)
                if tq not in cms:
                    continue
                callee_fi = cms[tq]
                body = _callee_parts(callee_fi)
                yi = [i for i, b in enumerate(body) if isinstance(b, ast.Expr) and isinstance(b.value, ast.Yield)]
                all_yields = [n for b in body for n in ast.walk(b) if isinstance(n, (ast.Yield, ast.YieldFrom))]
                if len(yi) != 1 or len(all_yields) != 1 or any(isinstance(n, (ast.Try, ast.Return)) for b in body for n in ast.walk(b)):
                    continue
                # reuse the statement-call machinery on a synthetic callee without the yield
                k = yi[0]
                yielded = body[k].value.value
                fake = copy.deepcopy(callee_fi.node)
                fake.decorator_list = []
                fbody = [copy.deepcopy(b) for b in body]
                marker = ast.Expr(value=ast.Name(id="__BODY__", ctx=ast.Load()))
                vname = st.items[0].optional_vars
                pre_yield = fbody[:k]
                bind_v = [ast.Assign(targets=[copy.deepcopy(vname)], value=copy.deepcopy(yielded))] if (vname is not None and yielded is not None) else []
                fake.body = pre_yield + [ast.Assign(targets=[ast.Name(id="__cm_value__", ctx=ast.Store())], value=copy.deepcopy(yielded) if yielded is not None else ast.Constant(value=None))] \
                    + [marker] + fbody[k + 1:]
                from .model import FunctionInfo
                fake_fi = FunctionInfo(callee_fi.qualname, callee_fi.module, fake, cls=callee_fi.cls, parent=callee_fi.parent)
                prep = _prepare_body(caller, call, fake_fi, st)
                if prep is None:
                    continue
                pre, nb = prep
                out: List[ast.stmt] = list(pre)
                for b in nb:
                    if isinstance(b, ast.Expr) and isinstance(b.value, ast.Name) and b.value.id == "__BODY__":
                        out.extend(st.body)
                    elif isinstance(b, ast.Assign) and isinstance(b.targets[0], ast.Name) and b.targets[0].id == "__cm_value__":
                        if vname is not None and not (isinstance(vname, ast.Name) and isinstance(b.value, ast.Name) and vname.id == b.value.id):
                            out.append(ast.copy_location(ast.Assign(targets=[copy.deepcopy(vname)], value=b.value), st))
                    else:
                        out.append(b)
                for o in out:
                    ast.fix_missing_locations(o)
                _ = bind_v
                if _replace_stmt(caller.node, st, out):
                    done.append(tq)
                    hit = True
                    break
            if not hit:
                break
    return sorted(set(done))


# ------------------------------------------------------------------------------------------------ pass 1c
def inline_new_module_constants(repo) -> List[str]:
    """A module-level name the pinned module does not have, assigned once with a pure expression and never written through,
    is substituted into the functions of that module that read it (read-only uses only)."""
    known_all = vocab().get("globals")
    done: List[str] = []
    if not known_all:
        return done
    for mname, m in repo.modules.items():
        known = set(known_all.get(mname, ()))
        if not known:
            continue
        cands: Dict[str, ast.AST] = {}
        counts: Dict[str, int] = {}
        for st in m.tree.body:
            if isinstance(st, ast.Assign):
                for t in st.targets:
                    for n in ast.walk(t):
                        if isinstance(n, ast.Name) and isinstance(n.ctx, ast.Store):
                            counts[n.id] = counts.get(n.id, 0) + 1
                if len(st.targets) == 1 and isinstance(st.targets[0], ast.Name) and st.targets[0].id not in known and not _has_impure_call(st.value) \
                        and not isinstance(st.value, (ast.Lambda, ast.Dict, ast.DictComp)):
                    cands[st.targets[0].id] = st.value
                if len(st.targets) == 1 and isinstance(st.targets[0], ast.Tuple) and isinstance(st.value, ast.Tuple) and len(st.targets[0].elts) == len(st.value.elts):
                    # A, B = 12, 13
                    for t_, v_ in zip(st.targets[0].elts, st.value.elts):
                        if isinstance(t_, ast.Name) and t_.id not in known and isinstance(v_, ast.Constant):
                            cands[t_.id] = v_
            elif isinstance(st, ast.AnnAssign) and isinstance(st.target, ast.Name) and st.value is not None:
                # NAME: int = 12  - an annotated constant
                counts[st.target.id] = counts.get(st.target.id, 0) + 1
                if st.target.id not in known and not _has_impure_call(st.value) and not isinstance(st.value, (ast.Lambda, ast.Dict, ast.DictComp)):
                    cands[st.target.id] = st.value
            elif isinstance(st, (ast.AugAssign, ast.AnnAssign)) and isinstance(st.target, ast.Name):
                counts[st.target.id] = counts.get(st.target.id, 0) + 2
        cands = {k: v for k, v in cands.items() if counts.get(k, 0) == 1}
        if not cands:
            continue
        # never written through / rebound anywhere in the module
        for node in ast.walk(m.tree):
            if isinstance(node, ast.Global):
                for nm in node.names:
                    cands.pop(nm, None)
            if isinstance(node, (ast.Subscript, ast.Attribute)) and isinstance(node.ctx, (ast.Store, ast.Del)):
                b = node
                while isinstance(b, (ast.Subscript, ast.Attribute)):
                    b = b.value
                if isinstance(b, ast.Name):
                    cands.pop(b.id, None)
            if isinstance(node, ast.AugAssign):
                b = node.target
                while isinstance(b, (ast.Subscript, ast.Attribute)):
                    b = b.value
                if isinstance(b, ast.Name):
                    cands.pop(b.id, None)
        for q, fi in repo.functions.items():
            if fi.module is not m or not isinstance(fi.node, ast.FunctionDef) or fi.parent is not None:
                continue
            local = bound_names(fi.node)
            for nested in ast.walk(fi.node):
                if isinstance(nested, (ast.FunctionDef, ast.Lambda)) and nested is not fi.node:
                    local |= bound_names(nested) if isinstance(nested, ast.FunctionDef) else {a.arg for a in nested.args.args}
            use = {k: v for k, v in cands.items() if k not in local and any(isinstance(n, ast.Name) and n.id == k for n in ast.walk(fi.node))}
            if not use:
                continue
            parents = {}
            for par in ast.walk(fi.node):
                for ch in ast.iter_child_nodes(par):
                    parents[id(ch)] = par
            for k in list(use):
                reads = [n for n in ast.walk(fi.node) if isinstance(n, ast.Name) and n.id == k]
                if not all(isinstance(n.ctx, ast.Load) and (_immutable_value(use[k]) or _consumed_read_only(n, parents, _is_one_dim(use[k])) or _method_read(n, parents)) for n in reads):
                    use.pop(k)
            if use:
                sub = _Subst(use)
                fi.node.body = [sub.visit(b) for b in fi.node.body]
                ast.fix_missing_locations(fi.node)
                done += [f"{mname}.{k}" for k in use]
    return sorted(set(done))


def _method_read(n: ast.AST, parents) -> bool:
    """`CONST.method(...)` with a reading method of a compiled pattern / tuple / string."""
    par = parents.get(id(n))
    gp = parents.get(id(par)) if par is not None else None
    return isinstance(par, ast.Attribute) and isinstance(gp, ast.Call) and gp.func is par and par.attr in (
        "fullmatch", "match", "search", "findall", "finditer", "split", "sub", "format", "join", "index", "count", "get", "keys", "values", "items")


# ------------------------------------------------------------------------------------------------ pass 2
def canonical_dict_loops(fn_node) -> int:
    """for v in D.values() / for k, v in D.items() (also enumerate(..)) -> for k in D.keys(), v := D[k]."""
    n = 0
    for s in own_statements(fn_node):
        if not isinstance(s, ast.For):
            continue
        it = s.iter
        enum = isinstance(it, ast.Call) and isinstance(it.func, ast.Name) and it.func.id == "enumerate" and len(it.args) == 1
        inner = it.args[0] if enum else it
        if not (isinstance(inner, ast.Call) and isinstance(inner.func, ast.Attribute) and inner.func.attr in ("values", "items") and not inner.args):
            continue
        D = inner.func.value
        tgt = s.target.elts[1] if enum and isinstance(s.target, ast.Tuple) and len(s.target.elts) == 2 else (None if enum else s.target)
        if tgt is None:
            continue
        kname = vname = None
        if inner.func.attr == "values" and isinstance(tgt, ast.Name):
            vname = tgt.id
            kname = f"{vname}__k"
        elif inner.func.attr == "items" and isinstance(tgt, ast.Tuple) and len(tgt.elts) == 2 and all(isinstance(e, ast.Name) for e in tgt.elts):
            kname, vname = tgt.elts[0].id, tgt.elts[1].id
        else:
            continue
        stores = [x for b in s.body + s.orelse for x in ast.walk(b) if isinstance(x, ast.Name) and x.id == vname and isinstance(x.ctx, ast.Store)]
        if stores:
            continue
        dtext = ast.unparse(D)
        rebinds = [x for b in s.body + s.orelse for x in ast.walk(b) if isinstance(x, ast.Subscript) and isinstance(x.ctx, (ast.Store, ast.Del))
                   and ast.unparse(x.value) == dtext]
        if rebinds or any(isinstance(x, ast.Call) and isinstance(x.func, ast.Attribute) and ast.unparse(x.func.value) == dtext
                          and x.func.attr in ("pop", "update", "clear", "setdefault", "popitem") for b in s.body + s.orelse for x in ast.walk(b)):
            continue  # the loop replaces entries of the dict: `v` and `D[k]` would no longer be the same object
        elt = ast.Subscript(value=copy.deepcopy(D), slice=ast.Name(id=kname, ctx=ast.Load()), ctx=ast.Load())
        sub = _Subst({vname: elt})
        s.body = [sub.visit(b) for b in s.body]
        s.orelse = [sub.visit(b) for b in s.orelse]
        new_inner = ast.Call(func=ast.Attribute(value=copy.deepcopy(D), attr="keys", ctx=ast.Load()), args=[], keywords=[])
        ktgt = ast.Name(id=kname, ctx=ast.Store())
        if enum:
            s.iter = ast.Call(func=it.func, args=[new_inner], keywords=[])
            s.target = ast.Tuple(elts=[s.target.elts[0], ktgt], ctx=ast.Store())
        else:
            s.iter = new_inner
            s.target = ktgt
        ast.fix_missing_locations(s)
        n += 1
    return n


# ------------------------------------------------------------------------------------------------ pass 3
def inline_new_locals(qualname: str, fn_node, max_rounds: int = 60, on_change=None) -> List[str]:
    """Substitute single-definition pure temporaries that the pinned function does not have."""
    from .cfg import CFG
    from .defuse import DefUse
    known = vocab()["locals"].get(qualname)
    if known is None:
        return []
    known = set(known)
    inlined: List[str] = []
    # `a, b = (x, y)` introducing a temporary the pinned function does not have: one assignment per name
    for s in list(own_statements(fn_node)):
        if isinstance(s, ast.Assign) and len(s.targets) == 1 and isinstance(s.targets[0], ast.Tuple) and isinstance(s.value, ast.Tuple) \
                and any(isinstance(t, ast.Name) and t.id not in known for t in s.targets[0].elts):
            parts = _split_tuple_assign(s)
            if len(parts) > 1 or parts[0] is not s:
                _replace_stmt(fn_node, s, parts)
                ast.fix_missing_locations(fn_node)
    for _ in range(max_rounds):
        params = {a.arg for a in fn_node.args.posonlyargs + fn_node.args.args + fn_node.args.kwonlyargs}
        cand = None
        stmts = own_statements(fn_node)
        store_count: Dict[str, int] = {}
        for s in fn_node.body:
            for n in _walk_no_nested(s):
                if isinstance(n, ast.Name) and isinstance(n.ctx, (ast.Store, ast.Del)):
                    store_count[n.id] = store_count.get(n.id, 0) + 1
        mutated = set()
        for s in stmts:
            for n in ast.walk(s):
                if isinstance(n, ast.AugAssign):
                    b = n.target
                    while isinstance(b, (ast.Subscript, ast.Attribute)):
                        b = b.value
                    if isinstance(b, ast.Name):
                        mutated.add(b.id)
                elif isinstance(n, ast.Assign):
                    for t in n.targets:
                        for e in (t.elts if isinstance(t, (ast.Tuple, ast.List)) else [t]):
                            if isinstance(e, (ast.Subscript, ast.Attribute)):
                                b = e
                                while isinstance(b, (ast.Subscript, ast.Attribute)):
                                    b = b.value
                                if isinstance(b, ast.Name):
                                    mutated.add(b.id)
                elif isinstance(n, ast.Call):
                    f = n.func
                    nm = f.attr if isinstance(f, ast.Attribute) else f.id if isinstance(f, ast.Name) else ""
                    if nm in ("put", "copyto", "place", "putmask") and n.args and isinstance(n.args[0], ast.Name):
                        mutated.add(n.args[0].id)
                    if nm in ("sort", "fill", "resize", "pop", "append", "extend", "update", "close", "seek", "write", "tofile") and isinstance(f, ast.Attribute) \
                            and isinstance(f.value, ast.Name):
                        mutated.add(f.value.id)
        odd_defs = set()
        for s in stmts:
            tl = []
            if isinstance(s, (ast.For, ast.AsyncFor)):
                tl = [s.target]
            elif isinstance(s, (ast.With, ast.AsyncWith)):
                tl = [i.optional_vars for i in s.items if i.optional_vars is not None]
            elif isinstance(s, (ast.AugAssign, ast.AnnAssign)):
                tl = [s.target]
            elif isinstance(s, ast.Delete):
                tl = s.targets
            elif isinstance(s, ast.Assign):
                tl = [t for t in s.targets if not isinstance(t, ast.Name)] if len(s.targets) == 1 else s.targets
            elif isinstance(s, (ast.Import, ast.ImportFrom)):
                odd_defs |= {(a.asname or a.name).split(".")[0] for a in s.names}
            elif isinstance(s, ast.Try):
                odd_defs |= {h.name for h in s.handlers if h.name}
            for t in tl:
                odd_defs |= {n.id for n in ast.walk(t) if isinstance(n, ast.Name) and isinstance(n.ctx, (ast.Store, ast.Del))}
            for n in _walk_no_nested(s) if not isinstance(s, (ast.FunctionDef, ast.ClassDef)) else []:
                if isinstance(n, ast.NamedExpr) and isinstance(n.target, ast.Name):
                    odd_defs.add(n.target.id)
        closure_reads = set()
        for s in stmts:
            for n in ast.walk(s):
                if isinstance(n, (ast.FunctionDef, ast.Lambda)) and n is not fn_node:
                    for m in ast.walk(n):
                        if isinstance(m, ast.Name):
                            closure_reads.add(m.id)
        du = None
        for s in stmts:
            if not (isinstance(s, ast.Assign) and len(s.targets) == 1 and isinstance(s.targets[0], ast.Name)):
                continue
            v = s.targets[0].id
            if v in known or v in params or v in closure_reads or v in odd_defs:
                continue
            if v in mutated and not _is_path(s.value):  # an alias of a plain access path may be written through
                continue
            if _has_impure_call(s.value) or isinstance(s.value, (ast.Lambda, ast.Dict, ast.List, ast.Set, ast.DictComp, ast.SetComp, ast.GeneratorExp)):
                continue
            if isinstance(s.value, ast.ListComp) and not _only_iterated(fn_node, v):
                continue
            du = du or DefUse(fn_node)
            cfg = du.cfg
            dn = cfg.node_for(s)
            uses = []
            ok = True
            this_def = [d for d in du.defs if d.var == v and d.stmt is s and d.kind == "assign"]
            if len(this_def) != 1:
                continue
            for n2 in cfg.nodes:
                for nm, node in du.loads_in(n2):
                    if nm == v or nm.startswith(v + "[") or nm.startswith(v + "."):
                        rd = {d.idx for d in du.reaching_at(n2, v)}
                        if this_def[0].idx not in rd:
                            continue  # another definition of the same temporary is read there
                        if rd != {this_def[0].idx}:
                            ok = False  # merged with another definition: not a plain temporary
                        uses.append((n2, node))
            if not uses or not ok:
                continue
            use_stmts = {id(n2.stmt) for n2, _ in uses}
            local_names = bound_names(fn_node)
            operand_names = {n.id for n in ast.walk(s.value) if isinstance(n, ast.Name) and n.id in local_names and n.id != "self"}  # not modules / globals
            # attributes of self read by the value: compared location by location (a store to another attribute is irrelevant)
            from .defuse import loc_name as _loc
            for n in ast.walk(s.value):
                if isinstance(n, (ast.Attribute, ast.Subscript)):
                    ln = _loc(n)
                    if ln and ln.startswith("self."):
                        operand_names.add(ln)
            # locations (attribute / subscript chains) read by the value must not be stored to anywhere in the function
            reads = {ast.unparse(n) for n in ast.walk(s.value) if isinstance(n, (ast.Attribute, ast.Subscript))}
            stores = set()
            for st2 in fn_node.body:
                for n3 in ast.walk(st2):
                    tl = n3.targets if isinstance(n3, (ast.Assign, ast.Delete)) else [n3.target] if isinstance(n3, (ast.AugAssign, ast.AnnAssign, ast.For)) else []
                    for t in tl:
                        for e in (t.elts if isinstance(t, (ast.Tuple, ast.List)) else [t]):
                            if isinstance(e, (ast.Attribute, ast.Subscript)):
                                stores.add(ast.unparse(e))
                                if isinstance(e, ast.Subscript):
                                    stores.add(ast.unparse(e.value))  # a cell store changes what the container reads as
            if any(r == w or r.startswith(w + "[") or r.startswith(w + ".") or w.startswith(r + "[") or w.startswith(r + ".") for r in reads for w in stores):
                continue
            # object identity: a value that is not a plain access path is a new object at every evaluation; it may be
            # duplicated only into contexts that neither keep a reference to it nor modify it
            name_uses = [n for st2 in stmts if id(st2) in use_stmts for h in _heads(st2) for n in ast.walk(h)
                         if isinstance(n, ast.Name) and n.id == v and isinstance(n.ctx, ast.Load)]
            if not _is_path(s.value) and not _immutable_value(s.value) and len(name_uses) > 1:
                parents = {}
                for st2 in fn_node.body:
                    for par in ast.walk(st2):
                        for ch in ast.iter_child_nodes(par):
                            parents[id(ch)] = par
                if not all(_consumed_read_only(n, parents) for n in name_uses):
                    continue
            # the evaluation moves from the definition to the use: nothing in between may act on what it reads
            if not _is_path(s.value) or True:
                if _effects_between(fn_node, s, [node for _, node in uses], operand_names | {ast.unparse(n) for n in ast.walk(s.value) if isinstance(n, ast.Attribute)}):
                    continue
            for un, node in uses:
                if un.id == dn.id or not cfg.must_pass([dn], un):
                    ok = False
                    break
                for on in operand_names:
                    if {d.idx for d in du.reaching_at(dn, on)} != {d.idx for d in du.reaching_at(un, on)}:
                        ok = False
                        break
                if not ok:
                    break
            if ok:
                cand = (s, v, use_stmts)
                break
        if cand is None:
            break
        s, v, use_stmts = cand
        sub = _Subst({v: s.value})
        for st2 in stmts:
            if st2 is s or id(st2) not in use_stmts:
                continue
            # visit fields in place (statement identity must be kept for _replace_stmt)
            for fld, val in ast.iter_fields(st2):
                if fld in ("body", "orelse", "finalbody", "handlers"):
                    continue
                if isinstance(val, ast.AST):
                    setattr(st2, fld, sub.visit(val))
                elif isinstance(val, list):
                    setattr(st2, fld, [sub.visit(x) if isinstance(x, ast.AST) else x for x in val])
        _replace_stmt(fn_node, s, [])
        ast.fix_missing_locations(fn_node)
        inlined.append(v)
        if on_change is not None:
            # the statement a role pattern describes may just have been re-assembled: let role resolution give the variable
            # its canonical spelling (it is then part of the pinned vocabulary and no longer a candidate)
            on_change()
    return inlined


# ------------------------------------------------------------------------------------------------ pass 0
def distribute_ifexp_returns(fn_node, max_rounds: int = 8) -> int:
    """`return f(A if c else B)` -> `if c: return f(A)` / `else: return f(B)` (one conditional expression per return, whose
    test is evaluated first anyway or is pure): the path-based rules then see each alternative under its guard."""
    n = 0
    for _ in range(max_rounds):
        hit = False
        for s in own_statements(fn_node):
            if isinstance(s, ast.Expr) and isinstance(s.value, ast.Call):
                cls = ast.Expr
            elif isinstance(s, ast.Return) and s.value is not None:
                cls = ast.Return
            else:
                continue
            ifexps = [x for x in _walk_no_nested(s.value) if isinstance(x, ast.IfExp)]
            if len(ifexps) != 1 and not (ifexps and ifexps[0] is s.value):
                continue
            ie = s.value if isinstance(s.value, ast.IfExp) else ifexps[0]
            # the test moves in front of everything the statement evaluates: nothing but the outermost call may have an effect
            inner = list(ast.iter_child_nodes(s.value)) if isinstance(s.value, ast.Call) else [s.value]
            if any(_has_impure_call(c) for c in inner if not (isinstance(s.value, ast.Call) and c is s.value.func)):
                continue
            if s.value is ie:
                a, b = copy.deepcopy(ie.body), copy.deepcopy(ie.orelse)
            else:
                a = _replace_node(s.value, ie, ie.body)
                b = _replace_node(s.value, ie, ie.orelse)
            new = ast.If(test=copy.deepcopy(ie.test), body=[ast.copy_location(cls(value=a), s)], orelse=[ast.copy_location(cls(value=b), s)])
            ast.copy_location(new, s)
            ast.fix_missing_locations(new)
            if _replace_stmt(fn_node, s, [new]):
                n += 1
                hit = True
                break
        if not hit:
            break
    return n


def _replace_node(root: ast.AST, old: ast.AST, new: ast.AST) -> ast.AST:
    """Deep copy of `root` with the sub-node `old` (identity) replaced by a deep copy of `new`."""
    if root is old:
        return copy.deepcopy(new)
    out = copy.copy(root)
    for fld, val in ast.iter_fields(root):
        if isinstance(val, ast.AST):
            setattr(out, fld, _replace_node(val, old, new))
        elif isinstance(val, list):
            setattr(out, fld, [_replace_node(x, old, new) if isinstance(x, ast.AST) else x for x in val])
    return out


# ------------------------------------------------------------------------------------------------ idioms
class _Idioms(ast.NodeTransformer):
    """np.flatnonzero(m) and np.nonzero(m)[0] are spelled np.where(m)[0] (identical on the 1-D masks they are applied to in
    this code base; stated as an assumption in DESIGN.md)."""

    def __init__(self, rc_=False):
        self.n = 0
        self.rc_ = rc_      # the tree uses np.r_ / np.c_ where the pinned tree does: spell concatenations the same way

    def visit_Call(self, node):
        node = self.generic_visit(node)
        f = node.func
        if isinstance(f, ast.Attribute) and f.attr in ("fullmatch", "match", "search", "findall", "finditer", "split") and isinstance(f.value, ast.Call) \
                and isinstance(f.value.func, ast.Attribute) and f.value.func.attr == "compile" and isinstance(f.value.func.value, ast.Name) \
                and f.value.func.value.id == "re" and len(f.value.args) == 1 and not f.value.keywords:
            # re.compile(P).fullmatch(s)  ==  re.fullmatch(P, s)
            self.n += 1
            return ast.copy_location(ast.Call(func=ast.Attribute(value=f.value.func.value, attr=f.attr, ctx=ast.Load()),
                                              args=[f.value.args[0]] + node.args, keywords=node.keywords), node)
        if isinstance(f, ast.Attribute) and f.attr == "allclose" and len(node.args) == 2 and isinstance(f.value, ast.Name):
            # np.allclose(a, b, ..)  ==  np.all(np.isclose(a, b, ..))   (numpy defines it so)
            self.n += 1
            inner = ast.Call(func=ast.Attribute(value=f.value, attr="isclose", ctx=ast.Load()), args=node.args, keywords=node.keywords)
            return ast.copy_location(ast.Call(func=ast.Attribute(value=ast.Name(id=f.value.id, ctx=ast.Load()), attr="all", ctx=ast.Load()),
                                              args=[ast.copy_location(inner, node)], keywords=[]), node)
        if isinstance(f, ast.Attribute) and f.attr in ("concatenate", "hstack") and isinstance(f.value, ast.Name) and f.value.id in ("np", "numpy", "gp") \
                and len(node.args) == 1 and isinstance(node.args[0], (ast.Tuple, ast.List)) and len(node.args[0].elts) >= 2 and self.rc_:
            # np.concatenate((a, b)) == np.r_[a, b] ;  np.concatenate((A, B), axis=1) == np.c_[A, B]  (a one-element list literal [k] is the scalar k in r_)
            ax = [k for k in node.keywords if k.arg == "axis"]
            other = [k for k in node.keywords if k.arg != "axis"]
            axv = ax[0].value.value if ax and isinstance(ax[0].value, ast.Constant) else (0 if not ax else "?")
            if not other and axv in (0, 1, None) and not (f.attr == "hstack" and ax):
                elts = []
                for x in node.args[0].elts:
                    if isinstance(x, (ast.List, ast.Tuple)) and len(x.elts) == 1 and isinstance(x.elts[0], (ast.Constant, ast.Name, ast.Call, ast.Attribute)) and axv in (0, None):
                        elts.append(x.elts[0])
                    else:
                        elts.append(x)
                self.n += 1
                attr = "c_" if axv == 1 else "r_"
                return ast.copy_location(ast.Subscript(value=ast.Attribute(value=ast.Name(id=f.value.id, ctx=ast.Load()), attr=attr, ctx=ast.Load()),
                                                       slice=ast.Tuple(elts=elts, ctx=ast.Load()), ctx=ast.Load()), node)
        if isinstance(f, ast.Attribute) and f.attr == "open" and isinstance(f.value, (ast.Name, ast.Attribute)) and not (isinstance(f.value, ast.Name) and f.value.id in ("os", "io", "gzip", "bz2", "lzma", "tarfile", "zipfile", "codecs", "tokenize", "webbrowser", "shelve", "dbm", "wave", "aifc", "sunau", "Image", "h5py", "np", "numpy", "mtscomp")) \
                and len(node.args) == 1 and not node.keywords and isinstance(node.args[0], ast.Constant) and isinstance(node.args[0].value, str) \
                and node.args[0].value and set(node.args[0].value) <= set("rwxabt+"):
            # path.open("r+b")  ==  open(path, "r+b")   (pathlib spelling of the builtin; the receiver is a path-like local, not a module)
            self.n += 1
            return ast.copy_location(ast.Call(func=ast.Name(id="open", ctx=ast.Load()), args=[f.value, node.args[0]], keywords=[]), node)
        if isinstance(f, ast.Attribute) and f.attr in ("asarray", "asanyarray") and isinstance(f.value, ast.Name) and f.value.id in ("np", "numpy") and len(node.args) == 1 \
                and not node.keywords and isinstance(node.args[0], ast.Subscript):
            # np.asarray(x[...]) is x[...] (an indexing result is an array already; no copy, no conversion)
            self.n += 1
            return node.args[0]
        if isinstance(f, ast.Attribute) and f.attr == "flatnonzero" and len(node.args) == 1 and not node.keywords:
            self.n += 1
            w = ast.Call(func=ast.Attribute(value=f.value, attr="where", ctx=ast.Load()), args=node.args, keywords=[])
            return ast.copy_location(ast.Subscript(value=ast.copy_location(w, node), slice=ast.Constant(value=0), ctx=ast.Load()), node)
        return node

    def visit_BinOp(self, node):
        node = self.generic_visit(node)
        if isinstance(node.op, ast.MatMult):  # a @ b  ==  np.matmul(a, b)
            self.n += 1
            return ast.copy_location(ast.Call(func=ast.Attribute(value=ast.Name(id="np", ctx=ast.Load()), attr="matmul", ctx=ast.Load()),
                                              args=[node.left, node.right], keywords=[]), node)
        # (a > b) | (c > d)  ==  np.logical_or(a > b, c > d)   (both operands are boolean arrays / bools)
        if isinstance(node.op, (ast.BitOr, ast.BitAnd)) and isinstance(node.left, ast.Compare) and isinstance(node.right, ast.Compare):
            self.n += 1
            fn = "logical_or" if isinstance(node.op, ast.BitOr) else "logical_and"
            return ast.copy_location(ast.Call(func=ast.Attribute(value=ast.Name(id="np", ctx=ast.Load()), attr=fn, ctx=ast.Load()),
                                              args=[node.left, node.right], keywords=[]), node)
        return node

    def visit_Subscript(self, node):
        node = self.generic_visit(node)
        v = node.value
        # x[:, None]  ==  x[:, np.newaxis]
        if isinstance(node.slice, ast.Tuple) and any(isinstance(e, ast.Constant) and e.value is None for e in node.slice.elts):
            self.n += 1
            node.slice.elts = [ast.copy_location(ast.Attribute(value=ast.Name(id="np", ctx=ast.Load()), attr="newaxis", ctx=ast.Load()), e)
                               if isinstance(e, ast.Constant) and e.value is None else e for e in node.slice.elts]
        # x[::-1]  ==  np.flipud(x)   (reversal of the first axis, any number of dimensions)
        sl = node.slice
        if isinstance(node.ctx, ast.Load) and isinstance(sl, ast.Slice) and sl.lower is None and sl.upper is None and isinstance(sl.step, ast.UnaryOp) \
                and isinstance(sl.step.op, ast.USub) and isinstance(sl.step.operand, ast.Constant) and sl.step.operand.value == 1:
            self.n += 1
            return ast.copy_location(ast.Call(func=ast.Attribute(value=ast.Name(id="np", ctx=ast.Load()), attr="flipud", ctx=ast.Load()), args=[v], keywords=[]), node)
        if isinstance(v, ast.Call) and isinstance(v.func, ast.Attribute) and v.func.attr == "nonzero" and len(v.args) == 1 and not v.keywords \
                and isinstance(node.slice, ast.Constant) and node.slice.value == 0 and isinstance(v.func.value, ast.Name):
            self.n += 1
            v.func.attr = "where"
        return node


def canonical_idioms(tree) -> int:
    t = _Idioms()
    t.visit(tree)
    if t.n:
        ast.fix_missing_locations(tree)
    return t.n
