"""E13 - interval-event model of arrays that are assembled from constant stretches and ramp vectors.

An array is abstracted as (length, [events]) where an event paints a half-open index range with a *tag*: ONE / ZERO / a named
ramp vector read forwards (UP) or backwards (DOWN), together with the position its element 0 sits at.  The events are extracted
statically from the statements that build the array (np.ones, slice stores, slice reads / copies, flips), bounds being polynomial
normal forms over the function's symbols.  Nothing is executed: the model is the list of events.

Deciding what finally sits at each index needs the *order* of the symbolic bounds.  Bounds are linear with small coefficients, so the
finite set of their order types is explored by enumerating every integer assignment of the symbols in a small box that satisfies the
stated facts (`models`); a property of the final arrangement that fails is reported with the assignment as witness.  This is an
exhaustive check of the extracted model on a bounded parameter box, not a proof for all sizes; with coefficients in {-2..2} on three or
four symbols every order type of the bounds already occurs for values <= 12 (stated as an assumption in the evidence).
"""
from __future__ import annotations

import ast
import itertools
from dataclasses import dataclass, field
from fractions import Fraction
from typing import Callable, Dict, Iterable, List, Optional, Sequence, Tuple

from .algebra import Evaluator, Poly, Undecided
from .defuse import loc_name
from .model import AnalysisError, const_value, src
from .struct import call_name


class UndecidedBranch(AnalysisError):
    """A branch whose test is a run-time predicate the class model does not decide: the driver may explore both arms (one run per choice)."""

    def __init__(self, test):
        super().__init__(f"branch on `{src(test)}` cannot be decided for the window class")
        self.test = test


@dataclass
class Event:
    lo: Poly
    hi: Poly
    kind: str          # "ONE" | "ZERO" | "CONST:<v>" | "UP:<vec>" | "DOWN:<vec>"
    origin: Poly       # index of the array at which element 0 of the ramp vector sits (UP) / element len-1 ... (see paint)
    veclen: Optional[Poly] = None
    node: Optional[ast.AST] = None
    lo_neg: Optional[Poly] = None   # bound written `-e`: e is kept, because numpy reads -0 as 0 (x[:-0] is empty, x[-0:] is everything)
    hi_neg: Optional[Poly] = None


@dataclass
class ArrVal:
    length: Poly
    events: List[Event] = field(default_factory=list)

    def shifted(self, by: Poly, new_len: Poly) -> "ArrVal":
        if any(e.lo_neg is not None or e.hi_neg is not None for e in self.events):
            raise AnalysisError("a view of an array written through a `-e` slice bound is not modelled")
        return ArrVal(new_len, [Event(e.lo - by, e.hi - by, e.kind, e.origin - by, e.veclen, e.node) for e in self.events])


def num(p: Poly, env: Dict[str, int]) -> Optional[Fraction]:
    q = p.subs({k: Poly.const(v) for k, v in env.items()})
    return q.const_value()


def paint_nodes(a: ArrVal, env: Dict[str, int]) -> Optional[List[Optional[ast.AST]]]:
    """For every index the source construct (event node) whose value finally sits there (same walk as paint)."""
    n = num(a.length, env)
    if n is None or n != int(n) or n < 0:
        return None
    n = int(n)
    out: List[Optional[ast.AST]] = [None] * n
    for e in a.events:
        lo, hi = num(e.lo, env), num(e.hi, env)
        if lo is None or hi is None:
            return None
        lo, hi = int(lo), int(hi)
        for which, negp in (("lo", e.lo_neg), ("hi", e.hi_neg)):
            if negp is not None:
                ev_ = num(negp, env)
                if ev_ is None:
                    return None
                ev_ = int(ev_)
                idx = (n - ev_) if ev_ > 0 else -ev_
                if which == "lo":
                    lo = idx
                else:
                    hi = idx
        for p in range(max(lo, 0), min(hi, n)):
            out[p] = e.node
    return out


def paint(a: ArrVal, env: Dict[str, int]) -> Optional[List[Tuple[str, int]]]:
    """Final tag of every index 0 .. length-1 under a numeric assignment of the symbols (later events overwrite earlier ones)."""
    n = num(a.length, env)
    if n is None or n != int(n) or n < 0:
        return None
    n = int(n)
    out: List[Tuple[str, int]] = [("UNSET", 0)] * n
    for e in a.events:
        lo, hi, org = num(e.lo, env), num(e.hi, env), num(e.origin, env)
        if lo is None or hi is None or org is None:
            return None
        lo, hi, org = int(lo), int(hi), int(org)
        for which, negp in (("lo", e.lo_neg), ("hi", e.hi_neg)):
            if negp is not None:
                ev_ = num(negp, env)
                if ev_ is None:
                    return None
                ev_ = int(ev_)
                idx = (n - ev_) if ev_ > 0 else -ev_     # python / numpy: x[-e] counts from the end only for e > 0; -0 is 0
                if which == "lo":
                    if org == lo:
                        org = idx
                    lo = idx
                else:
                    hi = idx
        vl = None
        if e.veclen is not None:
            v = num(e.veclen, env)
            if v is None:
                return None
            vl = int(v)
        for p in range(max(lo, 0), min(hi, n)):
            if e.kind.startswith("UP:"):
                out[p] = (e.kind, p - org)
            elif e.kind.startswith("DOWN:"):
                # a flipped vector laid with its first element at `org`: position p holds vec[veclen - 1 - (p - org)]
                out[p] = ("UP:" + e.kind[5:], (vl - 1 - (p - org)) if vl is not None else -(p - org) - 1)
            else:
                out[p] = (e.kind, 0)
    return out


def models(symbols: Sequence[str], facts: Sequence[Callable[[Dict[str, int]], bool]], box: Dict[str, Tuple[int, int]]) -> Iterable[Dict[str, int]]:
    rngs = [range(box[s][0], box[s][1] + 1) for s in symbols]
    for vals in itertools.product(*rngs):
        env = dict(zip(symbols, vals))
        if all(f(env) for f in facts):
            yield env


class Extractor:
    """Abstract interpreter over the array-building statements of one function body."""

    def __init__(self, ev: Evaluator, decide: Callable[[ast.AST], Optional[bool]], ramps: Dict[str, Poly] = None):
        self.ev = ev
        self.decide = decide
        self.arr: Dict[str, ArrVal] = {}
        self.ramps: Dict[str, Poly] = dict(ramps or {})   # name of a ramp vector -> its length
        self.yielded: List[Tuple[ast.AST, List[ast.AST]]] = []
        self.aliases: List[Tuple[str, ...]] = []
        self.obligations: List[Tuple[ast.AST, str, Poly, Poly]] = []   # (node, text, store extent, value length) must be equal

    # ---- values
    def value(self, e: ast.AST) -> Optional[ArrVal]:
        if isinstance(e, ast.Name):
            if e.id in self.arr:
                return self.arr[e.id]
            if e.id in self.ramps:
                L = self.ramps[e.id]
                return ArrVal(L, [Event(Poly.const(0), L, "UP:" + e.id, Poly.const(0), L, e)])
            return None
        if isinstance(e, ast.Call):
            nm = call_name(e)
            if nm in ("ones", "zeros") and e.args:
                L = self.ev.ev(e.args[0])
                return ArrVal(L, [Event(Poly.const(0), L, "ONE" if nm == "ones" else "ZERO", Poly.const(0), None, e)])
            if nm in ("copy", "array", "asarray", "ascontiguousarray"):
                inner = e.func.value if isinstance(e.func, ast.Attribute) and not e.args else (e.args[0] if e.args else None)
                return self.value(inner) if inner is not None else None
            if nm in ("flipud", "flip") and e.args:
                return self._flip(self.value(e.args[0]))
            return None
        if isinstance(e, ast.Subscript):
            base = self.value(e.value)
            if base is None:
                return None
            sl = e.slice
            if isinstance(sl, ast.Slice):
                if sl.step is not None:
                    ok, st = const_value(sl.step)
                    if ok and st == -1 and sl.lower is None and sl.upper is None:
                        return self._flip(base)
                    return None
                lo, hi = self._bounds(sl, base.length)
                return base.shifted(lo, hi - lo)
            return None
        return None

    def _flip(self, a: Optional[ArrVal]) -> Optional[ArrVal]:
        if a is None:
            return None
        out = []
        for e in a.events:
            if e.kind.startswith("UP:") and e.lo == Poly.const(0) and e.hi == a.length:
                out.append(Event(e.lo, e.hi, "DOWN:" + e.kind[3:], e.origin, e.veclen if e.veclen is not None else a.length, e.node))
            elif e.kind.startswith("DOWN:") and e.lo == Poly.const(0) and e.hi == a.length:
                out.append(Event(e.lo, e.hi, "UP:" + e.kind[5:], e.origin, e.veclen, e.node))
            elif e.kind in ("ONE", "ZERO") and e.lo == Poly.const(0) and e.hi == a.length:
                out.append(e)
            else:
                return None
        return ArrVal(a.length, out)

    def _bounds(self, sl: ast.Slice, length: Poly) -> Tuple[Poly, Poly]:
        lo, hi, _, _ = self._bounds_neg(sl, length)
        return lo, hi

    def _bounds_neg(self, sl: ast.Slice, length: Poly):
        """(lo, hi, lo_neg, hi_neg): a bound written `-e` (e not a literal) is also returned as e, see Event.lo_neg."""
        def one(b, default):
            if b is None:
                return default, None
            if isinstance(b, ast.UnaryOp) and isinstance(b.op, ast.USub):
                e = self.ev.ev(b.operand)
                return length - e, (None if e.const_value() is not None and e.const_value() > 0 else e)
            return self.ev.ev(b), None
        (lo, ln), (hi, hn) = one(sl.lower, Poly.const(0)), one(sl.upper, length)
        return lo, hi, ln, hn

    def scalar_kind(self, e: ast.AST) -> Optional[str]:
        """Tag of a scalar stored into a slice (None when e is not a scalar this model knows)."""
        ok, c = const_value(e)
        if ok and isinstance(c, (int, float)) and not isinstance(c, bool):
            return "ONE" if c == 1 else ("ZERO" if c == 0 else f"CONST:{c}")
        return None

    # ---- statements
    def run(self, stmts: Sequence[ast.stmt]):
        for s in stmts:
            self.step(s)

    def step(self, s: ast.stmt):
        if isinstance(s, ast.Assign) and len(s.targets) == 1 and isinstance(s.value, ast.IfExp):
            d = self.decide(s.value.test)
            if d is None:
                # neither arm is one of the vectors this model tracks: the targets become unknown scalars (a later USE of them as a tracked vector is what fails)
                if self.value(s.value.body) is None and self.value(s.value.orelse) is None:
                    for n in ast.walk(s.targets[0]):
                        if isinstance(n, ast.Name):
                            self.arr.pop(n.id, None)
                            self.ev.env.pop(n.id, None)
                    return
                raise AnalysisError(f"conditional value `{src(s.value)[:60]}` cannot be decided for the window class")
            s = ast.copy_location(ast.Assign(targets=s.targets, value=s.value.body if d else s.value.orelse), s)
        if isinstance(s, ast.Assign) and len(s.targets) > 1 and all(isinstance(t, ast.Name) for t in s.targets):
            for t in s.targets:   # a = b = value : both names refer to ONE object
                self.step(ast.copy_location(ast.Assign(targets=[t], value=s.value), s))
            self.aliases.append(tuple(t.id for t in s.targets))
            return
        if isinstance(s, ast.Assign) and len(s.targets) == 1:
            t = s.targets[0]
            if isinstance(t, ast.Name):
                v = self.value(s.value)
                if v is not None:
                    self.arr[t.id] = ArrVal(v.length, list(v.events))
                else:
                    self.arr.pop(t.id, None)
                    try:
                        self.ev.env[t.id] = self.ev.ev(s.value)
                    except Undecided:
                        self.ev.env.pop(t.id, None)
                return
            if isinstance(t, ast.Subscript) and isinstance(t.value, ast.Name) and t.value.id in self.arr:
                a = self.arr[t.value.id]
                if not isinstance(t.slice, ast.Slice) or t.slice.step is not None:
                    raise AnalysisError(f"store `{src(s)[:80]}` is not a plain slice store")
                lo, hi, ln, hn = self._bounds_neg(t.slice, a.length)
                k = self.scalar_kind(s.value)
                if k is not None:
                    a.events.append(Event(lo, hi, k, lo, None, s, ln, hn))
                    return
                v = self.value(s.value)
                if v is None:
                    raise AnalysisError(f"value stored by `{src(s)[:80]}` is not understood")
                if ln is not None or hn is not None:
                    raise AnalysisError(f"vector stored through a `-e` slice bound in `{src(s)[:80]}` is not modelled")
                self.obligations.append((s, src(s), hi - lo, v.length))
                for e in v.events:
                    a.events.append(Event(e.lo + lo, e.hi + lo, e.kind, e.origin + lo, e.veclen, s))
                return
            return
        if isinstance(s, ast.If):
            d = self.decide(s.test)
            if d is None:
                raise UndecidedBranch(s.test)
            self.run(s.body if d else s.orelse)
            return
        if isinstance(s, ast.For):
            self.run(s.body)
            return
        if isinstance(s, ast.Expr) and isinstance(s.value, ast.Yield):
            v = s.value.value
            elts = list(v.elts) if isinstance(v, ast.Tuple) else [v]
            snap = {e.id: ArrVal(self.arr[e.id].length, list(self.arr[e.id].events)) for e in elts if isinstance(e, ast.Name) and e.id in self.arr}
            self.yielded.append((s, elts, snap))
            return
        # anything else that rebinds a tracked array forgets it
        for n in ast.walk(s):
            if isinstance(n, ast.Name) and isinstance(n.ctx, ast.Store):
                self.arr.pop(n.id, None)
