"""Run context, results, known findings, evidence and exit codes."""
from __future__ import annotations

import ast
import json
import os
import re
import time
from dataclasses import dataclass, field, asdict
from typing import Dict, List, Optional

from .model import AnalysisError, FunctionInfo, Repo, src

VERIF_DIR = os.path.dirname(os.path.dirname(os.path.abspath(__file__)))
EVIDENCE_DIR = os.path.join(VERIF_DIR, "evidence")
KNOWN_FILE = os.path.join(VERIF_DIR, "known_findings.json")


@dataclass
class Result:
    prop: str
    rule: str
    status: str  # ok | violation | note
    file: str
    line: int
    function: str
    construct: str
    message: str
    key: str = ""
    name_free: bool = False  # the finding does not depend on how any local variable is spelled

    def ident(self) -> str:
        return f"{self.prop}/{self.rule}/{self.function}/{self.key}"

    def text(self) -> str:
        return f"{self.file}:{self.line}: [{self.prop}-{self.rule}] {self.function}: {self.message} :: {self.construct}"


def norm_key(s: str) -> str:
    return re.sub(r"\s+", " ", s).strip()[:160]


class Ctx:
    def __init__(self, repo: Repo, prop: str, tier: str = "quick", quiet: bool = False):
        self.repo = repo
        self.prop = prop
        self.tier = tier
        self.quiet = quiet
        self.results: List[Result] = []
        self.rules: Dict[str, str] = {}  # rule id -> statement
        self.undecided: List[str] = []
        self.functions_analysed: set = set()
        self.call_sites = 0
        self.notes: List[str] = []
        self.errors: List = []
        self.shared: Dict = {}
        self.current_rule = None

    # -- rule bookkeeping
    def rule(self, rid: str, statement: str):
        self.rules[rid] = statement
        self.current_rule = rid

    def _mk(self, status, fi: Optional[FunctionInfo], node, construct, message, key=None, rule=None, name_free=False) -> Result:
        rid = rule or self.current_rule or "?"
        file = fi.file if fi else "?"
        line = getattr(node, "lineno", None) or (fi.lineno if fi else 0)
        fn = fi.qualname if fi else "?"
        if fi:
            self.functions_analysed.add(fi.qualname)
        if isinstance(construct, ast.AST):
            construct = src(construct)
        construct = norm_key(str(construct))
        r = Result(self.prop, rid, status, file, line, fn, construct, message, norm_key(key if key is not None else construct), name_free)
        self.results.append(r)
        return r

    def ok(self, fi, node, construct, message, key=None, rule=None):
        return self._mk("ok", fi, node, construct, message, key, rule)

    def violation(self, fi, node, construct, message, key=None, rule=None, name_free=False):
        return self._mk("violation", fi, node, construct, message, key, rule, name_free)

    def check(self, cond: bool, fi, node, construct, ok_msg: str, bad_msg: str, key=None, rule=None, name_free=False):
        if cond:
            return self.ok(fi, node, construct, ok_msg, key, rule)
        return self.violation(fi, node, construct, bad_msg, key, rule, name_free)

    def note(self, text: str):
        self.notes.append(text)

    def run(self, fn, *args, **kw):
        """Run one rule function; an AnalysisError is recorded (the rule is undecided) and the other rules still run."""
        try:
            return fn(self, *args, **kw)
        except AnalysisError as e:
            self.errors.append((self.current_rule or getattr(fn, "__name__", "?"), f"{type(e).__name__}: {e}"))
            return None

    # -- summaries
    def violations(self) -> List[Result]:
        return [r for r in self.results if r.status == "violation"]

    def oks(self) -> List[Result]:
        return [r for r in self.results if r.status == "ok"]


def load_known() -> Dict:
    if not os.path.exists(KNOWN_FILE):
        return {"findings": [], "fixed": []}
    with open(KNOWN_FILE) as f:
        return json.load(f)


def is_known(r: Result, known: Dict) -> Optional[Dict]:
    for k in known.get("findings", []):
        if k.get("property") == r.prop and k.get("rule") == r.rule and k.get("function") == r.function \
                and norm_key(k.get("key", "")) == r.key:
            return k
    return None


def write_evidence(ctx: Ctx, wall: float, n_viol: int, explanation: str, assumptions: List[str], extra: Dict = None,
                   error: str = None):
    os.makedirs(EVIDENCE_DIR, exist_ok=True)
    oks = ctx.oks()
    viols = ctx.violations()
    distinct = len({r.ident() for r in ctx.results if r.status in ("ok", "violation")})
    samples = [
        {"rule": r.rule, "file": r.file, "line": r.line, "function": r.function, "construct": r.construct,
         "verdict": r.status, "message": r.message}
        for r in (viols + oks)[:40]
    ]
    if not samples:
        samples = [{"note": "no rule instance evaluated", "error": error or ""}]
    cov = {
        "explanation": explanation,
        "evaluations": max(len(ctx.results), 0),
        "distinct_nontrivial": distinct,
        "rule": "one evaluation = one rule instance (rule x resolved construct in /repo's current source); distinct = "
                "different (rule, function, construct key); non-trivial = the construct was found and the rule's premise "
                "applied to it (instances whose anchor is absent are analysis errors, not counted)",
        "samples": samples,
        "obligations": len(oks) + len(viols),
        "discharged": len(oks),
        "rules": ctx.rules,
        "functions_analysed": sorted(ctx.functions_analysed),
        "n_functions_analysed": len(ctx.functions_analysed),
        "modules_parsed": sorted(ctx.repo.modules) if ctx.repo else [],
        "source_digest": ctx.repo.digest() if ctx.repo else "",
        "notes": ctx.notes,
        "normalisation_applied": getattr(ctx.repo, "normalised", {}) if ctx.repo else {},
        "unresolved_roles": getattr(ctx.repo, "unresolved", {}) if ctx.repo else {},
        "checker_cmd": f"python3-vt /verif/check {ctx.prop} --tier {ctx.tier}",
        "trusted_base": ["CPython ast module", "sa/models.py third-party model table (numpy, scipy, mtscomp, pathlib, joblib)",
                         "the rule tables in rules/%s.py" % ctx.prop],
        "exhaustive": False,
    }
    if extra:
        cov.update(extra)
    if error:
        cov["analysis_error"] = error
    ev = {
        "property_id": ctx.prop,
        "tier": ctx.tier if ctx.tier in ("quick", "thorough") else "quick",
        "seed": int(os.environ.get("VERIF_SEED", "0") or 0),
        "level": "other",
        "coverage": cov,
        "assumptions": assumptions,
        "wall_s": round(wall, 3),
        "violations": n_viol,
    }
    path = os.path.join(EVIDENCE_DIR, f"{ctx.prop}.json")
    tmp = path + ".tmp"
    with open(tmp, "w") as f:
        json.dump(ev, f, indent=1, sort_keys=False, default=str)
    os.replace(tmp, path)
    return path


def write_replay(r: Result, n: int) -> str:
    d = os.path.join(EVIDENCE_DIR, "replay")
    os.makedirs(d, exist_ok=True)
    path = os.path.join(d, f"{r.prop}-{r.rule}-{n}.json")
    with open(path, "w") as f:
        json.dump(asdict(r), f, indent=1)
    return path
