"""Role table: for each analysed function, the local variables that rules name literally, with the structural
pattern(s) that identify each of them when it is spelled differently (see sa/roles.py).  Canonical spelling = the
spelling in the pinned tree.  Several patterns may be given for one role; the first that matches wins."""

R = {}

# ------------------------------------------------------------------------------------------------ spikeglx
R["spikeglx.geometry_from_meta"] = [
    ("V__ = _get_neuropixel_major_version_from_meta(A__)", {"V__": "major_version"}),
    ("V__ = _map_channels_from_meta(A__)", {"V__": "cm"}),
    ("V__ = cm.copy()", {"V__": "th"}),
]
R["spikeglx._conversion_sample2v_from_meta"] = [
    ("V__ = int2volts(A__)", {"V__": "int2volt"}),
    ("V__ = _get_nchannels_from_meta(A__) - len(_get_sync_trace_indices_from_meta(B__))", {"V__": "n_chn"}),
    ("V__ = _get_nchannels_from_meta(A__)", {"V__": "n_chn"}),
]
R["spikeglx._get_sync_trace_indices_from_meta"] = [
    ("V__ = int(_get_nchannels_from_meta(A__))", {"V__": "ntr"}),
    ("V__ = int(md.get('snsApLfSy')[A__])", {"V__": "nsync"}),
    ("V__ = int(md.get('snsMnMaXaDw')[A__])", {"V__": "nsync"}),
]
R["spikeglx._get_type_from_meta"] = [
    ("V__ = md.get('snsApLfSy', A__)", {"V__": "snsApLfSy"}),
]
R["spikeglx.Reader.read_sync"] = [
    ("V__ = self.read_sync_digital(A__)", {"V__": "digital"}),
    ("V__ = self.read_sync_analog(A__)", {"V__": "analog"}),
]
R["spikeglx.Reader.compress_file"] = [
    ("V__ = self.file_bin.with_suffix(A__)", {"V__": "file_tmp"}),
    ("V__ = file_tmp.with_suffix(A__)", {"V__": "file_out"}),
]

# ------------------------------------------------------------------------------------------------ neuropixel
R["neuropixel.adc_shifts"] = [
    ("V2__ = numpy.floor(numpy.arange(NC) / (V1__ * 2)) * 2 + numpy.mod(numpy.arange(NC), 2)", {"V1__": "adc_channels", "V2__": "adc"}),
    ("V__ = numpy.zeros_like(adc)", {"V__": "sample_shift"}),
    ("sample_shift[A__] = numpy.arange(adc_channels) / V__", {"V__": "n_cycles"}),
]
R["neuropixel.rc2xy"] = [("V__ = CHANNEL_GRID[version]", {"V__": "grid"})]
R["neuropixel.xy2rc"] = [("V__ = CHANNEL_GRID[version]", {"V__": "grid"})]
R["neuropixel.NP2Converter._ind2save"] = [
    ("V__ = [A__, B__]", {"V__": "ind2save"}),
]
R["neuropixel.NP2Converter.process"] = [
    ("V__ = self._process_NP24(overwrite=A__)", {"V__": "status"}),
    ("V__ = self._process_NP21(overwrite=A__)", {"V__": "status"}),
]
R["neuropixel.NP2Converter.check_NP24"] = [
    ("for V1__, V2__ in enumerate(self.shank_info.keys()): pass", {"V1__": "ish", "V2__": "sh"}),
    ("V__ = numpy.zeros_like(A__)", {"V__": "chunk"}),
    ("V__ = self.sr[A__, B__]", {"V__": "expected"}),
]
R["neuropixel.NP2Reconstructor._reconstruct"] = [
    ("for V1__, V2__ in enumerate(self.shank_info.keys()): pass", {"V1__": "ish", "V2__": "sh"}),
    ("V__ = numpy.zeros((A__, self.nch), dtype=B__)", {"V__": "chunk"}),
    ("V__ = open(self.save_file, 'wb')", {"V__": "file_out"}),
]
R["neuropixel.NP2Converter._writemetadata_ap"] = [
    ("for V__ in self.shank_info.keys(): pass", {"V__": "sh"}),
    ("V__ = copy.deepcopy(self.sr.meta)", {"V__": "meta_shank"}),
    ("V__ = len(self.shank_info[sh]['chns'])", {"V__": "n_chns"}),
]
R["neuropixel.NP2Converter._writemetadata_lf"] = list(R["neuropixel.NP2Converter._writemetadata_ap"])
R["neuropixel.NP2Reconstructor.write_metadata"] = [
    ("V__ = spikeglx.read_meta_data(self.shank_info[A__][B__].with_suffix(C__))", {"V__": "meta_shank"}),
]
R["neuropixel.NP2Converter._prepare_files_NP24"] = [
    ("V__ = spikeglx._map_channels_from_meta(A__)", {"V__": "chn_info"}),
    ("V__ = self.nshank or A__", {"V__": "n_shanks"}),
    ("for V__ in n_shanks: pass", {"V__": "sh"}),
]
R["neuropixel.NP2Converter._prepare_files_NP21"] = [
    ("V__ = spikeglx._map_channels_from_meta(A__)", {"V__": "chn_info"}),
    ("V__ = numpy.unique(chn_info['shank']).astype(A__)", {"V__": "n_shanks"}),
    ("for V__ in n_shanks: pass", {"V__": "sh"}),
]
R["neuropixel.NP2Converter._split2shanks"] = [
    ("for V__ in self.shank_info.keys(): pass", {"V__": "sh"}),
]
R["neuropixel.NP2Converter.compress_NP24"] = [
    ("for V__ in self.shank_info.keys(): pass", {"V__": "sh"}),
    ("V__ = self.shank_info[sh]['ap_file']", {"V__": "bin_file"}),
    ("V__ = self.shank_info[sh]['lf_file']", {"V__": "bin_file"}),
    ("V__ = bin_file.with_suffix('.cbin')", {"V__": "cbin_file"}),
]
R["neuropixel.NP2Converter.compress_NP21"] = [
    ("for V__ in self.shank_info.keys(): pass", {"V__": "sh"}),
    ("V__ = self.shank_info[sh]['lf_file']", {"V__": "bin_file"}),
    ("V__ = bin_file.with_suffix('.cbin')", {"V__": "cbin_file"}),
    ("V__ = self.sr.compress_file()", {"V__": "cbin_file"}),
]

# ------------------------------------------------------------------------------------------------ ibldsp.utils
R["ibldsp.utils.fronts"] = [
    ("V__ = numpy.diff(x, axis=axis)", {"V__": "d"}),
    ("V__ = numpy.array(numpy.where(A__))", {"V__": "ind"}),
    ("V__ = d[tuple(ind)]", {"V__": "sign"}),
]
R["ibldsp.utils.rises"] = [("V__ = numpy.array(numpy.where(A__))", {"V__": "ind"})]
R["ibldsp.utils.make_channel_index"] = [
    ("V__ = scipy.spatial.distance.squareform(A__) <= radius", {"V__": "neighbors"}),
    ("V__ = geom.shape[0]", {"V__": "nc"}),
]
R["ibldsp.utils.WindowGenerator.firstlast"] = [
    ("V__ = 0", {"V__": "first"}),
    ("V__ = first + self.nswin", {"V__": "last"}),
]
R["ibldsp.utils.WindowGenerator.firstlast_valid"] = [
    ("for V1__, V2__ in self.firstlast: pass", {"V1__": "first", "V2__": "last"}),
]
R["ibldsp.utils.WindowGenerator.firstlast_splicing"] = [
    ("for V1__, V2__ in self.firstlast: pass", {"V1__": "first", "V2__": "last"}),
    ("V__ = scipy.signal.windows.hann(A__, sym=True)[B__]", {"V__": "w"}),
    ("V__ = numpy.ones(A__)", {"V__": "amp"}),
]

# ------------------------------------------------------------------------------------------------ ibldsp.fourier
R["ibldsp.fourier.convolve"] = [
    ("V__ = x.shape[-1]", {"V__": "nsx"}),
    ("V__ = w.shape[-1]", {"V__": "nsw"}),
    ("V__ = ns_optim_fft(A__)", {"V__": "ns"}),
    ("V__ = numpy.concatenate((x, A__), axis=-1)", {"V__": "x_"}),
    ("V__ = numpy.concatenate((w, A__), axis=-1)", {"V__": "w_"}),
    ("V__ = numpy.real(numpy.fft.irfft(*A__))", {"V__": "xw"}),
    ("V__ = numpy.fft.irfft(*A__)", {"V__": "xw"}),
    ("V__ = int(numpy.floor(A__)) - B__", {"V__": "first"}),
    ("V__ = int(numpy.floor(A__))", {"V__": "first"}),
    ("V__ = int(numpy.ceil(A__)) + B__", {"V__": "last"}),
    ("V__ = int(numpy.ceil(A__))", {"V__": "last"}),
]
R["ibldsp.fourier.fshift"] = [
    ("V__ = numpy.array(w.shape) * 0 + 1", {"V__": "shape"}),
    ("V__ = numpy.zeros(shape)", {"V__": "dephas"}),
    ("V__ = numpy.invert(numpy.iscomplexobj(w))", {"V__": "do_fft"}),
    ("V__ = not numpy.iscomplexobj(w)", {"V__": "do_fft"}),
    ("V__ = scipy.fft.rfft(w, axis=axis)", {"V__": "W"}),
]
R["ibldsp.fourier._freq_vector"] = [("V__ = fcn_cosine(b)(f)", {"V__": "filc"})]
R["ibldsp.fourier._freq_filter"] = [("V__ = ts.shape[axis]", {"V__": "ns"})]
R["ibldsp.fourier.fscale"] = [("V__ = numpy.arange(A__, B__) / C__ / D__", {"V__": "fsc"}), ("V__ = numpy.arange(*A__) / B__", {"V__": "fsc"})]
R["ibldsp.fourier.freduce"] = [("V__ = list(x.shape)", {"V__": "siz"})]
R["ibldsp.fourier.fexpand"] = [("V__ = int(A__)", {"V__": "ilast"})]

# ------------------------------------------------------------------------------------------------ ibldsp.voltage
R["ibldsp.voltage.agc"] = [
    ("V__ = fourier.convolve(A__, B__, mode=C__)", {"V__": "gain"}),
]
for _f in ("fk", "kfilt", "car"):
    R[f"ibldsp.voltage.{_f}"] = [
        ("V__ = numpy.zeros_like(x)", {"V__": "xout"}),
    ]
for _f in ("fk", "kfilt"):
    R[f"ibldsp.voltage.{_f}"] += [
        ("V1__, V2__ = agc(x, wl=A__, si=B__)", {"V1__": "xf", "V2__": "gain"}),
    ]
R["ibldsp.voltage.interpolate_bad_channels"] = [
    ("for V1__ in V2__: pass", {"V1__": "i", "V2__": "bad_channels"}),
    ("V__ = numpy.exp(A__)", {"V__": "weights"}),
    ("V__ = numpy.where(weights > A__)[0]", {"V__": "imult"}),
    ("V__ = numpy.where(weights != A__)[0]", {"V__": "imult"}),
]
R["ibldsp.voltage.destripe"] = [
    ("butter_kwargs, k_kwargs, V__ = _get_destripe_parameters(A__, B__, C__, D__)", {"V__": "spatial_fcn"}),
]
R["ibldsp.voltage.decompress_destripe_cbin"] = [
    ("butter_kwargs, k_kwargs, V__ = _get_destripe_parameters(A__, B__, C__, D__)", {"V__": "spatial_fcn"}),
    ("V__ = spikeglx.Reader(sr_file, open=True, **reader_kwargs)", {"V__": "sr"}),
    ("V__ = detect_bad_channels_cbin(sr)", {"V__": "channel_labels"}),
    ("V2__ = numpy.r_[0, scipy.signal.windows.cosine((V1__ - 1) * 2), 0]", {"V1__": "SAMPLES_TAPER", "V2__": "taper"}),
    ("V__ = nbatch or A__", {"V__": "NBATCH"}),
    ("V__ = int(sr.ns / nprocesses)", {"V__": "CHUNK_SIZE"}),
    ("V__ = dtype(1).nbytes", {"V__": "nbytes"}),
    ("V__ = h['sample_shift'].size", {"V__": "ncv"}),
    ("V__ = output_file.parent.joinpath('_iblqc_ephysSaturation.samples.npy')", {"V__": "file_saturation"}),
    ("V__ = output_file.parent.joinpath('ap_rms.bin')", {"V__": "ap_rms_file"}),
    ("V__ = output_file.parent.joinpath('ap_time.bin')", {"V__": "ap_time_file"}),
    ("V__ = numpy.float32(1).nbytes", {"V__": "rms_nbytes"}),
    ("V__ = Path(ap_rms_file).stat().st_size", {"V__": "rms_offset"}),
    ("V__ = Path(ap_time_file).stat().st_size", {"V__": "time_offset"}),
    ("V__ = Path(output_file).stat().st_size", {"V__": "offset"}),
    ("V__ = numpy.zeros((ncv, NBATCH), dtype=A__)", {"V__": "dephas"}),
    ("V__ = pyfftw.FFTW(A__, B__, axes=C__, direction='FFTW_FORWARD', threads=D__)", {"V__": "fft_object"}),
    ("V__ = numpy.exp(A__)", {"V__": "DEPHAS"}),
]
R["ibldsp.voltage.decompress_destripe_cbin.my_function"] = [
    ("V__ = spikeglx.Reader(sr_file, **reader_kwargs)", {"V__": "_sr"}),
    ("V__ = numpy.load(file_saturation, mmap_mode='r+')", {"V__": "_saturation"}),
    ("V__ = numpy.load(file_saturation, mmap_mode='r+') if A__ else None", {"V__": "_saturation"}),
    ("V__ = int(numpy.ceil(i_chunk * CHUNK_SIZE / A__))", {"V__": "n_batch"}),
    ("V__ = (NBATCH - SAMPLES_TAPER * 2) * n_batch", {"V__": "first_s"}),
    ("V__ = A__ * n_batch", {"V__": "first_s"}),
    ("V__ = A__ if i_chunk == n_chunk - 1 else B__", {"V__": "max_s"}),
    ("V__ = pyfftw.FFTW(A__, B__, axes=C__, direction='FFTW_FORWARD', threads=D__)", {"V__": "fft_object"}),
    ("V__ = pyfftw.FFTW(A__, B__, axes=C__, direction='FFTW_BACKWARD', threads=D__)", {"V__": "ifft_object"}),
    ("V__ = open(output_file, 'r+b')", {"V__": "fid"}),
    ("V__ = open(ap_rms_file, 'r+b')", {"V__": "aid"}),
    ("V__ = open(ap_time_file, 'r+b')", {"V__": "tid"}),
    ("V__ = numpy.minimum(NBATCH + first_s, _sr.ns)", {"V__": "last_s"}),
    ("V__ = numpy.minimum(A__, _sr.ns)", {"V__": "last_s"}),
    ("V__ = _sr[first_s:last_s, :ncv].T", {"V__": "chunk"}),
    ("V__ = [A__, B__]", {"V__": "ind2save"}),
    ("V__ = 1 / _sr.sample2volts", {"V__": "intnorm"}),
]
R["ibldsp.voltage.detect_bad_channels"] = [
    ("V__, A__ = raw.shape", {"V__": "nc"}),
    ("V__ = {'ind': A__, 'rms_raw': B__, 'xcor_hf': C__, 'xcor_lf': D__, 'psd_hf': E__}", {"V__": "xfeats"}),
    ("V__ = numpy.zeros(nc)", {"V__": "ichannels"}),
    ("V__ = numpy.where(similarity_threshold[0] > A__)[0]", {"V__": "idead"}),
    ("V__ = numpy.where(numpy.logical_or(A__, B__))[0]", {"V__": "inoisy"}),
    ("V__ = numpy.where(xfeats['xcor_lf'] < A__)[0]", {"V__": "ioutside"}),
]
R["ibldsp.voltage.detect_bad_channels_cbin"] = [
    ("V__ = bin_file if isinstance(bin_file, spikeglx.Reader) else spikeglx.Reader(bin_file)", {"V__": "sr"}),
    ("V__ = sr.nc - sr.nsync", {"V__": "nc"}),
    ("V__ = numpy.zeros((nc, n_batches))", {"V__": "channel_labels"}),
    ("for V1__, V2__ in enumerate(numpy.linspace(*A__)): pass", {"V1__": "i", "V2__": "t0"}),
]

# ------------------------------------------------------------------------------------------------ waveform_extraction
R["ibldsp.waveform_extraction._make_wfs_table"] = [
    ("V__ = (spike_samples > A__) & B__", {"V__": "allowed_idx"}),
    ("V__ = numpy.logical_and(spike_samples > A__, B__)", {"V__": "allowed_idx"}),  # `&` of two comparisons is normalised to logical_and
    ("V__ = numpy.random.default_rng(seed=seed)", {"V__": "rng"}),
    ("V__ = numpy.unique(spike_clusters)", {"V__": "unit_ids"}),
    ("V__ = unit_ids.shape[0]", {"V__": "nu"}),
    ("V__ = numpy.full((nu, max_wf), A__, int)", {"V__": "unit_wf_idx"}),
    ("V__ = numpy.zeros((nu, max_wf), int)", {"V__": "unit_wf_idx"}),
    ("for V1__, V2__ in enumerate(unit_ids): pass", {"V1__": "i", "V2__": "u"}),
    ("V__ = numpy.where((spike_clusters == u) & allowed_idx)[0]", {"V__": "u_spikeidx"}),
    ("V__ = u_spikeidx.shape[0]", {"V__": "nspikes"}),
    ("V__ = numpy.sort(unit_wf_idx.flatten())", {"V__": "wf_idx"}),
    ("V__ = pd.DataFrame(A__)", {"V__": "wf_flat"}),
]
R["ibldsp.waveform_extraction.write_wfs_chunk"] = [
    ("V__ = spikeglx.Reader(cbin, **reader_kwargs)", {"V__": "my_sr"}),
    ("V1__, V2__ = sr_sl", {"V1__": "s0", "V2__": "s1"}),
    ("V__ = trough_offset", {"V__": "offset"}),
    ("V__ = wf_flat['sample'].astype(int) + A__ - B__", {"V__": "sample"}),
    ("V__ = wf_flat['peak_channel']", {"V__": "peak_channel"}),
    ("V__ = pd.DataFrame(A__)", {"V__": "df"}),
    ("V__ = my_sr[A__, B__].T", {"V__": "snip"}),
]
R["ibldsp.waveform_extraction.extract_wfs_cbin"] = [
    ("V__ = spikeglx.Reader(bin_file, **reader_kwargs)", {"V__": "sr"}),
    ("V__ = numpy.arange(0, A__, chunksize_samples)", {"V__": "s0_arr"}),
    ("V__ = s0_arr + chunksize_samples", {"V__": "s1_arr"}),
    ("V1__, V2__ = _make_wfs_table(*A__)", {"V1__": "wf_flat", "V2__": "unit_ids"}),
    ("V__ = make_channel_index(A__)", {"V__": "channel_neighbors"}),
    ("V__ = [A__ for B__ in range(C__)]", {"V__": "slices"}),
    ("V__ = bin_file", {"V__": "file_to_unlink"}),
]
R["ibldsp.waveform_extraction.extract_wfs_array"] = [
    ("V__ = numpy.empty((1, arr.shape[1]))", {"V__": "newcol"}),
    ("V__ = channel_neighbors[A__]", {"V__": "cind"}),
    ("V__ = df['sample'].to_numpy()[:, numpy.newaxis] + A__", {"V__": "sind"}),
    ("V__ = len(df)", {"V__": "nwf"}),
    ("V__ = numpy.zeros((A__, B__, spike_length_samples), C__)", {"V__": "wfs"}),
]

# ------------------------------------------------------------------------------------------------ waveforms
R["ibldsp.waveforms.recovery_point"] = [
    ("V__ = df['trough_time_idx'].to_numpy() + idx_from_trough", {"V__": "idx_all"}),
]
R["ibldsp.waveforms.arr_pre_post"] = [
    ("V__ = numpy.zeros(arr_peak.shape)", {"V__": "arr_mask"}),
    ("V__ = numpy.where(arr_mask == 0)", {"V__": "indx_prepeak"}),
    ("V__ = numpy.where(arr_mask == 1)", {"V__": "indx_postpeak"}),
]
R["ibldsp.waveforms.pick_maxima"] = [("V__ = numpy.max(numpy.abs(A__), axis=1)", {"V__": "max_vals"})]
R["ibldsp.waveforms.pick_maximum"] = [
    ("V1__, V2__ = pick_maxima(arr_in)", {"V1__": "indx_maxs", "V2__": "max_vals"}),
    ("V__ = numpy.argmax(max_vals, axis=1)", {"V__": "indx_trace"}),
    ("V__ = numpy.argmax(max_vals)", {"V__": "indx_trace"}),
    ("V__ = indx_maxs[A__, indx_trace]", {"V__": "indx_peak"}),
    ("V__ = arr_in[A__, B__, C__]", {"V__": "val_peak"}),
]
R["ibldsp.waveforms.find_tip_trough"] = [("V__ = df.index[A__]", {"V__": "df_index"})]
R["ibldsp.waveforms.find_trough"] = [("V1__, V2__ = arr_pre_post(*A__)", {"V1__": "arr_pre", "V2__": "arr_post"})]
R["ibldsp.waveforms.find_tip"] = [("V1__, V2__ = arr_pre_post(*A__)", {"V1__": "arr_pre", "V2__": "arr_post"})]
R["ibldsp.waveforms.half_peak_point"] = [
    ("V__ = df['peak_val'].to_numpy() / 2 * A__", {"V__": "half_max"}),
    ("V__ = numpy.tile(half_max, A__).transpose()", {"V__": "half_max_rep"}),
    ("V__ = arr_peak - half_max_rep", {"V__": "arr_sub"}),
    ("V1__, V2__ = arr_pre_post(*A__)", {"V1__": "arr_pre", "V2__": "arr_post"}),
    ("V__ = numpy.fliplr(arr_pre)", {"V__": "arr_pre_flip"}),
]
R["ibldsp.waveforms.wave_shift_corrmax"] = [
    ("V__ = spike.shape[0]", {"V__": "sig_len"}),
    ("V1__, V2__ = parabolic_max(A__)", {"V1__": "ipeak", "V2__": "maxi"}),
]

# ------------------------------------------------------------------------------------------------ C19 / C20
R["ibldsp.utils.sync_timestamps"] = [
    ("V__ = numpy.zeros(tsa.shape, dtype=A__) - 1", {"V__": "ib"}),
    ("V__ = numpy.full(tsa.shape, -1, dtype=A__)", {"V__": "ib"}),
    ("V__ = numpy.zeros(A__)", {"V__": "x"}),
    ("V__ = numpy.zeros_like(x)", {"V__": "y"}),
    ("V__ = (parabolic_max(A__)[0] - B__ + 1) * tbin", {"V__": "delta_t"}),
    ("V__ = numpy.where(ib < 0)[0]", {"V__": "iamiss"}),
    ("V__ = numpy.setxor1d(A__, B__)", {"V__": "ibmiss"}),
    ("V__ = numpy.abs(F__(tsa[A__]) - B__)", {"V__": "dt"}),
]
R["ibldsp.utils.sync_timestamps._interp_fcn"] = [
    ("V__ = numpy.polyfit(A__, B__, 1)", {"V__": "ab"}),
    ("V__ = ab[0] * 1000000.0", {"V__": "drift_ppm"}),
]
R["ibldsp.spiketrains._spikes_venn"] = [
    ("V__ = max([numpy.max(samples) for samples in samples_tuple])", {"V__": "max_samples"}),
    ("V__ = int(max_samples // chunk_size + 1)", {"V__": "num_chunks"}),
    ("V__ = numpy.zeros(A__, int)", {"V__": "pre_result"}),
    ("V__ = numpy.array([2 ** i for i in range(A__, -1, -1)])", {"V__": "vec"}),
    ("V1__, V2__ = numpy.unique(A__, return_counts=True)", {"V1__": "conds", "V2__": "counts"}),
]
R["ibldsp.voltage.stack"] = [
    ("V__ = numpy.zeros((A__, B__), dtype=data.dtype)", {"V__": "stack"}),
]
R["ibldsp.smooth.non_uniform_savgol"] = [
    ("V__ = window // 2", {"V__": "half_window"}),
    ("V__ = numpy.full(len(y), numpy.nan)", {"V__": "y_smoothed"}),
    ("V__ = numpy.empty(window)", {"V__": "t"}),
]

# ------------------------------------------------------------------------------------------------ additions
_GP = ("V__ = numpy", {"V__": "gp"})  # `gp = np` array-module alias (cupy stand-in); must resolve first
for _q in ("ibldsp.voltage.agc", "ibldsp.voltage.kfilt", "ibldsp.voltage.interpolate_bad_channels", "ibldsp.fourier.convolve", "ibldsp.utils.fcn_cosine"):
    R[_q] = [_GP] + R.get(_q, [])
_WG = [("V__ = WindowGenerator(A__, B__, C__)", {"V__": "wg"}), ("for V1__, V2__ in wg.firstlast: pass", {"V1__": "first", "V2__": "last"})]
for _q in ("neuropixel.NP2Converter.check_NP24", "neuropixel.NP2Reconstructor._reconstruct", "neuropixel.NP2Converter._process_NP24", "neuropixel.NP2Converter._process_NP21"):
    R[_q] = _WG + R.get(_q, [])
R["neuropixel.adc_shifts"] += [("for V__ in adc: pass", {"V__": "a"})]
R["ibldsp.utils._fcn_extrap"] = [("V__ = f(x)", {"V__": "y"})]
