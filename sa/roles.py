"""Role resolution: rules name local variables by the spelling they have in the pinned tree; this module maps a
differently spelled local back to that canonical spelling by the *role* it plays (a structural pattern with
metavariables), so that renaming a local - a behaviour-preserving edit - neither raises an alarm nor blinds a rule.

* If the canonical name is bound in the function, nothing happens (the common case, including every mutant that
  leaves names alone).
* Otherwise the role's patterns are matched against the function's statements; the variable bound to the
  metavariable is renamed (in the in-memory AST only) to the canonical spelling.
* If no pattern matches, the role is *unresolved*: `Repo.fn()` raises AnalysisError for that function (exit 2),
  never a violation.

Pattern language (Python syntax): names ending in `__` are metavariables.  `V__`, `V1__`, `V2__` ... bind to a
*variable name* (the target must be a plain Name).  Any other `X__` is a wildcard expression (used twice: must match
equal expressions; matches an absent slice bound too).  Everything else is literal; numpy/cupy aliases are unified; extra keyword
arguments in the target call are tolerated.  Statement kinds understood: assignment, augmented assignment, for
header (`for ... in ...: pass`), with header, bare expression.
"""
from __future__ import annotations

import ast
from typing import Dict, List, Optional, Tuple

from .model import ARRAY_ALIASES


def _is_meta(name: str) -> bool:
    return name.endswith("__")


def _is_var_meta(name: str) -> bool:
    return name.endswith("__") and name[0] == "V" and name[1:-2].isdigit() or name == "V__"


def _nid(name: str) -> str:
    return "numpy" if name in ARRAY_ALIASES else name


def _dump(e) -> str:
    class N(ast.NodeTransformer):
        def visit_Name(self, n):
            return ast.Name(id=_nid(n.id), ctx=ast.Load())

        def visit_Attribute(self, n):
            return ast.Attribute(value=self.visit(n.value), attr=n.attr, ctx=ast.Load())

        def visit_Subscript(self, n):
            return ast.Subscript(value=self.visit(n.value), slice=self.visit(n.slice), ctx=ast.Load())
    import copy
    return ast.dump(N().visit(copy.deepcopy(e)), annotate_fields=False)


def match(p, t, b: Dict[str, object]) -> bool:
    """Match pattern node p against target node t, extending bindings b."""
    if isinstance(p, ast.Name) and _is_meta(p.id):
        if _is_var_meta(p.id):
            if not isinstance(t, ast.Name):
                return False
            if p.id in b:
                return b[p.id] == t.id
            b[p.id] = t.id
            return True
        key = p.id
        d = "<none>" if t is None else _dump(t)
        if key in b:
            return b[key] == d
        b[key] = d
        return True
    if p is None or t is None:
        return p is None and t is None
    if isinstance(p, ast.Name):
        return isinstance(t, ast.Name) and _nid(p.id) == _nid(t.id)
    if isinstance(p, ast.Constant):
        return isinstance(t, ast.Constant) and p.value == t.value and type(p.value) is type(t.value)
    if type(p) is not type(t):
        return False
    if isinstance(p, ast.Attribute):
        return p.attr == t.attr and match(p.value, t.value, b)
    if isinstance(p, ast.Subscript):
        return match(p.value, t.value, b) and match(p.slice, t.slice, b)
    if isinstance(p, ast.Slice):
        return match(p.lower, t.lower, b) and match(p.upper, t.upper, b) and match(p.step, t.step, b)
    if isinstance(p, ast.Starred):
        return match(p.value, t.value, b)
    if isinstance(p, (ast.Tuple, ast.List)):
        return len(p.elts) == len(t.elts) and all(match(x, y, b) for x, y in zip(p.elts, t.elts))
    if isinstance(p, ast.Call):
        if not match(p.func, t.func, b):
            return False
        pa, ta = list(p.args), list(t.args)
        if pa and isinstance(pa[-1], ast.Starred) and isinstance(pa[-1].value, ast.Name) and _is_meta(pa[-1].value.id) and not (ta and isinstance(ta[-1], ast.Starred)):
            pa = pa[:-1]  # *REST__ : any further positional arguments
            ta = ta[: len(pa)]
        if len(pa) != len(ta) or not all(match(x, y, b) for x, y in zip(pa, ta)):
            return False
        tk = {k.arg: k.value for k in t.keywords}
        for k in p.keywords:
            if k.arg is None:
                continue
            if k.arg not in tk or not match(k.value, tk[k.arg], b):
                return False
        return True
    if isinstance(p, ast.BinOp):
        return type(p.op) is type(t.op) and match(p.left, t.left, b) and match(p.right, t.right, b)
    if isinstance(p, ast.UnaryOp):
        return type(p.op) is type(t.op) and match(p.operand, t.operand, b)
    if isinstance(p, ast.BoolOp):
        return type(p.op) is type(t.op) and len(p.values) == len(t.values) and all(match(x, y, b) for x, y in zip(p.values, t.values))
    if isinstance(p, ast.Compare):
        return len(p.ops) == len(t.ops) and all(type(x) is type(y) for x, y in zip(p.ops, t.ops)) and match(p.left, t.left, b) \
            and all(match(x, y, b) for x, y in zip(p.comparators, t.comparators))
    if isinstance(p, ast.IfExp):
        return match(p.test, t.test, b) and match(p.body, t.body, b) and match(p.orelse, t.orelse, b)
    if isinstance(p, ast.Dict):
        return len(p.keys) == len(t.keys) and all(match(x, y, b) for x, y in zip(p.keys, t.keys)) and all(match(x, y, b) for x, y in zip(p.values, t.values))
    if isinstance(p, (ast.ListComp, ast.GeneratorExp)):
        return len(p.generators) == len(t.generators) and match(p.elt, t.elt, b) and all(
            match(g.target, h.target, b) and match(g.iter, h.iter, b) for g, h in zip(p.generators, t.generators))
    if isinstance(p, ast.DictComp):
        return len(p.generators) == len(t.generators) and match(p.key, t.key, b) and match(p.value, t.value, b) and all(
            match(g.target, h.target, b) and match(g.iter, h.iter, b) for g, h in zip(p.generators, t.generators))
    if isinstance(p, ast.JoinedStr):
        return _dump(p) == _dump(t)
    if isinstance(p, ast.keyword):
        return p.arg == t.arg and match(p.value, t.value, b)
    return _dump(p) == _dump(t)


def match_stmt(p: ast.stmt, t: ast.stmt) -> Optional[Dict[str, object]]:
    b: Dict[str, object] = {}
    if isinstance(p, ast.Assign) and isinstance(t, ast.Assign):
        if len(t.targets) == 1 and match(p.targets[0], t.targets[0], b) and match(p.value, t.value, b):
            return b
        return None
    if isinstance(p, ast.Assign) and isinstance(t, ast.AnnAssign) and t.value is not None:
        if match(p.targets[0], t.target, b) and match(p.value, t.value, b):
            return b
        return None
    if isinstance(p, ast.AugAssign) and isinstance(t, ast.AugAssign):
        if type(p.op) is type(t.op) and match(p.target, t.target, b) and match(p.value, t.value, b):
            return b
        return None
    if isinstance(p, ast.For) and isinstance(t, ast.For):
        if match(p.target, t.target, b) and match(p.iter, t.iter, b):
            return b
        return None
    if isinstance(p, ast.With) and isinstance(t, ast.With):
        if len(p.items) == len(t.items) and all(match(x.context_expr, y.context_expr, b) and match(x.optional_vars, y.optional_vars, b) for x, y in zip(p.items, t.items)):
            return b
        return None
    if isinstance(p, ast.Expr) and isinstance(t, ast.Expr):
        return b if match(p.value, t.value, b) else None
    if isinstance(p, ast.Return) and isinstance(t, ast.Return):
        return b if match(p.value, t.value, b) else None
    return None


def own_statements(fn_node) -> List[ast.stmt]:
    out = []
    stack = list(reversed(fn_node.body))
    while stack:
        s = stack.pop()
        out.append(s)
        if isinstance(s, (ast.FunctionDef, ast.AsyncFunctionDef, ast.ClassDef)):
            continue
        for fld in ("body", "orelse", "finalbody"):
            for c in reversed(getattr(s, fld, []) or []):
                if isinstance(c, ast.stmt):
                    stack.append(c)
        for h in getattr(s, "handlers", []) or []:
            for c in reversed(h.body):
                stack.append(c)
    return out


def bound_names(fn_node) -> set:
    names = set()
    a = fn_node.args
    for p in a.posonlyargs + a.args + a.kwonlyargs:
        names.add(p.arg)
    if a.vararg:
        names.add(a.vararg.arg)
    if a.kwarg:
        names.add(a.kwarg.arg)
    for s in own_statements(fn_node):
        if isinstance(s, (ast.FunctionDef, ast.AsyncFunctionDef, ast.ClassDef)):
            names.add(s.name)
            continue
        for n in _walk_no_nested(s):
            if isinstance(n, ast.Name) and isinstance(n.ctx, (ast.Store, ast.Del)):
                names.add(n.id)
    return names


def _walk_no_nested(node):
    stack = [node]
    while stack:
        n = stack.pop()
        yield n
        for c in ast.iter_child_nodes(n):
            if isinstance(c, (ast.FunctionDef, ast.AsyncFunctionDef, ast.ClassDef, ast.Lambda, ast.ListComp, ast.SetComp, ast.DictComp, ast.GeneratorExp)):
                # comprehension targets are their own scope; their iterables are visited through the generic walk of children below
                if isinstance(c, (ast.ListComp, ast.SetComp, ast.DictComp, ast.GeneratorExp)):
                    for g in c.generators:
                        stack.append(g.iter)
                continue
            stack.append(c)


class _RenameIn(ast.NodeTransformer):
    """Rename variable `old` to `new` inside one function (closures of nested functions included unless they rebind it)."""

    def __init__(self, mapping: Dict[str, str]):
        self.mapping = mapping
        self.blocked: List[set] = []

    def _active(self, name):
        return name in self.mapping and not any(name in b for b in self.blocked)

    def visit_Name(self, node):
        if self._active(node.id):
            return ast.copy_location(ast.Name(id=self.mapping[node.id], ctx=node.ctx), node)
        return node

    def _nested(self, node):
        rebinds = bound_names(node) if not isinstance(node, ast.Lambda) else {a.arg for a in node.args.args}
        self.blocked.append(rebinds & set(self.mapping))
        if isinstance(node, ast.Lambda):
            node.body = self.visit(node.body)
        else:
            node.args.defaults = [self.visit(d) for d in node.args.defaults]
            node.body = [self.visit(s) for s in node.body]
        self.blocked.pop()
        return node

    visit_FunctionDef = visit_AsyncFunctionDef = visit_Lambda = _nested

    def _comp(self, node):
        targets = set()
        for g in node.generators:
            for n in ast.walk(g.target):
                if isinstance(n, ast.Name):
                    targets.add(n.id)
        self.blocked.append(targets & set(self.mapping))
        node = self.generic_visit(node)
        self.blocked.pop()
        return node

    visit_ListComp = visit_SetComp = visit_DictComp = visit_GeneratorExp = _comp


def rename_in_function(fn_node, mapping: Dict[str, str]):
    r = _RenameIn(mapping)
    fn_node.body = [r.visit(s) for s in fn_node.body]


_PARSED: Dict[str, ast.stmt] = {}


def _pattern(text: str) -> ast.stmt:
    if text not in _PARSED:
        _PARSED[text] = ast.parse(text).body[0]
    return _PARSED[text]


def _def_statements(fn_node, name: str) -> List[ast.stmt]:
    out = []
    for s in own_statements(fn_node):
        if isinstance(s, (ast.FunctionDef, ast.AsyncFunctionDef, ast.ClassDef)):
            continue
        heads = []
        if isinstance(s, (ast.Assign, ast.AugAssign, ast.AnnAssign, ast.Delete)):
            heads = [s]
        elif isinstance(s, (ast.For, ast.AsyncFor)):
            heads = [s.target]
        elif isinstance(s, (ast.With, ast.AsyncWith)):
            heads = [i.optional_vars for i in s.items if i.optional_vars is not None]
        for h in heads:
            if any(isinstance(n, ast.Name) and n.id == name and isinstance(n.ctx, (ast.Store, ast.Del)) for n in ast.walk(h)):
                out.append(s)
                break
    return out


def _merge_into_canonical(fn_node, text: str, mapping: Dict[str, str], all_canon) -> None:
    """The role's canonical variable exists already; a second variable filling the same role in another statement
    (one variable of the pinned code split in two, e.g. bin_file -> ap_bin_file / lf_bin_file) is renamed to the canonical
    spelling when the two are never live at the same time."""
    from .normalize import _live_after, vocab
    pat = _pattern(text)
    for s in own_statements(fn_node):
        b = match_stmt(pat, s)
        if b is None or not all(mv in b for mv in mapping):
            continue
        for mv, canon in mapping.items():
            other = b[mv]
            if other == canon or other in all_canon:
                continue
            params = {a.arg for a in fn_node.args.posonlyargs + fn_node.args.args + fn_node.args.kwonlyargs}
            if other in params or canon in params:
                continue
            try:
                disjoint = all(not _live_after(fn_node, d, canon) for d in _def_statements(fn_node, other)) and \
                    all(not _live_after(fn_node, d, other) for d in _def_statements(fn_node, canon))
            except Exception:
                disjoint = False
            if disjoint:
                rename_in_function(fn_node, {other: canon})
    _ = vocab


def resolve_function(fn_node, roles: List[Tuple[str, Dict[str, str]]]) -> List[str]:
    """Apply the role table of one function.  Returns the canonical names that could not be resolved."""
    unresolved = []
    all_canon = {c for _, m in roles for c in m.values()}
    for text, mapping in roles:
        have = bound_names(fn_node)
        need = [c for c in mapping.values() if c not in have]
        if not need:
            _merge_into_canonical(fn_node, text, mapping, all_canon)
            continue
        pat = _pattern(text)
        found = None
        for s in own_statements(fn_node):
            b = match_stmt(pat, s)
            if b is None or not all(mv in b for mv in mapping):
                continue
            # a variable that already carries another role's canonical spelling is not a candidate for this role
            if any(b[mv] in all_canon and b[mv] != canon and b[mv] in have for mv, canon in mapping.items()):
                continue
            found = b
            break
        if found is None:
            continue  # another pattern of the same role may follow; unresolved names are collected at the end
        ren = {found[mv]: canon for mv, canon in mapping.items() if found[mv] != canon and canon in need}
        # never capture a name that is already in use for something else
        ren = {old: new for old, new in ren.items() if new not in have}
        if ren:
            rename_in_function(fn_node, ren)
    have = bound_names(fn_node)
    for text, mapping in roles:
        for canon in mapping.values():
            if canon not in have and canon not in unresolved:
                unresolved.append(canon)
    return unresolved
