"""E9 - per-channel conversion vectors as piecewise-constant vectors (built on the interval-event model of sa/regions.py).

`spikeglx._conversion_sample2v_from_meta` assembles, for each stream, a vector with one volts-per-bit factor per saved channel out of
a few stretches: analog channels (a scalar factor, or one factor per IMRO entry), then sync channels (factor 1).  Whatever the
spelling - np.hstack of np.ones(..) * c, np.full, a preallocated vector filled through slices, np.repeat(values, counts), a numeric
table column - the result is a list of (count, value) stretches.  This module extracts that list statically: counts become
polynomials over the metadata counts (NC saved channels, NSYNC sync channels, MN/MA/XA/DW nidq categories), values become polynomial
normal forms over (range, max-int, gains).  The final arrangement is then compared position by position with the layout the
property states, for every assignment of the counts in a small box (zero counts included - numpy reads `x[:-0]` as empty).
"""
from __future__ import annotations

import ast
import re
from typing import Dict, List, Optional, Tuple

from .algebra import Evaluator, Poly, Undecided
from .defuse import loc_name
from .model import AnalysisError, const_value, src
from .regions import ArrVal, Event, Extractor
from .struct import call_name, kwarg

NIDQ = ("MN", "MA", "XA", "DW")
WRAPPERS = ("int", "float", "float32", "float64", "double", "int32", "int64", "sum", "asarray", "array", "abs")


def _key_of(e: ast.AST) -> Optional[str]:
    """'K' for md['K'] / md.get('K'[, default])."""
    if isinstance(e, ast.Subscript) and isinstance(e.slice, ast.Constant) and isinstance(e.slice.value, str):
        return e.slice.value
    if isinstance(e, ast.Call) and isinstance(e.func, ast.Attribute) and e.func.attr == "get" and e.args and isinstance(e.args[0], ast.Constant) \
            and isinstance(e.args[0].value, str):
        return e.args[0].value
    return None


class MetaEval(Evaluator):
    """Scalars read from the metadata: counts -> NC / NSYNC / NAP / NLF / MN.., gains and ranges -> one symbol per key."""

    def __init__(self, *a, nfields: int = 5, entry_var: Optional[str] = None, **k):
        super().__init__(*a, **k)
        self.nfields = nfields
        self.entry_vars = set([entry_var] if entry_var else [])

    local_functions: Dict[str, ast.FunctionDef] = {}
    decide = None

    def _call_local(self, e: ast.Call) -> Optional[Poly]:
        """A call of a small helper defined next to the analysed code (nested def): its body is a decision tree of scalar returns; it is
        evaluated for the class under evaluation with the arguments substituted."""
        fn = self.local_functions.get(e.func.id) if isinstance(e.func, ast.Name) else None
        if fn is None or e.keywords or len(e.args) != len(fn.args.args):
            return None
        import copy
        from .normalize import _Subst
        sub = _Subst({a.arg: x for a, x in zip(fn.args.args, e.args)})
        saved = dict(self.env)

        def run(stmts):
            for st in stmts:
                if isinstance(st, ast.Expr) and isinstance(st.value, ast.Constant):
                    continue
                st = sub.visit(copy.deepcopy(st))
                if isinstance(st, ast.Return) and st.value is not None:
                    return self.ev(st.value)
                if isinstance(st, ast.Assign) and len(st.targets) == 1 and isinstance(st.targets[0], ast.Name):
                    try:
                        self.env[st.targets[0].id] = self.ev(st.value)
                    except Undecided:
                        self.env.pop(st.targets[0].id, None)
                    continue
                if isinstance(st, ast.If):
                    d = self.decide(st.test) if self.decide else None
                    if d is None:
                        raise Undecided(f"branch `{src(st.test)}` of helper {fn.name} not decided")
                    r = run(st.body if d else st.orelse)
                    if r is not None:
                        return r
                    continue
                raise Undecided(f"statement `{src(st)[:60]}` of helper {fn.name} not understood")
            return None
        try:
            return run(fn.body)
        finally:
            self.env = saved

    def ev(self, e: ast.AST) -> Poly:
        if isinstance(e, ast.Call) and isinstance(e.func, ast.Name) and e.func.id in self.local_functions:
            r = self._call_local(e)
            if r is not None:
                return r
        if isinstance(e, ast.Call):
            nm = call_name(e)
            if nm in WRAPPERS and len(e.args) == 1 and not (nm in ("asarray", "array") and isinstance(e.args[0], (ast.List, ast.ListComp))):
                return self.ev(e.args[0])
            if nm == "count" and isinstance(e.func, ast.Attribute) and len(e.args) == 1 and isinstance(e.args[0], ast.Constant) and e.args[0].value == ")(" \
                    and "imroTbl" in src(e.func.value) + str(getattr(self, "imro_names", "")) or \
                    (nm == "count" and isinstance(e.func, ast.Attribute) and isinstance(e.func.value, ast.Name) and e.func.value.id in getattr(self, "imro_names", ())
                     and len(e.args) == 1 and isinstance(e.args[0], ast.Constant) and e.args[0].value == ")("):
                return Poly.sym("NENT")   # number of IMRO site entries (one ")(" in front of each); at least one per saved analog channel (model assumption, as for findall(..)[:n])
            if nm == "min" and len(e.args) == 2:
                a_, b_ = self.ev(e.args[0]), self.ev(e.args[1])
                if b_ == Poly.sym("NENT"):
                    return a_
                if a_ == Poly.sym("NENT"):
                    return b_
            if nm == "len" and len(e.args) == 1 and isinstance(e.args[0], ast.Name) and e.args[0].id in getattr(self, "range_lens", {}):
                return self.range_lens[e.args[0].id]
            if nm == "len" and len(e.args) == 1 and isinstance(e.args[0], ast.Call) and call_name(e.args[0]) == "range" and len(e.args[0].args) == 2:
                return self.ev(e.args[0].args[1]) - self.ev(e.args[0].args[0])
            if nm == "_get_nchannels_from_meta":
                return Poly.sym("NC")
            if nm == "_get_max_int_from_meta":
                return Poly.sym("MAXINT")
            if nm == "len" and e.args and isinstance(e.args[0], ast.Call) and call_name(e.args[0]) == "_get_sync_trace_indices_from_meta":
                return Poly.sym("NSYNC")
            k = _key_of(e)
            if k is not None:
                return self._key(k, None)
        if isinstance(e, ast.Subscript):
            k = _key_of(e)
            if k is not None:
                return self._key(k, None)
            kb = _key_of(e.value)
            ok, idx = const_value(e.slice)
            if kb is not None and ok and isinstance(idx, int):
                return self._key(kb, idx)
            # field of an IMRO entry: g.split(" ")[k]
            if isinstance(e.value, ast.Call) and call_name(e.value) == "split" and isinstance(e.value.func, ast.Attribute) and ok and isinstance(idx, int):
                recv = e.value.func.value
                if isinstance(recv, ast.Name) and (not self.entry_vars or recv.id in self.entry_vars):
                    return Poly.sym(f"G{idx % self.nfields}")
        return super().ev(e)

    def _key(self, key: str, idx: Optional[int]) -> Poly:
        if key == "nSavedChans":
            return Poly.sym("NC")
        if key == "snsApLfSy" and idx is not None:
            return Poly.sym(("NAP", "NLF", "NSYNC")[idx % 3])
        if key == "snsMnMaXaDw" and idx is not None:
            return Poly.sym(NIDQ[idx % 4])
        return Poly.sym(f"md[{key}]" + (f"[{idx}]" if idx is not None else ""))


class SegExtractor(Extractor):
    """regions.Extractor with the value forms used to build conversion vectors.  Tags: `VAL:<normal form>` for a constant stretch,
    `UP:<normal form>` for a stretch with one value per IMRO entry (paint() then reports the entry index)."""

    def __init__(self, ev: MetaEval, decide):
        super().__init__(ev, decide)
        self.vals: Dict[str, Poly] = {}
        self.dicts: Dict[str, Dict[str, ArrVal]] = {}
        self.returned: Optional[Dict[str, ArrVal]] = None
        self.scalars: Dict[str, Poly] = {}
        self.bools: Dict[str, bool] = {}
        self.strcols: Dict[str, int] = {}        # name -> field index: one text column of the whole IMRO table (zip(*re.findall(...)))
        self.rowtables: Dict[str, list] = {}     # name -> [(field index, count)] : np.array([colA, colB], ...)[:, SEL]
        self.findings: List[Tuple[ast.AST, str]] = []   # defects the value model itself establishes (reported by the rule that drives it)

    # ---- tags
    def tag(self, p: Poly, per_entry: bool = False) -> str:
        c = p.canon()
        self.vals[c] = p
        return ("UP:" if per_entry else "VAL:") + c

    def untag(self, kind: str) -> Tuple[Poly, bool]:
        if kind == "ONE":
            return Poly.const(1), False
        if kind == "ZERO":
            return Poly.const(0), False
        if kind.startswith("VAL:"):
            return self.vals[kind[4:]], False
        if kind.startswith("UP:"):
            return self.vals[kind[3:]], True
        raise AnalysisError(f"stretch of kind {kind} cannot be scaled")

    def scalar(self, e: ast.AST) -> Optional[Poly]:
        if isinstance(e, ast.Name) and e.id in self.arr:
            return None
        try:
            return self.ev.ev(e)
        except Undecided:
            return None

    def scalar_kind(self, e: ast.AST) -> Optional[str]:
        if self.value(e) is not None:
            return None
        p = self.scalar(e)
        return None if p is None else self.tag(p)

    def _scale(self, a: ArrVal, f, node) -> ArrVal:
        out = []
        for e in a.events:
            p, per = self.untag(e.kind)
            out.append(Event(e.lo, e.hi, self.tag(f(p), per), e.origin, e.veclen, node, e.lo_neg, e.hi_neg))
        return ArrVal(a.length, out)

    # ---- values
    def value(self, e: ast.AST) -> Optional[ArrVal]:
        if isinstance(e, ast.Call):
            nm = call_name(e)
            if nm in ("ones", "zeros", "empty") and e.args:
                L = self.ev.ev(e.args[0])
                return ArrVal(L, [Event(Poly.const(0), L, self.tag(Poly.const(1 if nm == "ones" else 0)), Poly.const(0), None, e)])
            if nm == "full" and len(e.args) >= 2:
                L = self.ev.ev(e.args[0])
                v = self.scalar(e.args[1])
                if v is None:
                    return None
                return ArrVal(L, [Event(Poly.const(0), L, self.tag(v), Poly.const(0), None, e)])
            if nm in ("astype", "copy") and isinstance(e.func, ast.Attribute):
                return self.value(e.func.value)
            if nm in ("float32", "float64", "asarray", "array", "ascontiguousarray", "double", "squeeze") and len(e.args) >= 1:
                inner = self.value(e.args[0])
                if inner is not None:
                    return inner
                if nm in ("array", "asarray"):
                    return self._entries_vector(e.args[0], e)
                return None
            if nm in ("hstack", "concatenate") and e.args and isinstance(e.args[0], (ast.Tuple, ast.List)):
                return self._concat(e.args[0].elts, e)
            if nm == "repeat" and len(e.args) >= 2:
                return self._repeat(e.args[0], e.args[1], e)
            return None
        if isinstance(e, ast.Subscript):
            if isinstance(e.value, ast.Attribute) and e.value.attr in ("r_",):
                elts = e.slice.elts if isinstance(e.slice, ast.Tuple) else [e.slice]
                return self._concat(elts, e)
            col = self._table_column(e)
            if col is not None:
                return col
            if isinstance(e.value, ast.Name) and e.value.id in self.rowtables:
                ok, k = const_value(e.slice)
                rows = self.rowtables[e.value.id]
                if ok and isinstance(k, int) and -len(rows) <= k < len(rows):
                    fld, cnt = rows[k]
                    return ArrVal(cnt, [Event(Poly.const(0), cnt, self.tag(Poly.sym(f"G{fld % self.ev.nfields}"), True), Poly.const(0), None, e)])
            return super().value(e)
        if isinstance(e, ast.BinOp) and isinstance(e.op, (ast.Mult, ast.Div)):
            lv, rv = self.value(e.left), self.value(e.right)
            ls = None if lv is not None else self.scalar(e.left)
            rs = None if rv is not None else self.scalar(e.right)
            if lv is not None and rs is not None:
                if isinstance(e.op, ast.Mult):
                    return self._scale(lv, lambda p: p * rs, e)
                inv = rs.inv_monomial()
                if inv is None:
                    raise AnalysisError(f"division by `{src(e.right)}` cannot be normalised")
                return self._scale(lv, lambda p: p * inv, e)
            if rv is not None and ls is not None:
                if isinstance(e.op, ast.Mult):
                    return self._scale(rv, lambda p: p * ls, e)

                def recip(p):
                    inv = p.inv_monomial()
                    if inv is None:
                        raise AnalysisError(f"reciprocal of `{p}` cannot be normalised")
                    return ls * inv
                return self._scale(rv, recip, e)
            return None
        return super().value(e)

    # ---- whole-table text columns:  channel, bank, ref, ap, lf = tuple(zip(*re.findall(PATTERN, md['imroTbl'])))
    def _is_full_findall(self, e: ast.AST) -> bool:
        while isinstance(e, ast.Call) and call_name(e) in ("tuple", "list") and len(e.args) == 1:
            e = e.args[0]
        return isinstance(e, ast.Call) and call_name(e) == "findall" and "imroTbl" in src(e)

    def _zip_columns(self, e: ast.AST) -> bool:
        while isinstance(e, ast.Call) and call_name(e) in ("tuple", "list") and len(e.args) == 1:
            e = e.args[0]
        return isinstance(e, ast.Call) and call_name(e) == "zip" and len(e.args) == 1 and isinstance(e.args[0], ast.Starred) and self._is_full_findall(e.args[0].value)

    def _column_order(self, e: ast.AST):
        """Order in which `argsort(<key>)` lists the table rows: 'table' when the key is the channel column AS NUMBERS (the IMRO table lists the
        channels in increasing order), 'text' when it is the channel column as text.  None: not understood."""
        if not (isinstance(e, ast.Call) and call_name(e) == "argsort" and (e.args or isinstance(e.func, ast.Attribute))):
            return None
        key = e.args[0] if e.args else e.func.value
        numeric = False
        cur = key
        for _ in range(6):
            if isinstance(cur, ast.Call) and call_name(cur) in ("array", "asarray", "fromiter") and cur.args:
                dt = kwarg(cur, "dtype") or (cur.args[1] if len(cur.args) > 1 else None)
                if dt is not None and any(t in src(dt) for t in ("int", "float")):
                    numeric = True
                cur = cur.args[0]
            elif isinstance(cur, ast.Call) and call_name(cur) == "astype" and isinstance(cur.func, ast.Attribute) and cur.args:
                if any(t in src(cur.args[0]) for t in ("int", "float")):
                    numeric = True
                cur = cur.func.value
            elif isinstance(cur, (ast.ListComp, ast.GeneratorExp)) and len(cur.generators) == 1 and isinstance(cur.elt, ast.Call) and call_name(cur.elt) in ("int", "float"):
                numeric = True
                cur = cur.generators[0].iter
            elif isinstance(cur, ast.Call) and call_name(cur) in ("list", "tuple") and cur.args:
                cur = cur.args[0]
            else:
                break
        if isinstance(cur, ast.Name) and cur.id in self.strcols and self.strcols[cur.id] == 0:
            return "table" if numeric else "text"
        return None

    def _selected_rows(self, e: ast.Subscript, node):
        """np.array([colA, colB], dtype=..)[:, SEL]  ->  [(field, count)] with SEL = argsort(channel key)[:n] or slice(None, n)"""
        if not (isinstance(e.slice, ast.Tuple) and len(e.slice.elts) == 2):
            return None
        r, sel = e.slice.elts
        if not (isinstance(r, ast.Slice) and r.lower is None and r.upper is None and r.step is None):
            return None
        t = e.value
        while isinstance(t, ast.Call) and call_name(t) == "astype" and isinstance(t.func, ast.Attribute):
            t = t.func.value
        if not (isinstance(t, ast.Call) and call_name(t) in ("array", "asarray", "vstack", "stack") and t.args and isinstance(t.args[0], (ast.List, ast.Tuple))):
            return None
        cols = []
        for x in t.args[0].elts:
            if not (isinstance(x, ast.Name) and x.id in self.strcols):
                return None
            cols.append(self.strcols[x.id])
        if isinstance(sel, ast.Slice) and sel.lower is None and sel.step is None and sel.upper is not None:
            cnt, order = self.ev.ev(sel.upper), "table"
        elif isinstance(sel, ast.Subscript) and isinstance(sel.slice, ast.Slice) and sel.slice.lower is None and sel.slice.step is None and sel.slice.upper is not None:
            order = self._column_order(sel.value)
            if order is None:
                return None
            cnt = self.ev.ev(sel.slice.upper)
        else:
            return None
        if order == "text":
            self.findings.append((node, f"`{src(sel)[:80]}` orders the IMRO rows by the channel column AS TEXT: '10' sorts before '2', so from the 11th channel on the "
                                        "gain pair of another channel is picked (0, 1, 10, 100, 101, ..., 11, 110, ...) - invisible while every channel has the same gain"))
        return [(k, cnt) for k in cols]

    def _concat(self, elts, node) -> Optional[ArrVal]:
        pos = Poly.const(0)
        events: List[Event] = []
        for x in elts:
            v = self.value(x)
            if v is None:
                s_ = self.scalar(x)
                if s_ is None:
                    return None
                v = ArrVal(Poly.const(1), [Event(Poly.const(0), Poly.const(1), self.tag(s_), Poly.const(0), None, x)])
            sh = v.shifted(-pos, v.length)
            events += sh.events
            pos = pos + v.length
        return ArrVal(pos, events)

    def _repeat(self, values, counts, node) -> Optional[ArrVal]:
        vals = self._list_elts(values)
        cnts = self._list_elts(counts)
        if vals is None or cnts is None or len(vals) != len(cnts):
            return None
        pos = Poly.const(0)
        events = []
        for v, c in zip(vals, cnts):
            pv, pc = self.scalar(v), self.scalar(c)
            if pv is None or pc is None:
                return None
            events.append(Event(pos, pos + pc, self.tag(pv), pos, None, node))
            pos = pos + pc
        return ArrVal(pos, events)

    def _list_elts(self, e: ast.AST) -> Optional[List[ast.AST]]:
        """Elements of a literal list, or of `np.array(md[K][:n]).astype(int)` / `md[K][:n]` (n literal) as md[K][0..n-1]."""
        if isinstance(e, ast.Name) and e.id in self.lists:
            return self.lists[e.id]
        if isinstance(e, (ast.List, ast.Tuple)):
            return list(e.elts)
        cur = e
        while isinstance(cur, ast.Call) and (call_name(cur) in ("array", "asarray", "astype", "list", "tuple") or call_name(cur) in WRAPPERS):
            cur = cur.func.value if (isinstance(cur.func, ast.Attribute) and call_name(cur) == "astype") else (cur.args[0] if cur.args else None)
            if cur is None:
                return None
        if isinstance(cur, (ast.List, ast.Tuple)):
            return list(cur.elts)
        if isinstance(cur, (ast.ListComp, ast.GeneratorExp)) and len(cur.generators) == 1 and not cur.generators[0].ifs:
            inner = self._list_elts(cur.generators[0].iter)
            tgt = cur.generators[0].target
            if inner is not None and isinstance(tgt, ast.Name):
                from .normalize import _Subst
                import copy
                return [_Subst({tgt.id: x}).visit(copy.deepcopy(cur.elt)) for x in inner]
            return None
        n = None
        base = cur
        if isinstance(cur, ast.Subscript) and isinstance(cur.slice, ast.Slice) and cur.slice.lower is None and cur.slice.step is None:
            ok, n = const_value(cur.slice.upper) if cur.slice.upper is not None else (False, None)
            base = cur.value
            if not ok:
                return None
        k = _key_of(base)
        if k == "snsMnMaXaDw":
            n = 4 if n is None else n
            return [ast.Subscript(value=base, slice=ast.Constant(value=i), ctx=ast.Load()) for i in range(n)]
        return None

    lists: Dict[str, List[ast.AST]] = {}

    def _entries(self, e: ast.AST) -> Optional[Poly]:
        """Number of IMRO entries in `re.findall(pattern, md['imroTbl'])[:n]` (the table always holds at least n entries)."""
        if isinstance(e, ast.Name) and e.id in self.entry_lists:
            return self.entry_lists[e.id]
        if isinstance(e, ast.Subscript) and isinstance(e.slice, ast.Slice) and e.slice.lower is None and e.slice.step is None and e.slice.upper is not None:
            if isinstance(e.value, ast.Call) and call_name(e.value) == "findall" and "imroTbl" in src(e.value):
                return self.ev.ev(e.slice.upper)
        return None

    entry_lists: Dict[str, Poly] = {}

    def _entries_vector(self, e: ast.AST, node) -> Optional[ArrVal]:
        """np.array([f(g) for g in ENTRIES]) - one value per IMRO entry."""
        if isinstance(e, (ast.ListComp, ast.GeneratorExp)) and len(e.generators) == 1 and isinstance(e.generators[0].target, ast.Tuple) \
                and all(isinstance(t_, ast.Name) for t_ in e.generators[0].target.elts) and getattr(self.ev, "group_fields", None) \
                and len(self.ev.group_fields) == len(e.generators[0].target.elts):
            # the entries are tuples of captured groups: `for ap, lf in ENTRIES` binds each name to the field its group captures
            cnt = self._entries(e.generators[0].iter)
            if cnt is None:
                return None
            saved = dict(self.ev.env)
            try:
                for t_, fld in zip(e.generators[0].target.elts, self.ev.group_fields):
                    self.ev.env[t_.id] = Poly.sym(f"G{fld}")
                p = self.ev.ev(e.elt)
            except Undecided:
                return None
            finally:
                self.ev.env = saved
            return ArrVal(cnt, [Event(Poly.const(0), cnt, self.tag(p, True), Poly.const(0), None, node)])
        if isinstance(e, (ast.ListComp, ast.GeneratorExp)) and len(e.generators) == 1 and isinstance(e.generators[0].target, ast.Name):
            cnt = self._entries(e.generators[0].iter)
            if cnt is None:
                return None
            self.ev.entry_vars.add(e.generators[0].target.id)
            try:
                p = self.ev.ev(e.elt)
            except Undecided:
                return None
            return ArrVal(cnt, [Event(Poly.const(0), cnt, self.tag(p, True), Poly.const(0), None, node)])
        return None

    def _table_column(self, e: ast.Subscript) -> Optional[ArrVal]:
        """TABLE[:, k] where TABLE = np.array([g.split(' ') for g in ENTRIES], ...).reshape(-1, nfields)."""
        if not (isinstance(e.slice, ast.Tuple) and len(e.slice.elts) == 2):
            return None
        r, c = e.slice.elts
        ok, k = const_value(c)
        if not (isinstance(r, ast.Slice) and r.lower is None and r.upper is None and r.step is None and ok and isinstance(k, int)):
            return None
        t = e.value
        if isinstance(t, ast.Name) and t.id in self.tables:
            cnt = self.tables[t.id]
            off = self.table_offsets.get(t.id, 0)
        else:
            cnt = self._table(t)
            off = self._last_table_offset
        if cnt is None:
            return None
        # a table built from the LAST fields of each entry (g.split(' ')[-2:]) starts at field nfields - 2: column k is field offset + k
        fld = (off + k) if off else k
        return ArrVal(cnt, [Event(Poly.const(0), cnt, self.tag(Poly.sym(f"G{fld % self.ev.nfields}"), True), Poly.const(0), None, e)])

    table_offsets: Dict[str, int] = {}
    _last_table_offset = 0

    tables: Dict[str, Poly] = {}

    def _table(self, t: ast.AST) -> Optional[Poly]:
        cur = t
        while isinstance(cur, ast.Call) and call_name(cur) in ("reshape", "astype", "array", "asarray", "float32"):
            if isinstance(cur.func, ast.Attribute) and call_name(cur) in ("reshape", "astype"):
                cur = cur.func.value
            elif cur.args:
                cur = cur.args[0]
            else:
                return None
        if isinstance(cur, (ast.ListComp, ast.GeneratorExp)) and len(cur.generators) == 1 and "split" in src(cur.elt):
            self._last_table_offset = 0
            el = cur.elt
            if isinstance(el, ast.Subscript) and isinstance(el.slice, ast.Slice) and el.slice.upper is None and el.slice.step is None and el.slice.lower is not None:
                ok_, lo_ = const_value(el.slice.lower)
                if not (ok_ and isinstance(lo_, int)):
                    return None
                self._last_table_offset = lo_ % self.ev.nfields
            elif isinstance(el, ast.Subscript):
                return None
            return self._entries(cur.generators[0].iter)
        return None

    # ---- statements
    def _resolve_ifexp(self, s: ast.stmt) -> ast.stmt:
        """Conditional expressions whose test is decided for the class under evaluation are replaced by the branch taken."""
        ext = self

        class R(ast.NodeTransformer):
            def visit_IfExp(self, node):
                node = self.generic_visit(node)
                d = ext.decide(node.test)
                if d is None:
                    return node
                return node.body if d else node.orelse
        if not any(isinstance(n, ast.IfExp) for n in ast.walk(s)):
            return s
        import copy
        return ast.fix_missing_locations(R().visit(copy.deepcopy(s)))

    def _first_entry_fields(self, s: ast.stmt) -> bool:
        """a, b = m.group(1).split(' ')[-2:]  with m the first site entry: a, b are that ENTRY 0's fields (symbols G<k>, shared with the per-entry vectors)."""
        if not (isinstance(s, ast.Assign) and len(s.targets) == 1 and isinstance(s.targets[0], ast.Tuple) and all(isinstance(t, ast.Name) for t in s.targets[0].elts)):
            return False
        v = s.value
        if isinstance(v, ast.IfExp):
            d = self.decide(v.test)
            if d is None:
                return False
            v = v.body if d else v.orelse
        if not (isinstance(v, ast.Subscript) and isinstance(v.slice, ast.Slice) and v.slice.upper is None and v.slice.step is None and v.slice.lower is not None
                and isinstance(v.value, ast.Call) and call_name(v.value) == "split"):
            return False
        base = v.value.func.value
        if not (isinstance(base, ast.Call) and call_name(base) == "group" and isinstance(base.func.value, ast.Name) and base.func.value.id in getattr(self, "first_entry", ())):
            return False
        ok_, lo_ = const_value(v.slice.lower)
        if not (ok_ and isinstance(lo_, int) and lo_ < 0 and -lo_ == len(s.targets[0].elts)):
            return False
        for j, t in enumerate(s.targets[0].elts):
            self.ev.env[t.id] = Poly.sym(f"G{(lo_ + j) % self.ev.nfields}")
            self.arr.pop(t.id, None)
        self.entry0_names = getattr(self, "entry0_names", set()) | {t.id for t in s.targets[0].elts}
        return True

    def step(self, s: ast.stmt):
        if self._first_entry_fields(s):
            return
        if isinstance(s, ast.Assign) and len(s.targets) == 1 and isinstance(s.targets[0], ast.Name) and isinstance(s.value, ast.Call) and call_name(s.value) == "range" \
                and len(s.value.args) == 2:
            # a range held in a local (the sync trace indices): only its length matters to the conversion vectors
            try:
                self.ev.range_lens = dict(getattr(self.ev, "range_lens", {}), **{s.targets[0].id: self.ev.ev(s.value.args[1]) - self.ev.ev(s.value.args[0])})
                return
            except Undecided:
                pass
        if isinstance(s, (ast.Assign, ast.Return, ast.AugAssign)):
            s = self._resolve_ifexp(s)
        if isinstance(s, ast.Assign) and len(s.targets) == 1 and isinstance(s.targets[0], (ast.Tuple, ast.List)) \
                and all(isinstance(t, ast.Name) for t in s.targets[0].elts) and self._zip_columns(s.value):
            self.strcols = dict(self.strcols)
            for i, t in enumerate(s.targets[0].elts):
                self.strcols[t.id] = i
            return
        if isinstance(s, ast.Assign) and len(s.targets) == 1 and isinstance(s.targets[0], ast.Name) and isinstance(s.value, ast.Subscript):
            rows = self._selected_rows(s.value, s)
            if rows is not None:
                self.rowtables = dict(self.rowtables)
                self.rowtables[s.targets[0].id] = rows
                return
        if isinstance(s, ast.Assign) and len(s.targets) == 1 and isinstance(s.targets[0], (ast.Tuple, ast.List)) \
                and all(isinstance(t, ast.Name) for t in s.targets[0].elts):
            # n_mn, n_ma, n_xa, n_dw = (int(n) for n in md["snsMnMaXaDw"])
            elts = self._list_elts(s.value)
            if elts is not None and len(elts) == len(s.targets[0].elts):
                for t, x in zip(s.targets[0].elts, elts):
                    self.step(ast.copy_location(ast.Assign(targets=[t], value=x), s))
                return
        if isinstance(s, ast.Assign) and len(s.targets) == 1 and isinstance(s.targets[0], ast.Name):
            d = self.decide(s.value) if isinstance(s.value, (ast.Compare, ast.BoolOp, ast.UnaryOp)) else None
            if d is not None:
                self.bools[s.targets[0].id] = d
                return
            self.bools.pop(s.targets[0].id, None)
        if isinstance(s, ast.Assign) and len(s.targets) == 1 and isinstance(s.targets[0], ast.Name) and isinstance(s.value, ast.DictComp) \
                and len(s.value.generators) == 1 and not s.value.generators[0].ifs and isinstance(s.value.generators[0].target, ast.Name) \
                and isinstance(s.value.generators[0].iter, (ast.Tuple, ast.List)) and all(isinstance(x, ast.Constant) for x in s.value.generators[0].iter.elts):
            # {band: f(band) for band in ("lf", "ap")}  ->  {"lf": f("lf"), "ap": f("ap")}
            import copy
            from .normalize import _Subst
            g = s.value.generators[0]
            keys, vals = [], []
            for c_ in g.iter.elts:
                keys.append(_Subst({g.target.id: c_}).visit(copy.deepcopy(s.value.key)))
                vals.append(_Subst({g.target.id: c_}).visit(copy.deepcopy(s.value.value)))
            s = ast.copy_location(ast.Assign(targets=s.targets, value=ast.copy_location(ast.Dict(keys=keys, values=vals), s.value)), s)
            ast.fix_missing_locations(s)
        if isinstance(s, ast.Assign) and len(s.targets) == 1 and isinstance(s.targets[0], ast.Name):
            nm = s.targets[0].id
            if isinstance(s.value, ast.Dict) and all(isinstance(k, ast.Constant) for k in s.value.keys):
                d = {}
                for k, v in zip(s.value.keys, s.value.values):
                    av = self.value(v)
                    if av is None:
                        raise AnalysisError(f"conversion vector for '{k.value}' is not understood: {src(v)[:80]}")
                    d[k.value] = ArrVal(av.length, list(av.events))
                self.dicts[nm] = d
                return
            cnt = self._entries(s.value)
            if cnt is not None:
                self.entry_lists = dict(self.entry_lists)
                self.entry_lists[nm] = cnt
                return
            tb = self._table(s.value)
            if tb is not None:
                self.tables = dict(self.tables)
                self.tables[nm] = tb
                self.table_offsets = dict(self.table_offsets)
                self.table_offsets[nm] = self._last_table_offset
                return
            # m = <regex>.search(<imro table>): the first site entry; it exists whenever the table has an entry (model assumption: at least one per analog channel)
            if isinstance(s.value, ast.Call) and call_name(s.value) == "search" and ("imroTbl" in src(s.value) or any(isinstance(a_, ast.Name) and a_.id in getattr(self.ev, "imro_names", ()) for a_ in s.value.args)):
                self.bools[nm] = True
                self.first_entry = getattr(self, "first_entry", set()) | {nm}
                return
            if isinstance(s.value, ast.Subscript) and isinstance(s.value.slice, ast.Constant) and s.value.slice.value == "imroTbl":
                self.ev.imro_names = tuple(getattr(self.ev, "imro_names", ())) + (nm,)
            le = self._list_elts(s.value) if not isinstance(s.value, ast.Name) else None
            if le is not None and self.value(s.value) is None:
                self.lists = dict(self.lists)
                self.lists[nm] = le
                return
        if isinstance(s, ast.Assign) and len(s.targets) == 1 and isinstance(s.targets[0], ast.Subscript) and isinstance(s.targets[0].value, ast.Name) \
                and s.targets[0].value.id in self.dicts and isinstance(s.targets[0].slice, ast.Constant):
            av = self.value(s.value)
            if av is None:
                raise AnalysisError(f"conversion vector stored under '{s.targets[0].slice.value}' is not understood")
            self.dicts[s.targets[0].value.id][s.targets[0].slice.value] = ArrVal(av.length, list(av.events))
            return
        if isinstance(s, ast.Return):
            v = s.value
            if isinstance(v, ast.Name) and v.id in self.dicts:
                self.returned = self.dicts[v.id]
            elif isinstance(v, ast.Dict):
                self.step(ast.copy_location(ast.Assign(targets=[ast.Name(id="__ret__", ctx=ast.Store())], value=v), s))
                self.returned = self.dicts.get("__ret__")
            raise _Returned()
        if isinstance(s, (ast.FunctionDef, ast.Expr)):
            return
        super().step(s)

    def run_function(self, body):
        try:
            for s in body:
                self.step(s)
        except _Returned:
            pass
        return self.returned


class _Returned(Exception):
    pass
