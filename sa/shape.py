"""Shape fingerprints: how much of a function's pinned statement structure is still there.

The pattern rules (the ones that compare a construct with an expected form) are calibrated against the shape a function has in the
pinned tree.  They stay armed while the function still resembles that shape; in a function that has been rewritten (most of its
statements replaced) only the model-based rules - which extract their facts from whatever shape the code has - may raise an alarm,
the pattern rules answer "undecided".  The fingerprint is the multiset of the function's simple statements and branch / loop heads with
every local name blanked (so renaming locals does not change it); similarity is the multiset Jaccard index."""
from __future__ import annotations

import ast
import collections
import copy
import hashlib
import json
import os
from typing import Dict

SHAPE_FILE = os.path.join(os.path.dirname(os.path.abspath(__file__)), "shape.json")
THRESHOLD = 0.35


class _Blank(ast.NodeTransformer):
    def visit_Name(self, n):
        return ast.Name(id="_", ctx=ast.Load())

    def visit_arg(self, n):
        return ast.arg(arg="_")


def fingerprint(fn_node) -> Dict[str, int]:
    out = collections.Counter()

    def add(node):
        try:
            d = ast.dump(_Blank().visit(copy.deepcopy(node)), annotate_fields=False)
        except Exception:
            return
        out[hashlib.sha1(d.encode()).hexdigest()[:12]] += 1

    def walk(stmts):
        for s in stmts:
            if isinstance(s, (ast.FunctionDef, ast.AsyncFunctionDef, ast.ClassDef)):
                continue
            if isinstance(s, ast.Expr) and isinstance(s.value, ast.Constant):
                continue
            if isinstance(s, (ast.If, ast.While)):
                add(s.test)
            elif isinstance(s, ast.For):
                add(s.iter)
            elif isinstance(s, ast.With):
                for i in s.items:
                    add(i.context_expr)
            elif isinstance(s, ast.Try):
                pass
            else:
                add(s)
            for f in ("body", "orelse", "finalbody"):
                walk(getattr(s, f, []) or [])
            for h in getattr(s, "handlers", []) or []:
                walk(h.body)
    walk(fn_node.body)
    return dict(out)


def similarity(a: Dict[str, int], b: Dict[str, int]) -> float:
    ca, cb = collections.Counter(a), collections.Counter(b)
    inter, union = sum((ca & cb).values()), sum((ca | cb).values())
    return inter / union if union else 1.0


_PINNED = None


def pinned() -> Dict[str, Dict[str, int]]:
    global _PINNED
    if _PINNED is None:
        try:
            with open(SHAPE_FILE) as f:
                _PINNED = json.load(f)
        except OSError:
            _PINNED = {}
    return _PINNED


MIN_LOST = 5


def similarities(repo) -> Dict[str, float]:
    """qualified function name -> similarity of its current (normalised) shape with the pinned one; functions the pinned tree does not have are absent.
    A function counts as rewritten only when at least MIN_LOST of its pinned statements are gone as well (in a three-statement function any edit
    moves the ratio a lot): otherwise its similarity is reported as 1.0 for the purpose of the gate."""
    out = {}
    for q, f in pinned().items():
        fi = repo.functions.get(q)
        if fi is None or not isinstance(fi.node, (ast.FunctionDef, ast.AsyncFunctionDef)):
            continue
        cur = fingerprint(fi.node)
        sv = similarity(f, cur)
        lost = sum((collections.Counter(f) - collections.Counter(cur)).values())
        out[q] = sv if lost >= MIN_LOST else max(sv, THRESHOLD)
    return out
