"""E6 - structural agreement helpers: alpha-normalised equality, key sets, small pattern matchers."""
from __future__ import annotations

import ast
import copy
from typing import Callable, Dict, Iterable, Iterator, List, Optional, Sequence, Set, Tuple

from .model import ARRAY_ALIASES, const_value, src


class _Norm(ast.NodeTransformer):
    def __init__(self, rename: Dict[str, str]):
        self.rename = rename

    def visit_Name(self, node: ast.Name):
        nid = self.rename.get(node.id, node.id)
        if nid in ARRAY_ALIASES:
            nid = "numpy"
        return ast.Name(id=nid, ctx=ast.Load())

    def visit_Attribute(self, node: ast.Attribute):
        return ast.Attribute(value=self.visit(node.value), attr=node.attr, ctx=ast.Load())

    def visit_Subscript(self, node: ast.Subscript):
        return ast.Subscript(value=self.visit(node.value), slice=self.visit(node.slice), ctx=ast.Load())

    def visit_Constant(self, node: ast.Constant):
        v = node.value
        if isinstance(v, float) and v.is_integer():
            v = int(v)
        return ast.Constant(value=v)


def norm(e: ast.AST, rename: Dict[str, str] = None) -> str:
    """Canonical text of an expression: contexts stripped, numpy aliases unified, optional renaming."""
    t = _Norm(rename or {}).visit(copy.deepcopy(e))
    return ast.dump(t, annotate_fields=False, include_attributes=False)


def same(a: ast.AST, b: ast.AST, rename_a: Dict[str, str] = None, rename_b: Dict[str, str] = None) -> bool:
    return norm(a, rename_a) == norm(b, rename_b)


def find(node: ast.AST, typ, pred: Callable[[ast.AST], bool] = None, nested: bool = True) -> List[ast.AST]:
    out = []
    stack = [node]
    first = True
    while stack:
        n = stack.pop()
        if isinstance(n, typ) and (pred is None or pred(n)):
            out.append(n)
        for c in ast.iter_child_nodes(n):
            if not nested and isinstance(c, (ast.FunctionDef, ast.AsyncFunctionDef, ast.Lambda, ast.ClassDef)):
                continue
            stack.append(c)
        first = False
    out.sort(key=lambda n: (getattr(n, "lineno", 0), getattr(n, "col_offset", 0)))
    return out


def attr_chain(e: ast.AST) -> Optional[List[str]]:
    out = []
    while isinstance(e, ast.Attribute):
        out.append(e.attr)
        e = e.value
    if isinstance(e, ast.Name):
        out.append(e.id)
        return list(reversed(out))
    return None


def call_name(call: ast.AST) -> str:
    """Last attribute / name of a call's function (method name)."""
    if not isinstance(call, ast.Call):
        return ""
    f = call.func
    if isinstance(f, ast.Attribute):
        return f.attr
    if isinstance(f, ast.Name):
        return f.id
    return ""


def receiver(call: ast.Call) -> Optional[ast.AST]:
    return call.func.value if isinstance(call.func, ast.Attribute) else None


def kwarg(call: ast.Call, name: str) -> Optional[ast.AST]:
    for k in call.keywords:
        if k.arg == name:
            return k.value
    return None


def dict_literal_keys(d: ast.Dict) -> List:
    out = []
    for k in d.keys:
        ok, v = const_value(k) if k is not None else (False, None)
        out.append(v if ok else src(k) if k is not None else "**")
    return out


def string_value(e: ast.AST, env: Dict[str, str] = None) -> Optional[str]:
    """Value of a string constant or an f-string whose placeholders are given in env (by source text)."""
    if isinstance(e, ast.Constant) and isinstance(e.value, str):
        return e.value
    if isinstance(e, ast.JoinedStr):
        parts = []
        for v in e.values:
            if isinstance(v, ast.Constant):
                parts.append(str(v.value))
            elif isinstance(v, ast.FormattedValue):
                key = src(v.value)
                if env and key in env:
                    parts.append(env[key])
                else:
                    parts.append("{" + key + "}")
        return "".join(parts)
    return None


def compare_parts(test: ast.AST) -> Optional[Tuple[ast.AST, ast.cmpop, ast.AST]]:
    if isinstance(test, ast.Compare) and len(test.ops) == 1:
        return test.left, test.ops[0], test.comparators[0]
    return None


def strip_wrappers(e: ast.AST, names: Sequence[str] = ("int", "float")) -> ast.AST:
    """Remove int(...) / float(...) / np.array(...) style single-argument wrappers."""
    while isinstance(e, ast.Call) and call_name(e) in names and len(e.args) >= 1:
        e = e.args[0]
    return e


def stmt_of(parent_of: Callable[[ast.AST], Optional[ast.AST]], node: ast.AST) -> Optional[ast.stmt]:
    cur = node
    while cur is not None and not isinstance(cur, ast.stmt):
        cur = parent_of(cur)
    return cur


def names_in(e: ast.AST) -> Set[str]:
    return {n.id for n in ast.walk(e) if isinstance(n, ast.Name)}


def concat_parts(e):
    """Parts of a 1-D concatenation however it is spelled: np.r_[a, b, ..], np.concatenate((a, b, ..)) / np.hstack((a, b, ..)) (no axis or axis=0);
    a one-element list literal [k] counts as the scalar k (that is what it contributes).  None when `e` is not such a concatenation."""
    import ast as _ast
    if isinstance(e, _ast.Subscript) and isinstance(e.value, _ast.Attribute) and e.value.attr == "r_":
        return list(e.slice.elts) if isinstance(e.slice, _ast.Tuple) else [e.slice]
    if isinstance(e, _ast.Call) and call_name(e) in ("concatenate", "hstack") and len(e.args) >= 1 and isinstance(e.args[0], (_ast.Tuple, _ast.List)):
        ax = [k for k in e.keywords if k.arg == "axis"]
        if ax and not (isinstance(ax[0].value, _ast.Constant) and ax[0].value.value in (0, None)):
            return None
        out = []
        for x in e.args[0].elts:
            if isinstance(x, (_ast.List, _ast.Tuple)) and len(x.elts) == 1:
                out.append(x.elts[0])
            else:
                out.append(x)
        return out
    return None
