"""Checker self-test: in-memory variants of /repo's *current* source.

A `fire` variant breaks one rule instance while still parsing (and, argued per variant, passing the 84 baseline
tests); the named property's rules must report a violation.  A `twin` variant is a behaviour-preserving rewrite;
the rules must stay silent (no violation, no analysis error).  Variants are textual edits of the on-disk file
(LF-normalised); an edit whose anchor text no longer exists is *skipped* (reported, never an error), because the
repository may legitimately have been reformatted.
"""
from __future__ import annotations

import ast
import importlib
import os
import sys
from dataclasses import dataclass, field
from typing import Dict, List, Optional, Tuple

HERE = os.path.dirname(os.path.dirname(os.path.abspath(__file__)))
if HERE not in sys.path:
    sys.path.insert(0, HERE)

from sa.model import AnalysisError, Repo, REPO_ROOT  # noqa: E402
from sa import report  # noqa: E402


@dataclass
class V:
    name: str
    kind: str  # fire | twin
    file: str
    edits: List[Tuple[str, str]]
    rules: Tuple[str, ...] = ()  # for fire: at least one violation must come from one of these rules (empty = any)
    why: str = ""
    requires_fixed: bool = False


def _read(root: str, rel: str) -> str:
    with open(os.path.join(root, rel), "rb") as f:
        return f.read().decode("utf-8").replace("\r\n", "\n")


def apply_edits(text: str, edits) -> Optional[str]:
    for e in edits:
        old, new = e[0], e[1]
        cnt = e[2] if len(e) > 2 else 1
        if text.count(old) != cnt:
            return None
        text = text.replace(old, new)
    return text


def run_variant(prop: str, v: V, root: str = None) -> Dict:
    root = root or REPO_ROOT
    try:
        text = _read(root, v.file)
    except OSError:
        return {"name": v.name, "kind": v.kind, "outcome": "skipped", "detail": "file missing"}
    new = apply_edits(text, v.edits)
    if new is None:
        return {"name": v.name, "kind": v.kind, "outcome": "skipped", "detail": "anchor text not found (source reformatted or already changed)"}
    try:
        ast.parse(new)
    except SyntaxError as e:
        return {"name": v.name, "kind": v.kind, "outcome": "broken-variant", "detail": str(e)}
    mod = importlib.import_module(f"rules.{prop}")
    overrides = {v.file: new}
    if os.environ.get("SELFTEST_RENAMED"):
        # robustness mode: additionally alpha-rename every local variable of the (mutated) file
        from selftest.rename import Renamer
        t = Renamer().visit(ast.parse(new))
        ast.fix_missing_locations(t)
        overrides = {v.file: ast.unparse(t) + "\n"}
    try:
        repo = Repo(root, overrides=overrides)
        ctx = report.Ctx(repo, prop, "quick", quiet=True)
        mod.run(ctx)
        un = getattr(repo, "unresolved", {})
        for r in list(ctx.results):
            if r.status == "violation" and r.function in un and not r.name_free:
                ctx.results.remove(r)
                ctx.errors.append((r.rule, f"not trusted (unidentified locals {un[r.function]}): {r.message[:100]}"))
        viols = ctx.violations()
        err = " ; ".join(f"[{rid}] {msg}" for rid, msg in ctx.errors) or None
    except AnalysisError as e:
        viols, err = [], f"{type(e).__name__}: {e}"
    except Exception as e:  # checker crash on a variant = blind spot
        viols, err = [], f"crash {type(e).__name__}: {e}"
    if v.kind == "fire":
        hit = [r for r in viols if not v.rules or r.rule in v.rules]
        if hit:
            return {"name": v.name, "kind": v.kind, "outcome": "detected", "detail": hit[0].text()[:300], "rules": sorted({r.rule for r in viols})}
        if err:
            return {"name": v.name, "kind": v.kind, "outcome": "undecided", "detail": err}
        return {"name": v.name, "kind": v.kind, "outcome": "MISSED", "detail": "; ".join(r.text()[:120] for r in viols) or "no violation reported"}
    else:
        if err:
            return {"name": v.name, "kind": v.kind, "outcome": "FALSE-ERROR", "detail": err}
        if viols:
            return {"name": v.name, "kind": v.kind, "outcome": "FALSE-ALARM", "detail": viols[0].text()[:300]}
        return {"name": v.name, "kind": v.kind, "outcome": "silent", "detail": ""}


def _job(args):
    prop, idx, root = args
    from selftest import variants
    v = variants.VARIANTS[prop][idx]
    return run_variant(prop, v, root)


def run_all(prop: str, root: str = None, jobs: int = None) -> List[Dict]:
    from selftest import variants
    vs = variants.VARIANTS.get(prop, [])
    if not vs:
        return []
    jobs = jobs or min(16, max(1, os.cpu_count() or 1), len(vs))
    args = [(prop, i, root) for i in range(len(vs))]
    if jobs <= 1:
        return [_job(a) for a in args]
    import multiprocessing as mp
    with mp.get_context("fork").Pool(jobs) as pool:
        return pool.map(_job, args)


def summarise(results: List[Dict]) -> Dict:
    out: Dict[str, int] = {}
    for r in results:
        out[r["outcome"]] = out.get(r["outcome"], 0) + 1
    return out


if __name__ == "__main__":
    from selftest import variants
    props = sys.argv[1:] or sorted(variants.VARIANTS)
    bad = 0
    for p in props:
        res = run_all(p)
        print(f"== {p}: {summarise(res)}")
        for r in res:
            flag = "  " if r["outcome"] in ("detected", "silent") else "!!"
            print(f" {flag} {r['kind']:5s} {r['outcome']:12s} {r['name']}  {r['detail'][:160]}")
            if flag == "!!" and r["outcome"] != "skipped":
                bad += 1
    sys.exit(2 if bad else 0)
