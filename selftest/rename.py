"""Robustness probe: alpha-rename every local variable of every function in the library (behaviour preserving)
and run all checks on the renamed tree.  A VIOLATION on the renamed tree is a false alarm of a rule that is keyed
on a local's spelling; exit 2 means the rule lost its anchor.  Used during development (results in DESIGN.md section 9)."""
from __future__ import annotations

import ast
import os
import sys

HERE = os.path.dirname(os.path.dirname(os.path.abspath(__file__)))
if HERE not in sys.path:
    sys.path.insert(0, HERE)


class _Scope(ast.NodeVisitor):
    """Collect names bound by assignment (not parameters, not global/nonlocal) directly in a function body."""

    def __init__(self):
        self.bound = set()
        self.declared = set()

    def visit_FunctionDef(self, node):
        self.bound.add(node.name) if False else None  # nested function names are kept (rules resolve them by name)

    visit_AsyncFunctionDef = visit_FunctionDef

    def visit_Lambda(self, node):
        pass

    def visit_ClassDef(self, node):
        pass

    def visit_Global(self, node):
        self.declared |= set(node.names)

    visit_Nonlocal = visit_Global

    def visit_Name(self, node):
        if isinstance(node.ctx, (ast.Store, ast.Del)):
            self.bound.add(node.id)

    def visit_ListComp(self, node):
        for g in node.generators:
            self.visit(g.iter)

    visit_SetComp = visit_DictComp = visit_GeneratorExp = visit_ListComp


class Renamer(ast.NodeTransformer):
    def __init__(self, suffix="_r", keep=()):
        self.stack = []
        self.suffix = suffix
        self.keep = set(keep)

    def _mapping(self):
        m = {}
        for d in self.stack:
            m.update(d)
        return m

    def _function(self, node):
        sc = _Scope()
        for s in node.body:
            sc.visit(s)
        params = {a.arg for a in node.args.posonlyargs + node.args.args + node.args.kwonlyargs}
        if node.args.vararg:
            params.add(node.args.vararg.arg)
        if node.args.kwarg:
            params.add(node.args.kwarg.arg)
        local = {n for n in sc.bound if n not in params and n not in sc.declared and n not in self.keep and not n.startswith("__")}
        # names shadowing a parameter of an enclosing function stay as they are
        frame = {n: n + self.suffix for n in local}
        # parameters hide outer renames
        for p in params:
            frame[p] = p
        self.stack.append(frame)
        node.body = [self.visit(s) for s in node.body]
        self.stack.pop()
        return node

    def visit_FunctionDef(self, node):
        # decorators / defaults belong to the outer scope
        node.args.defaults = [self.visit(d) for d in node.args.defaults]
        node.args.kw_defaults = [self.visit(d) if d is not None else None for d in node.args.kw_defaults]
        return self._function(node)

    visit_AsyncFunctionDef = visit_FunctionDef

    def visit_Lambda(self, node):
        params = {a.arg for a in node.args.args}
        self.stack.append({p: p for p in params})
        node.body = self.visit(node.body)
        self.stack.pop()
        return node

    def _comp(self, node):
        # comprehension targets are their own scope: leave them, but rename free reads
        targets = set()
        for g in node.generators:
            for n in ast.walk(g.target):
                if isinstance(n, ast.Name):
                    targets.add(n.id)
        self.stack.append({t: t for t in targets})
        node = self.generic_visit(node)
        self.stack.pop()
        return node

    visit_ListComp = visit_SetComp = visit_DictComp = visit_GeneratorExp = _comp

    def visit_Name(self, node):
        if not self.stack:
            return node
        m = self._mapping()
        if node.id in m:
            return ast.copy_location(ast.Name(id=m[node.id], ctx=node.ctx), node)
        return node

    def visit_ClassDef(self, node):
        saved = self.stack
        self.stack = []
        node = self.generic_visit(node)
        self.stack = saved
        return node


def renamed_sources(root):
    from sa.model import Repo
    repo = Repo(root)
    out = {}
    for m in repo.modules.values():
        tree = ast.parse(m.source)
        tree = Renamer().visit(tree)
        ast.fix_missing_locations(tree)
        out[m.relpath] = ast.unparse(tree) + "\n"
    return out


if __name__ == "__main__":
    import importlib.machinery
    from sa.model import REPO_ROOT
    chk = importlib.machinery.SourceFileLoader("check_cli", os.path.join(HERE, "check")).load_module()
    ov = renamed_sources(REPO_ROOT)
    for rel, text in ov.items():
        compile(text, rel, "exec")
    props = sys.argv[1:] or sorted(f[:-3] for f in os.listdir(os.path.join(HERE, "rules")) if f.startswith("C") and f.endswith(".py"))
    for p in props:
        code, ctx = chk.run_property(p, "quick", REPO_ROOT, quiet=True, overrides=ov, write=False)
        print(f"== {p}: exit {code}")
        if ctx is not None:
            for r in ctx.violations()[:6]:
                print("   FALSE-ALARM", r.text()[:230])
            for rid, msg in ctx.errors[:6]:
                print("   undecided", rid, msg[:200])
