"""Self-test catalogue (DESIGN.md section 7): textual variants of the current tree, per property."""
from selftest.harness import V

SG = "src/spikeglx.py"
NP = "src/neuropixel.py"
UT = "src/ibldsp/utils.py"
VO = "src/ibldsp/voltage.py"
FO = "src/ibldsp/fourier.py"
WF = "src/ibldsp/waveforms.py"
WE = "src/ibldsp/waveform_extraction.py"

VARIANTS = {}

# ------------------------------------------------------------------------------------------------ C01
VARIANTS["C01"] = [
    V("gains-unpermuted", "fire", SG, [(
        "        if hasattr(self, 'raw_channel_order'):\n            csel = self.raw_channel_order[csel]\n        darray = self._raw[nsel, :].astype(np.float32, copy=True)[..., csel]\n        darray *= self.channel_conversion_sample2v[self.type][csel]",
        "        csel0 = csel\n        if hasattr(self, 'raw_channel_order'):\n            csel = self.raw_channel_order[csel]\n        darray = self._raw[nsel, :].astype(np.float32, copy=True)[..., csel]\n        darray *= self.channel_conversion_sample2v[self.type][csel0]")],
      ("D1",), "gains gathered with the caller's selector while data uses the permuted one; all test files have uniform gains"),
    V("perm-after-data", "fire", SG, [(
        "        if hasattr(self, 'raw_channel_order'):\n            csel = self.raw_channel_order[csel]\n        darray = self._raw[nsel, :].astype(np.float32, copy=True)[..., csel]\n",
        "        darray = self._raw[nsel, :].astype(np.float32, copy=True)[..., csel]\n        if hasattr(self, 'raw_channel_order'):\n            csel = self.raw_channel_order[csel]\n")],
      ("D1",), "permutation applied to the gain selector only"),
    V("perm-dropped", "fire", SG, [(
        "        if hasattr(self, 'raw_channel_order'):\n            csel = self.raw_channel_order[csel]\n", "")], ("D1",),
      "no permutation at all: sorted geometry no longer matches columns (NP1 files are already sorted, NP2.4 tests use sort=False)"),
    V("perm-argsort", "fire", SG, [(
        "            csel = self.raw_channel_order[csel]\n", "            csel = np.argsort(self.raw_channel_order)[csel]\n")], ("D1",),
      "inverse permutation applied"),
    V("sort-not-forwarded", "fire", SG, [(
        "geometry_from_meta(self.meta, return_index=True, sort=sort)", "geometry_from_meta(self.meta, return_index=True)")], ("D2",),
      "Reader(sort=False) would still sort"),
    V("geometry-two-calls", "fire", SG, [(
        "            self.geometry, order = geometry_from_meta(self.meta, return_index=True, sort=sort)\n",
        "            self.geometry = geometry_from_meta(self.meta, sort=True)\n            _, order = geometry_from_meta(self.meta, return_index=True, sort=sort)\n")],
      ("D2",), "geometry and order taken from two calls that can disagree"),
    V("order-reversed-store", "fire", SG, [(
        "                self.raw_channel_order[:order.size] = order\n", "                self.raw_channel_order[:order.size] = order[::-1]\n")], ("D2",), ""),
    V("returned-index-not-applied", "fire", SG, [(
        "        th = {k: v[inds] for k, v in th.items()}\n", "        th = {k: v[np.argsort(inds)] for k, v in th.items()}\n")], ("D2b",), ""),
    V("getitem-branch-without-return", "fire", SG, [(
        "            raise IndexError(f\"too many indices: the reader is 2-dimensional, but {len(item)} were indexed\")\n        return self.read(nsel=item, sync=False)\n",
        "        elif isinstance(item, (int, slice)):\n            return self.read(nsel=item, sync=False)\n")], ("D3",),
      "regression of the F1 repair: lists / arrays fall through and return None"),
    V("getitem-swapped", "fire", SG, [(
        "return self.read(nsel=item[0], csel=item[1], sync=False)", "return self.read(nsel=item[1], csel=item[0], sync=False)")], ("D3",), ""),
    V("getitem-sync-true", "fire", SG, [(
        "        return self.read(nsel=item, sync=False)\n", "        return self.read(nsel=item)\n")], ("D3",), ""),
    V("sync-gain-scaled", "fire", SG, [(
        "sy_gain = np.ones(int(meta_data[\"snsApLfSy\"][-1]), dtype=np.float32)", "sy_gain = np.ones(int(meta_data[\"snsApLfSy\"][-1]), dtype=np.float32) * int2volt")],
      ("D4",), "sync scaled by the int2volt factor"),
    # twins
    V("twin-rename-csel", "twin", SG, [(
        "            csel = self.raw_channel_order[csel]\n        darray = self._raw[nsel, :].astype(np.float32, copy=True)[..., csel]\n        darray *= self.channel_conversion_sample2v[self.type][csel]",
        "            csel = self.raw_channel_order[csel]\n        darray = self._raw[nsel, :].astype(np.float32, copy=True)[..., csel]\n        darray *= self.sample2volts[csel]")],
      (), "gain vector through the sample2volts property"),
    V("twin-getitem-isinstance-first", "twin", SG, [(
        "        if isinstance(item, tuple):\n            if len(item) == 1:\n                return self.read(nsel=item[0], sync=False)\n            elif len(item) == 2:\n                return self.read(nsel=item[0], csel=item[1], sync=False)\n            raise IndexError(f\"too many indices: the reader is 2-dimensional, but {len(item)} were indexed\")\n        return self.read(nsel=item, sync=False)\n",
        "        if not isinstance(item, tuple):\n            return self.read(nsel=item, sync=False)\n        if len(item) == 1:\n            return self.read(item[0], sync=False)\n        if len(item) == 2:\n            return self.read(item[0], item[1], sync=False)\n        raise IndexError('too many indices')\n")],
      (), "dispatch restructured, positional arguments"),
    V("twin-order-len", "twin", SG, [(
        "self.raw_channel_order[:order.size] = order", "self.raw_channel_order[:len(order)] = order")], (), ""),
]

# ------------------------------------------------------------------------------------------------ C08
VARIANTS["C08"] = [
    V("np1-flip-about-selection-extent", "fire", SG, [(
        '            th["x"] = 70 - (th["x"])', '            th["x"] = th["x"].min() + th["x"].max() - th["x"]')], ("D8",),
      "mirror about the centre of the saved sites, not the shank axis: wrong whenever the selection misses an outer column"),
    V("twin-flip-constant-sum", "twin", SG, [(
        '            th["x"] = 70 - (th["x"])', '            th["x"] = (11 + 59) - th["x"]')], (), "same axis, spelled as the sum of the outer columns"),
    V("key-after-permutation", "fire", SG, [(
        "    th[\"ind\"] = np.arange(th[\"col\"].size)\n    if sort:",
        "    if sort:"), (
        "        inds = np.arange(th['col'].size)\n    if return_index:",
        "        inds = np.arange(th['col'].size)\n    th[\"ind\"] = np.arange(th[\"col\"].size)\n    if return_index:")], ("D1",),
      "'ind' stored after the permutation stays in on-disk order"),
    V("perm-filtered", "fire", SG, [(
        "th = {k: v[inds] for k, v in th.items()}", "th = {k: v[inds] for k, v in th.items() if k != 'adc'}")], ("D1",), ""),
    V("sort-keys-reordered", "fire", SG, [(
        "np.c_[-th['col'], th['row'], th['shank']]", "np.c_[th['shank'], th['row'], -th['col']]")], ("D2",), ""),
    V("sort-col-ascending", "fire", SG, [(
        "np.c_[-th['col'], th['row'], th['shank']]", "np.c_[th['col'], th['row'], th['shank']]")], ("D2",), ""),
    V("rc2xy-wrong-pitch", "fire", NP, [(
        "    y = row * grid['DY'] + grid['Y0']", "    y = row * grid['DX'] + grid['Y0']")], ("D3",), ""),
    V("xy2rc-no-offset", "fire", NP, [(
        "    col = (x - grid['X0']) / grid['DX']", "    col = x / grid['DX']")], ("D3",), ""),
    V("version-missing-major", "fire", SG, [(
        "\"NP2.4\": 2.4, \"NPultra\": \"NPultra\"}", "\"NP2.4\": 2.4}")], ("D4",), ""),
    V("adc-branch-exact-2", "fire", NP, [(
        "    elif np.floor(version) == 2:\n        # version 2 uses 24 ADC", "    elif version == 2:\n        # version 2 uses 24 ADC")], ("D4",),
      "2.4 probes get no ADC table"),
    V("adc-depends-on-nc", "fire", NP, [(
        "adc = np.floor(np.arange(NC) / (adc_channels * 2)) * 2 + np.mod(np.arange(NC), 2)",
        "adc = np.floor(np.arange(nc) / (adc_channels * 2)) * 2 + np.mod(np.arange(nc), 2)"), (
        "    return sample_shift[:nc], adc[:nc]", "    return sample_shift, adc")], ("D5",), ""),
    V("adc-cycles", "fire", NP, [("        n_cycles = 13\n", "        n_cycles = 12\n")], ("D5",), ""),
    V("split-filter", "fire", SG, [(
        "th = {key: th[key][shank_idx] for key in th.keys()}", "th = {key: th[key][shank_idx] for key in th.keys() if key != 'flag'}")], ("D1",), ""),
    V("twin-lexsort-tuple", "twin", SG, [(
        "        sort_keys = np.c_[-th['col'], th['row'], th['shank']]\n        inds = np.lexsort(sort_keys.T)\n",
        "        inds = np.lexsort((-th['col'], th['row'], th['shank']))\n")], (), ""),
    V("unique-inverse", "fire", SG, [(
        "        sort_keys = np.c_[-th['col'], th['row'], th['shank']]\n        inds = np.lexsort(sort_keys.T)\n",
        "        sort_keys = np.c_[th['shank'], th['row'], -th['col']]\n        _, inds = np.unique(sort_keys, axis=0, return_inverse=True)\n")], ("D2",),
      "inverse permutation: identical for self-inverse channel orders (all dense layouts)"),
    V("lexsort-columns", "fire", SG, [("        inds = np.lexsort(sort_keys.T)\n", "        inds = np.lexsort(sort_keys)\n")], ("D2",), ""),
    V("twin-unique-index", "twin", SG, [(
        "        sort_keys = np.c_[-th['col'], th['row'], th['shank']]\n        inds = np.lexsort(sort_keys.T)\n",
        "        sort_keys = np.c_[th['shank'], th['row'], -th['col']]\n        _, inds = np.unique(sort_keys, axis=0, return_index=True)\n")], (), "row-wise unique with return_index is the sorting permutation (sites are unique)"),
    V("twin-rc2xy-commuted", "twin", NP, [(
        "    x = col * grid['DX'] + grid['X0']", "    x = grid['X0'] + grid['DX'] * col")], (), ""),
]

# ------------------------------------------------------------------------------------------------ C09
VARIANTS["C09"] = [
    V("sy-gain-zeros", "fire", SG, [(
        "sy_gain = np.ones(int(meta_data[\"snsApLfSy\"][-1]), dtype=np.float32)", "sy_gain = np.zeros(int(meta_data[\"snsApLfSy\"][-1]), dtype=np.float32)")], ("D1",), ""),
    V("ap-reads-lf-field", "fire", SG, [(
        "np.array([1 / np.float32(g.split(\" \")[-2]) for g in gain])", "np.array([1 / np.float32(g.split(\" \")[-1]) for g in gain])")], ("D2",),
      "AP gain read from the LF field; test files have AP 500 / LF 250 but testReadChannelGainAPLF samples only some"),
    V("np2-lf-gain", "fire", SG, [(
        "                \"lf\": np.hstack(\n                    (int2volt / 80 * np.ones(n_chn).astype(np.float32), sy_gain)",
        "                \"lf\": np.hstack(\n                    (int2volt / 250 * np.ones(n_chn).astype(np.float32), sy_gain)")], ("D2",), ""),
    V("gain-multiplied", "fire", SG, [(
        "np.array([1 / np.float32(g.split(\" \")[-2]) for g in gain])\n                        * int2volt",
        "np.array([np.float32(g.split(\" \")[-2]) for g in gain])\n                        * int2volt")], ("D2",), ""),
    V("analog-count-without-sync", "fire", SG, [(
        "        n_chn = _get_nchannels_from_meta(meta_data) - len(\n            _get_sync_trace_indices_from_meta(meta_data)\n        )",
        "        n_chn = _get_nchannels_from_meta(meta_data)")], ("D1",), ""),
    V("writer-semicolon", "fire", SG, [(
        "val = \",\".join([str(int(v)) for v in val])", "val = \";\".join([str(int(v)) for v in val])")], ("D3",), ""),
    V("reader-no-maxsplit", "fire", SG, [("k, v = a.split(\"=\", maxsplit=1)", "k, v = a.split(\"=\")[:2]")], ("D3",), ""),
    V("maxint-np1-default", "fire", SG, [("return int(md.get(\"imMaxInt\", 512))", "return int(md.get(\"imMaxInt\", 8192))")], ("D5",), ""),
    V("sync-first", "fire", SG, [("return list(range(ntr - nsync, ntr))", "return list(range(0, nsync))")], ("D6",), ""),
    V("type-swapped", "fire", SG, [(
        "    if snsApLfSy[0] == 0 and snsApLfSy[1] != 0:\n        return \"lf\"\n    elif snsApLfSy[0] != 0 and snsApLfSy[1] == 0:\n        return \"ap\"",
        "    if snsApLfSy[0] == 0 and snsApLfSy[1] != 0:\n        return \"ap\"\n    elif snsApLfSy[0] != 0 and snsApLfSy[1] == 0:\n        return \"lf\"")], ("D7",), ""),
    V("range-key-nidq", "fire", SG, [(
        "            return md.get(\"niAiRangeMax\") / maxint", "            return md.get(\"imAiRangeMax\") / maxint")], ("D2", "D8"), ""),
    V("nidq-ma-uses-mn-gain", "fire", SG, [("            / meta_data[\"niMAGain\"]\n", "            / meta_data[\"niMNGain\"]\n")], ("D8",), "needs a nidq stream with MA channels and niMAGain != niMNGain"),
    V("nidq-xa-without-int2volt", "fire", SG, [("            * int2volt,  # no gain for analog sync\n", "            ,  # no gain for analog sync\n")], ("D8",), ""),
    V("twin-positive-fields", "twin", SG, [(
        "g.split(\" \")[-1]", "g.split(\" \")[4]"), ("g.split(\" \")[-2]", "g.split(\" \")[3]")], (), ""),
    V("twin-ns-rint", "twin", SG, [(
        "return int(np.round(self.meta.get(\"fileTimeSecs\") * self.fs))", "return int(np.rint(self.meta[\"fileTimeSecs\"] * self.fs))")], (), ""),
]

# ------------------------------------------------------------------------------------------------ C02
VARIANTS["C02"] = [
    V("chunkwise-read-wrong-stride-phase", "fire", SG, [('        darray = self._raw[nsel, :].astype(np.float32, copy=True)[..., csel]\n', '        if isinstance(self._raw, mtscomp.Reader) and isinstance(nsel, slice) and (nsel.step or 1) > 0:\n            start, stop, step = nsel.indices(self._raw.shape[0])\n            bounds = np.asarray(self._raw.chunk_bounds)\n            raw = np.empty((len(range(start, stop, step)), self._raw.shape[1]), dtype=np.float32)\n            n = 0\n            for c0, c1 in zip(bounds[:-1], bounds[1:]):\n                first = max(start, c0)\n                first += (first - start) % step\n                piece = self._raw[first:min(stop, c1):step, :]\n                raw[n:n + piece.shape[0], :] = piece\n                n += piece.shape[0]\n        else:\n            raw = self._raw[nsel, :].astype(np.float32, copy=True)\n        darray = raw[..., csel]\n')], ("D6",), "strided read of a compressed file assembled chunk by chunk with the stride re-aligned with the wrong sign"),
    V("twin-chunkwise-read", "twin", SG, [('        darray = self._raw[nsel, :].astype(np.float32, copy=True)[..., csel]\n', '        if isinstance(self._raw, mtscomp.Reader) and isinstance(nsel, slice) and (nsel.step or 1) > 0:\n            start, stop, step = nsel.indices(self._raw.shape[0])\n            bounds = np.asarray(self._raw.chunk_bounds)\n            raw = np.empty((len(range(start, stop, step)), self._raw.shape[1]), dtype=np.float32)\n            n = 0\n            for c0, c1 in zip(bounds[:-1], bounds[1:]):\n                first = max(start, c0)\n                first += (start - first) % step\n                piece = self._raw[first:min(stop, c1):step, :]\n                raw[n:n + piece.shape[0], :] = piece\n                n += piece.shape[0]\n        else:\n            raw = self._raw[nsel, :].astype(np.float32, copy=True)\n        darray = raw[..., csel]\n')], (), "chunk-by-chunk strided read, stride aligned on the slice start"),
    V("out-is-final", "fire", SG, [(
        "        file_tmp = self.file_bin.with_suffix(\".cbin_tmp\")\n", "        file_tmp = self.file_bin.with_suffix(\".cbin\")\n")], ("D1",),
      "compression writes straight to the final name; only a failure mid-compression shows it"),
    V("no-rename", "fire", SG, [(
        "            out=file_tmp,\n", "            out=self.file_bin.with_suffix(\".cbin\"),\n"), (
        "        file_tmp.rename(file_out)\n", "")], ("D1",), ""),
    V("unlink-before-rename", "fire", SG, [(
        "        file_out = file_tmp.with_suffix(\".cbin\")\n        file_tmp.rename(file_out)\n        if not keep_original:\n            self.file_bin.unlink()\n            self.file_bin = file_out\n",
        "        file_out = file_tmp.with_suffix(\".cbin\")\n        if not keep_original:\n            self.file_bin.unlink()\n        file_tmp.rename(file_out)\n        if not keep_original:\n            self.file_bin = file_out\n")],
      ("D2",), "source removed before the replacement carries its final name"),
    V("unlink-before-compress", "fire", SG, [(
        "        assert not self.is_mtscomp\n        mtscomp.compress(", "        assert not self.is_mtscomp\n        if not keep_original:\n            self.file_bin.unlink()\n        mtscomp.compress("), (
        "        if not keep_original:\n            self.file_bin.unlink()\n            self.file_bin = file_out\n", "        if not keep_original:\n            self.file_bin = file_out\n")],
      ("D2",), ""),
    V("keep-original-guard-dropped", "fire", SG, [(
        "        r.close()\n        if not keep_original:\n            self.close()\n            self.file_bin.unlink()\n",
        "        r.close()\n        self.close()\n        self.file_bin.unlink()\n        if not keep_original:\n")], ("D2",),
      "decompress_file always removes the .cbin"),
    V("unlink-before-close", "fire", SG, [(
        "        r.close()\n        if not keep_original:\n            self.close()\n            self.file_bin.unlink()\n            self.file_bin.with_suffix(\".ch\").unlink()\n            self.file_bin = kwargs[\"out\"]\n",
        "        if not keep_original:\n            self.close()\n            self.file_bin.unlink()\n            self.file_bin.with_suffix(\".ch\").unlink()\n            self.file_bin = kwargs[\"out\"]\n        r.close()\n")], ("D2",), ""),
    V("scratch-direct", "fire", SG, [(
        "keep_original=True, out=bin_file.with_suffix('.bin_temp'), check_after_decompress=False, overwrite=True\n            )\n            shutil.move(bin_file.with_suffix('.bin_temp'), bin_file)\n",
        "keep_original=True, out=bin_file, check_after_decompress=False, overwrite=True\n            )\n")], ("D1",),
      "an interrupted decompression leaves a partial .bin that the next call takes for complete"),
    V("scratch-move-first", "fire", SG, [(
        "            self.decompress_file(\n                keep_original=True, out=bin_file.with_suffix('.bin_temp'), check_after_decompress=False, overwrite=True\n            )\n            shutil.move(bin_file.with_suffix('.bin_temp'), bin_file)\n",
        "            if bin_file.with_suffix('.bin_temp').exists():\n                shutil.move(bin_file.with_suffix('.bin_temp'), bin_file)\n                return bin_file\n            self.decompress_file(\n                keep_original=True, out=bin_file.with_suffix('.bin_temp'), check_after_decompress=False, overwrite=True\n            )\n            shutil.move(bin_file.with_suffix('.bin_temp'), bin_file)\n")],
      ("D1",), "a leftover temp from a crashed run is published as if complete"),
    V("cbin-candidate-dead", "fire", SG, [(
        "            self.file_bin = next(\n                (f for f in (sglx_file.with_suffix(\".bin\"), sglx_file.with_suffix(\".cbin\")) if f.exists()),\n                None,\n            )\n",
        "            self.file_bin = sglx_file.with_suffix(\".cbin\") if sglx_file.with_suffix(\".cbin\").exists() else None\n            self.file_bin = sglx_file.with_suffix(\".bin\") if sglx_file.with_suffix(\".bin\").exists() else None\n")],
      ("D3",), "regression of the F2 repair"),
    V("only-bin-candidate", "fire", SG, [(
        "(f for f in (sglx_file.with_suffix(\".bin\"), sglx_file.with_suffix(\".cbin\")) if f.exists())", "(f for f in (sglx_file.with_suffix(\".bin\"),) if f.exists())")],
      ("D3",), ""),
    V("duration-from-cached-size", "fire", SG, [(
        "                ftsec = (\n                    self.file_bin.stat().st_size // (self.dtype.itemsize * self.nc)\n                ) / self.fs\n",
        "                ftsec = (self.nbytes // (self.dtype.itemsize * self.nc)) / self.fs\n")], ("D5",),
      "needs: Reader(.cbin) -> decompress_file(keep_original=False) -> open() on the same object"),
    V("twin-cached-size-refreshed", "twin", SG, [(
        "                ftsec = (\n                    self.file_bin.stat().st_size // (self.dtype.itemsize * self.nc)\n                ) / self.fs\n",
        "                ftsec = (self.nbytes // (self.dtype.itemsize * self.nc)) / self.fs\n"), (
        "            self.file_bin.unlink()\n            self.file_bin = file_out\n", "            self.file_bin.unlink()\n            self.file_bin = file_out\n            self.nbytes = self.file_bin.stat().st_size\n"), (
        "            self.file_bin = kwargs[\"out\"]\n", "            self.file_bin = kwargs[\"out\"]\n            self.nbytes = self.file_bin.stat().st_size\n")], (),
      "cached size used, but refreshed wherever file_bin is rebound"),
    V("twin-os-replace", "twin", SG, [(
        "        file_tmp.rename(file_out)\n", "        file_tmp.replace(file_out)\n")], (), ""),
    V("twin-temp-suffix-renamed", "twin", SG, [(
        "self.file_bin.with_suffix(\".cbin_tmp\")", "self.file_bin.with_suffix(\".cbin_partial\")")], (), ""),
    V("twin-scratch-temp-var", "twin", SG, [(
        "            self.decompress_file(\n                keep_original=True, out=bin_file.with_suffix('.bin_temp'), check_after_decompress=False, overwrite=True\n            )\n            shutil.move(bin_file.with_suffix('.bin_temp'), bin_file)\n",
        "            tmp = bin_file.with_suffix('.bin_temp')\n            self.decompress_file(keep_original=True, out=tmp, check_after_decompress=False, overwrite=True)\n            shutil.move(tmp, bin_file)\n")], (), ""),
]

# ------------------------------------------------------------------------------------------------ C04
VARIANTS["C04"] = [
    V("delete-guard-or", "fire", NP, [(
        "        if self.check_completed and self.delete_original:", "        if self.check_completed or self.delete_original:")], ("D1",),
      "post_check=False + delete_original=True deletes an unverified original"),
    V("delete-guard-no-check", "fire", NP, [(
        "        if self.check_completed and self.delete_original:", "        if self.delete_original:")], ("D1",), ""),
    V("check-completed-early", "fire", NP, [(
        "        wg = WindowGenerator(self.nsamples, self.samples_window, 0)\n        for first, last in wg.firstlast:\n            expected = self.sr[first:last, :]",
        "        wg = WindowGenerator(self.nsamples, self.samples_window, 0)\n        self.check_completed = True\n        for first, last in wg.firstlast:\n            expected = self.sr[first:last, :]"), (
        "            sr.close()\n\n        self.check_completed = True\n", "            sr.close()\n")], ("D2",), ""),
    V("check-completed-in-init", "fire", NP, [(
        "        self.check_completed = False\n", "        self.check_completed = not self.post_check\n")], ("D2",),
      "post_check=False is treated as verified"),
    V("verify-logs-only", "fire", NP, [(
        "            assert np.array_equal(\n                expected, chunk\n            ), \"data in original file and split files do no match\"\n",
        "            if not np.array_equal(expected, chunk):\n                _logger.error(\"data in original file and split files do no match\")\n")], ("D2",),
      "testIncorrectSplitting would fail, but combined with a try/except variant it would not; kept as the simplest form"),
    V("verify-subset-columns", "fire", NP, [(
        "            expected = self.sr[first:last, :]\n            chunk = np.zeros_like(expected)", "            expected = self.sr[first:last, : self.napch]\n            chunk = np.zeros_like(expected)")],
      ("D2",), "sync column never verified"),
    V("np21-unlink-before-compress", "fire", NP, [(
        "                cbin_file = self.sr.compress_file()\n                self.sr.close()\n                self.ap_file.unlink()\n",
        "                self.sr.close()\n                self.ap_file.unlink()\n                cbin_file = self.sr.compress_file()\n")], ("D1",), ""),
    V("missing-ok-removed", "fire", NP, [(
        "                cbin_file = bin_file.with_suffix(\".cbin\")\n                cbin_file.unlink(missing_ok=True)\n\n            sr_ap",
        "                cbin_file = bin_file.with_suffix(\".cbin\")\n                cbin_file.unlink()\n\n            sr_ap")], ("D3",), "regression of the F4 repair"),
    V("already-processed-guard-removed", "fire", NP, [(
        "        if self.already_processed:\n            _logger.warning(\n                \"This ap file is an NP2.4 that has already been split into shanks, \"\n                \"nothing to do here\"\n            )\n            return 0\n\n", "")],
      ("D4",), ""),
    V("already-exists-no-return", "fire", NP, [(
        "                \"to force reprocessing set overwrite to True\"\n            )\n            return 0\n\n        # Initial checks out the way",
        "                \"to force reprocessing set overwrite to True\"\n            )\n\n        # Initial checks out the way")], ("D4",), ""),
    V("prepare-ignores-overwrite", "fire", NP, [(
        "            if not probe_path.exists() or overwrite:\n", "            if True:\n")], ("D4",), ""),
    V("marker-key-changed", "fire", NP, [(
        "            meta_shank[f\"{self.np_version}_shank\"] = int(sh[-1])\n            meta_file = self.shank_info[sh][\"ap_file\"].with_suffix(\".meta\")",
        "            meta_shank[f\"{self.np_version}_shank_index\"] = int(sh[-1])\n            meta_file = self.shank_info[sh][\"ap_file\"].with_suffix(\".meta\")")], ("D5",), ""),
    V("twin-exists-guard", "twin", NP, [(
        "                cbin_file = bin_file.with_suffix(\".cbin\")\n                cbin_file.unlink(missing_ok=True)\n\n            sr_ap",
        "                cbin_file = bin_file.with_suffix(\".cbin\")\n                if cbin_file.exists():\n                    cbin_file.unlink()\n\n            sr_ap")], (), ""),
    V("twin-delete-nested-ifs", "twin", NP, [(
        "        if self.check_completed and self.delete_original:\n            _logger.info(f\"Removing original file in folder {self.ap_file}\")\n            self.sr.close()\n            self.ap_file.unlink()\n",
        "        if not self.delete_original:\n            return\n        if self.check_completed:\n            _logger.info(f\"Removing original file in folder {self.ap_file}\")\n            self.sr.close()\n            self.ap_file.unlink()\n")], (), ""),
]

# ------------------------------------------------------------------------------------------------ C17
VARIANTS["C17"] = [
    V("cursor-read-back-from-iw", "fire", UT, [(
        "        while True:\n            last = first + self.nswin\n", "        while True:\n            first = self.iw * (self.nswin - self.overlap)\n            last = first + self.nswin\n")], ("D1",),
      "the position is recomputed from the shared attribute: a second generator on the same object derails this one"),
    V("twin-cursor-from-local-counter", "twin", UT, [(
        "        self.iw = 0\n        first = 0\n        while True:\n            last = first + self.nswin\n",
        "        self.iw = 0\n        first = 0\n        k = 0\n        while True:\n            first = k * (self.nswin - self.overlap)\n            last = first + self.nswin\n"), (
        "            first += self.nswin - self.overlap\n            self.iw += 1\n", "            k += 1\n            self.iw += 1\n")], (), "closed-form position from a local counter"),
    V("stride-nswin", "fire", UT, [("            first += self.nswin - self.overlap\n", "            first += self.nswin\n")], ("D1",), "windows no longer overlap"),
    V("stride-half-overlap", "fire", UT, [("            first += self.nswin - self.overlap\n", "            first += self.nswin - self.overlap // 2\n")], ("D1",), ""),
    V("min-dropped", "fire", UT, [("            last = min(last, self.ns)\n", "")], ("D1",), "last window overruns; loop never ends"),
    V("break-before-yield", "fire", UT, [(
        "            yield (first, last)\n            if last == self.ns:\n                break\n", "            if last == self.ns:\n                break\n            yield (first, last)\n")],
      ("D1",), "last window dropped"),
    V("iw-before-break", "fire", UT, [(
        "            yield (first, last)\n            if last == self.ns:\n                break\n            first += self.nswin - self.overlap\n            self.iw += 1\n",
        "            self.iw += 1\n            yield (first, last)\n            if last == self.ns:\n                break\n            first += self.nswin - self.overlap\n")], ("D1",),
      "iw is 1-based: NP2 converter never sees iw == 0"),
    V("valid-quarter", "fire", UT, [("            first_valid = 0 if first == 0 else first + self.overlap // 2\n", "            first_valid = 0 if first == 0 else first + self.overlap // 4\n")],
      ("D2",), "duplicated samples at seams"),
    V("valid-assert-removed", "fire", UT, [("        assert self.overlap % 2 == 0, \"Overlap must be even\"\n", "")], ("D2",), "odd overlap loses one sample per seam"),
    V("valid-last-edge", "fire", UT, [("            last_valid = last if last == self.ns else last - self.overlap // 2\n", "            last_valid = last - self.overlap // 2\n")], ("D2",),
      "tail of the signal never valid"),
    V("nwin-unclamped", "fire", UT, [(
        "        self.nwin = max(int(np.ceil(float(ns - nswin) / float(nswin - overlap))), 0) + 1\n", "        self.nwin = int(np.ceil(float(ns - nswin) / float(nswin - overlap))) + 1\n")],
      ("D3",), "regression of the F11a repair"),
    V("nwin-wrong-stride", "fire", UT, [("float(ns - nswin) / float(nswin - overlap)", "float(ns - nswin) / float(nswin)")], ("D3",), ""),
    V("nwin-floor", "fire", UT, [("max(int(np.ceil(float(ns - nswin) / float(nswin - overlap))), 0) + 1", "max(int(np.floor(float(ns - nswin) / float(nswin - overlap))), 0) + 1")], ("D3",), ""),
    V("splice-neg-bound", "fire", UT, [(
        "            if last < self.ns:\n                amp[last - first - self.overlap:] = np.flipud(w)\n", "            if last < self.ns:\n                amp[-self.overlap:] = np.flipud(w)\n")],
      ("D4",), "regression of the F11b repair: overlap 0 addresses the whole window"),
    V("splice-unconditional-tail", "fire", UT, [(
        "            if last < self.ns:\n                amp[last - first - self.overlap:] = np.flipud(w)\n", "            amp[last - first - self.overlap:] = 1 if last == self.ns else np.flipud(w)\n")],
      ("D4",), "regression of F11c: head ramp of a short last window overwritten"),
    V("splice-tail-not-flipped", "fire", UT, [("amp[last - first - self.overlap:] = np.flipud(w)", "amp[last - first - self.overlap:] = w")], ("D4",), ""),
    V("tscale-first", "fire", UT, [("[(first + (last - first - 1) / 2) / fs for first, last in self.firstlast]", "[(first + (last - first) / 2) / fs for first, last in self.firstlast]")], ("D5",), ""),
    V("twin-nwin-ceildiv", "twin", UT, [("max(int(np.ceil(float(ns - nswin) / float(nswin - overlap))), 0) + 1", "max(-((self.overlap - self.ns) // (self.nswin - self.overlap)), 1)")], (),
      "integer ceiling division with the clamp kept: ceil((ns-overlap)/stride) = ceil((ns-nswin)/stride) + 1, max(x+1, 1) = max(x, 0) + 1"),
    V("nwin-ceildiv-unclamped", "fire", UT, [("max(int(np.ceil(float(ns - nswin) / float(nswin - overlap))), 0) + 1", "-((self.overlap - self.ns) // (self.nswin - self.overlap))")], ("D3",),
      "exact for ns > overlap, <= 0 for shorter signals"),
    V("twin-valid-by-counter", "twin", UT, [(
        "            first_valid = 0 if first == 0 else first + self.overlap // 2\n            last_valid = last if last == self.ns else last - self.overlap // 2\n",
        "            first_valid = 0 if self.iw == 0 else first + self.overlap // 2\n            last_valid = last if self.iw == self.nwin - 1 else last - self.overlap // 2\n")], (), ""),
    V("twin-stride-var", "twin", UT, [("            first += self.nswin - self.overlap\n", "            step = self.nswin - self.overlap\n            first = first + step\n")], (), ""),
    V("twin-valid-if-stmt", "twin", UT, [(
        "            first_valid = 0 if first == 0 else first + self.overlap // 2\n", "            half = self.overlap // 2\n            first_valid = 0 if first == 0 else first + half\n")], (), ""),
    V("twin-tscale-form", "twin", UT, [("[(first + (last - first - 1) / 2) / fs for first, last in self.firstlast]", "[(first + last - 1) / 2 / fs for first, last in self.firstlast]")], (), ""),
    V("twin-nwin-npmax", "twin", UT, [("max(int(np.ceil(float(ns - nswin) / float(nswin - overlap))), 0) + 1", "1 + max(0, int(np.ceil((ns - nswin) / (nswin - overlap))))")], (), ""),
]

# ------------------------------------------------------------------------------------------------ C03
VARIANTS["C03"] = [
    V("rounding-removed", "fire", NP, [("        chunk2save = np.round(\n            np.c_[", "        chunk2save = (\n            np.c_[")], ("D1",), "regression of the F3 repair"),
    V("floor-instead-of-round", "fire", NP, [("        chunk2save = np.round(\n            np.c_[", "        chunk2save = np.floor(\n            np.c_[")], ("D1",), ""),
    V("taper-eighth", "fire", NP, [("        self.samples_taper = int(self.samples_overlap / 4)\n", "        self.samples_taper = int(self.samples_overlap / 8)\n")], ("D2",),
      "kept range shrinks: 144 samples duplicated at each seam; constant-valued test files cannot see duplicates... they can (length) - but only via file size"),
    V("kept-range-three-tapers", "fire", NP, [(
        "            int((self.samples_window - self.samples_taper * 2) / ratio),\n", "            int((self.samples_window - self.samples_taper * 3) / ratio),\n")], ("D2",),
      "144 samples lost at every seam"),
    V("twin-overlap-1152", "twin", NP, [("        self.samples_overlap = 576\n", "        self.samples_overlap = 1152\n")], (), "a different but self-consistent overlap/taper still tiles"),
    V("last-window-case-dropped", "fire", NP, [("        if wg.iw == wg.nwin - 1:\n            ind2save[1] = int(self.samples_window / ratio)\n", "")], ("D2",), "tail of the recording dropped"),
    V("last-window-off-by-one", "fire", NP, [("        if wg.iw == wg.nwin - 1:\n", "        if wg.iw == wg.nwin:\n")], ("D2",), ""),
    V("first-window-keeps-margin", "fire", NP, [("        if wg.iw == 0:\n            ind2save[0] = 0\n", "")], ("D2",), ""),
    V("sync-cut-differently", "fire", NP, [(
        "                chunk_sync[:, slice(*ind2save)].T\n", "                chunk_sync[:, slice(ind2save[0], ind2save[1] + 0)].T\n")], (), "twin in behaviour? no: identical range - used to test undecided handling", ),
    V("chns-sync-first", "fire", NP, [(
        "            _shank_info[\"chns\"] = np.r_[\n                np.where(chn_info[\"shank\"] == sh)[0],\n                np.array(spikeglx._get_sync_trace_indices_from_meta(self.sr.meta)),\n            ]\n\n            probe_path",
        "            _shank_info[\"chns\"] = np.r_[\n                np.array(spikeglx._get_sync_trace_indices_from_meta(self.sr.meta)),\n                np.where(chn_info[\"shank\"] == sh)[0],\n            ]\n\n            probe_path")],
      ("D3",), ""),
    V("split-writes-sorted-cols", "fire", NP, [("            (chunk[:, self.shank_info[sh][\"chns\"]]).tofile(open)\n", "            (chunk[:, np.sort(self.shank_info[sh][\"chns\"])[::-1]]).tofile(open)\n")], ("D3",), ""),
    V("reconstruct-without-trim", "fire", NP, [(
        "                    chunk[:, self.shank_info[sh][\"chns\"][:-1]] = self.shank_info[sh][\"sr\"]._raw[first:last, :-1]\n",
        "                    chunk[:, self.shank_info[sh][\"chns\"]] = self.shank_info[sh][\"sr\"]._raw[first:last, :]\n")], ("D4",),
      "sync column overwritten by the last shank (identical here, but the verified reassembly is different)"),
    V("reconstruct-through-volts", "fire", NP, [(
        "                    chunk[:, self.shank_info[sh][\"chns\"]] = self.shank_info[sh][\"sr\"]._raw[first:last, :]\n",
        "                    chunk[:, self.shank_info[sh][\"chns\"]] = self.shank_info[sh][\"sr\"][first:last, :] / self.shank_info[sh][\"sr\"].sample2volts\n")], ("D4",), ""),
    V("reconstructor-keeps-orig-subset", "fire", NP, [("        _ = meta_shank.pop(\"snsSaveChanSubset_orig\")\n", "")], ("D5",), ""),
    V("splitter-extra-key", "fire", NP, [(
        "            meta_shank[\"original_meta\"] = False\n            meta_shank[f\"{self.np_version}_shank\"] = int(sh[-1])\n            meta_file = self.shank_info[sh][\"ap_file\"].with_suffix(\".meta\")",
        "            meta_shank[\"original_meta\"] = False\n            meta_shank[\"fileTimeSecs\"] = self.nsamples / self.fs_ap\n            meta_shank[f\"{self.np_version}_shank\"] = int(sh[-1])\n            meta_file = self.shank_info[sh][\"ap_file\"].with_suffix(\".meta\")")],
      ("D5",), "an original field rewritten and never restored"),
    V("subset-parser-exclusive", "fire", NP, [("                chns = np.arange(int(sub[0]), int(sub[1]) + 1)\n", "                chns = np.arange(int(sub[0]), int(sub[1]))\n")], ("D6",),
      "parser treats the written inclusive range as exclusive"),
    V("subset-writer-exclusive-end", "fire", SG, [("{chns[chn_grps[i + 1] - 1]}", "{chns[chn_grps[i + 1] - 1] + 1}")], ("D6",), "writer emits an exclusive end, parser expands inclusively"),
    V("subset-writer-breaks-gt", "fire", SG, [("np.where(np.diff(chns) != 1)[0] + 1", "np.where(np.diff(chns) > 2)[0] + 1")], ("D6",), "runs merged across a one-channel gap"),
    V("subset-parser-prepends", "fire", NP, [("                chns_all = np.r_[chns_all, chns]\n", "                chns_all = np.r_[chns, chns_all]\n")], ("D6",), ""),
    V("subset-sep-semicolon", "fire", SG, [("    return \",\".join([sub for sub in chn_subset])", "    return \";\".join([sub for sub in chn_subset])")], ("D6",), ""),
    V("subset-range-count", "fire", NP, [("            meta_shank[\"snsSaveChanSubset\"] = f\"0:{n_chns-1}\"\n            meta_shank[\"original_meta\"] = False\n            meta_shank[f\"{self.np_version}_shank\"]",
                                          "            meta_shank[\"snsSaveChanSubset\"] = f\"0:{n_chns}\"\n            meta_shank[\"original_meta\"] = False\n            meta_shank[f\"{self.np_version}_shank\"]")], ("D6",), ""),
    V("twin-subset-parser-stop-var", "twin", NP, [("                chns = np.arange(int(sub[0]), int(sub[1]) + 1)\n", "                chns = np.arange(int(sub[0]), 1 + int(sub[1]), 1)\n")], (), ""),
    V("split-equal-width-blocks", "fire", NP, [(
        "        for sh in self.shank_info.keys():\n            open = self.shank_info[sh][f\"{etype}_open_file\"]\n            (chunk[:, self.shank_info[sh][\"chns\"]]).tofile(open)\n",
        "        shanks = list(self.shank_info.values())\n        frame = chunk[:, np.concatenate([shank[\"chns\"] for shank in shanks])]\n        for shank, block in zip(shanks, np.split(frame, len(shanks), axis=1)):\n            np.ascontiguousarray(block).tofile(shank[f\"{etype}_open_file\"])\n")],
      ("D3",), "one gather, equal-width blocks: wrong columns when shanks have different channel counts"),
    V("twin-split-cumulative-widths", "twin", NP, [(
        "        for sh in self.shank_info.keys():\n            open = self.shank_info[sh][f\"{etype}_open_file\"]\n            (chunk[:, self.shank_info[sh][\"chns\"]]).tofile(open)\n",
        "        shanks = list(self.shank_info.values())\n        frame = chunk[:, np.concatenate([shank[\"chns\"] for shank in shanks])]\n        cuts = np.cumsum([len(shank[\"chns\"]) for shank in shanks])[:-1]\n        for shank, block in zip(shanks, np.split(frame, cuts, axis=1)):\n            np.ascontiguousarray(block).tofile(shank[f\"{etype}_open_file\"])\n")],
      (), "one gather, blocks cut at the cumulative channel counts"),
    V("twin-rint", "twin", NP, [("        chunk2save = np.round(\n            np.c_[", "        chunk2save = np.rint(\n            np.c_[")], (), ""),
    V("twin-taper-expr", "twin", NP, [("        self.samples_taper = int(self.samples_overlap / 4)\n", "        self.samples_taper = self.samples_overlap // 4\n")], (), ""),
]
# the "sync-cut-differently" entry is really a twin (same range written another way)
VARIANTS["C03"] = [v if v.name != "sync-cut-differently" else V("twin-sync-cut-explicit", "twin", NP, v.edits, (), "same range, explicit bounds") for v in VARIANTS["C03"]]

VARIANTS["C03"] += [
    V("ap-handle-append-mode", "fire", NP, [(
        '                _shank_info["ap_open_file"] = open(_shank_info["ap_file"], "wb")', '                _shank_info["ap_open_file"] = open(_shank_info["ap_file"], "ab")')], ("D8",),
      "a forced re-split over uncompressed output of an earlier run appends behind the stale frames"),
    V("lazy-append-touch", "fire", NP, [(
        '                _shank_info["ap_open_file"] = open(_shank_info["ap_file"], "wb")', '                _shank_info["ap_file"].touch()\n                _shank_info["ap_open_file"] = open(_shank_info["ap_file"], "ab")')], ("D8",),
      "touch() keeps the stale content"),
    V("twin-write-bytes-then-append", "twin", NP, [(
        '                _shank_info["ap_open_file"] = open(_shank_info["ap_file"], "wb")', '                _shank_info["ap_file"].write_bytes(b"")\n                _shank_info["ap_open_file"] = open(_shank_info["ap_file"], "wb")')], (),
      "emptied explicitly, then opened"),
]
VARIANTS["C04"] += [
    V("np21-lf-handle-append-mode", "fire", NP, [(
        '                _shank_info["lf_file"] = lf_file\n                _shank_info["lf_open_file"] = open(_shank_info["lf_file"], "wb")',
        '                _shank_info["lf_file"] = lf_file\n                _shank_info["lf_open_file"] = open(_shank_info["lf_file"], "ab")')], ("D6",),
      "forced NP2.1 re-run appends the LF band behind the previous one"),
]


# ------------------------------------------------------------------------------------------------ C12
VARIANTS["C12"] = [
    V("window-lookahead-carried-chunk", "fire", NP, [('        for first, last in wg.firstlast:\n            first = first + offset\n            last = last + offset\n\n            chunk_lf = self.extract_lfp(self.sr[first:last, : self.napch].T)\n            chunk_lf_sync = self.extract_lfp_sync(\n                self.sr[first:last, self.idxsyncch:].T\n            )\n\n            chunk_lf2save = self._ind2save(\n                chunk_lf, chunk_lf_sync, wg, ratio=self.ratio, etype="lf"\n            )\n\n            self._split2shanks(chunk_lf2save, etype="lf")\n', '        pending = None\n        for first, last in wg.firstlast:\n            ahead = self.sr[first + offset:last + offset, :].T\n            if pending is not None:\n                chunk_lf2save = self._ind2save(\n                    self.extract_lfp(pending[: self.napch]), self.extract_lfp_sync(pending[self.idxsyncch:]), wg, ratio=self.ratio, etype="lf"\n                )\n                self._split2shanks(chunk_lf2save, etype="lf")\n            pending = ahead\n        chunk_lf2save = self._ind2save(\n            self.extract_lfp(pending[: self.napch]), self.extract_lfp_sync(pending[self.idxsyncch:]), wg, ratio=self.ratio, etype="lf"\n        )\n        self._split2shanks(chunk_lf2save, etype="lf")\n')], ("D5",),
      "each window is saved one iteration late: wg.iw is one ahead of the data when _ind2save trims it"),
    V("twin-window-generator-helper", "twin", NP, [('        for first, last in wg.firstlast:\n            first = first + offset\n            last = last + offset\n\n            chunk_lf = self.extract_lfp(self.sr[first:last, : self.napch].T)\n            chunk_lf_sync = self.extract_lfp_sync(\n                self.sr[first:last, self.idxsyncch:].T\n            )\n\n            chunk_lf2save = self._ind2save(\n                chunk_lf, chunk_lf_sync, wg, ratio=self.ratio, etype="lf"\n            )\n\n            self._split2shanks(chunk_lf2save, etype="lf")\n', '        for chunk_ap, chunk_sync in self._windows(wg, offset):\n            chunk_lf2save = self._ind2save(\n                self.extract_lfp(chunk_ap), self.extract_lfp_sync(chunk_sync), wg, ratio=self.ratio, etype="lf"\n            )\n            self._split2shanks(chunk_lf2save, etype="lf")\n'), ('    def _process_NP21(self', '    def _windows(self, wg, offset=0):\n        for first, last in wg.firstlast:\n            yield self.sr[first + offset:last + offset, : self.napch].T, self.sr[first + offset:last + offset, self.idxsyncch:].T\n\n    def _process_NP21(self')], (),
      "windows produced by a helper generator that yields inside its own iteration of firstlast"),
    V("sync-stride-off", "fire", NP, [("        chunk_sync = chunk_sync[:, :: self.ratio]\n", "        chunk_sync = chunk_sync[:, :: self.ratio + 1]\n")], ("D2",), ""),
    V("sync-phase-1", "fire", NP, [("        chunk_sync = chunk_sync[:, :: self.ratio]\n", "        chunk_sync = chunk_sync[:, 1:: self.ratio]\n")], ("D2",), ""),
    V("fs-lf-3000", "fire", NP, [("        self.fs_lf = 2500\n", "        self.fs_lf = 3000\n")], ("D3", "D1"), ""),
    V("lf-range-not-divided", "fire", NP, [(
        "            int((self.samples_window - self.samples_taper * 2) / ratio),\n", "            int(self.samples_window - self.samples_taper * 2),\n")], ("D1",), ""),
    V("lf-ratio-not-passed", "fire", NP, [(
        "            chunk_lf2save = self._ind2save(\n                chunk_lf, chunk_lf_sync, wg, ratio=self.ratio, etype=\"lf\"\n            )\n\n            self._split2shanks(chunk_lf2save, etype=\"lf\")\n\n        self._closefiles(etype=\"lf\")\n\n        self._writemetadata_lf()\n\n        if self.compress:\n            self.compress_NP21",
        "            chunk_lf2save = self._ind2save(\n                chunk_lf, chunk_lf_sync, wg, etype=\"lf\"\n            )\n\n            self._split2shanks(chunk_lf2save, etype=\"lf\")\n\n        self._closefiles(etype=\"lf\")\n\n        self._writemetadata_lf()\n\n        if self.compress:\n            self.compress_NP21")],
      ("D1",), "NP2.1 path keeps AP-sample bounds on the decimated chunk"),
    V("window-assert-removed", "fire", NP, [(
        "        assert (\n            np.mod(self.samples_window, self.ratio) == 0\n        ), f\"nwindow must be a factor or {self.ratio}\"\n", "")], ("D1",), ""),
    V("sosfilt-one-pass", "fire", NP, [("        chunk = scipy.signal.sosfiltfilt(self.sos_lp, chunk)\n", "        chunk = scipy.signal.sosfilt(self.sos_lp, chunk)\n")], ("D2",), ""),
    V("decimate-before-filter", "fire", NP, [(
        "        chunk = scipy.signal.sosfiltfilt(self.sos_lp, chunk)\n        chunk = chunk[:, :: self.ratio]\n", "        chunk = chunk[:, :: self.ratio]\n        chunk = scipy.signal.sosfiltfilt(self.sos_lp, chunk)\n")],
      ("D2",), ""),
    V("lf-meta-rate-missing", "fire", NP, [("            meta_shank[\"imSampRate\"] = self.fs_lf\n", "")], ("D3",), ""),
    V("lf-meta-count", "fire", NP, [("            meta_shank[\"snsApLfSy\"][1] = n_chns - 1\n", "            meta_shank[\"snsApLfSy\"][1] = n_chns\n")], ("D3",), ""),
    V("twin-ratio-local", "twin", NP, [("        chunk = chunk[:, :: self.ratio]\n        return chunk\n", "        out = chunk[:, :: self.ratio]\n        return out\n")], (), ""),
]

# ------------------------------------------------------------------------------------------------ C11
VARIANTS["C11"] = [
    V("rewrite-skipped-when-warnings-ignored", "fire", SG, [(
        "                    self.meta[\"fileTimeSecs\"] = ftsec\n            self._raw = np.memmap(", "                    if not self.ignore_warnings:\n                        self.meta[\"fileTimeSecs\"] = ftsec\n            self._raw = np.memmap(")],
      ("D2",), "the logging option also disables the repair"),
    V("real-quotient-restored", "fire", SG, [(
        "                ftsec = (\n                    self.file_bin.stat().st_size // (self.dtype.itemsize * self.nc)\n                ) / self.fs\n",
        "                ftsec = self.file_bin.stat().st_size / self.dtype.itemsize / self.nc / self.fs\n")], ("D1",), "regression of the F7 repair"),
    V("frames-rounded", "fire", SG, [(
        "self.file_bin.stat().st_size // (self.dtype.itemsize * self.nc)\n                ) / self.fs", "round(self.file_bin.stat().st_size / (self.dtype.itemsize * self.nc))\n                ) / self.fs")], ("D1",), ""),
    V("online-ns-rounds", "fire", SG, [(
        "        return int(self.file_bin.stat().st_size / self.dtype.itemsize / self.nc)\n", "        return int(np.round(self.file_bin.stat().st_size / self.dtype.itemsize / self.nc))\n")], ("D1",), ""),
    V("mismatch-only-shorter", "fire", SG, [(
        "            if self.nc * self.ns * self.dtype.itemsize != self.nbytes:", "            if self.nc * self.ns * self.dtype.itemsize > self.nbytes:")], ("D2",),
      "a file longer than announced (acquisition continued) is not re-measured"),
    V("memmap-before-rewrite", "fire", SG, [(
        "            if self.nc * self.ns * self.dtype.itemsize != self.nbytes:",
        "            self._raw = np.memmap(\n                sglx_file, dtype=self.dtype, mode=\"r\", shape=(self.ns, self.nc)\n            )\n            if self.nc * self.ns * self.dtype.itemsize != self.nbytes:"), (
        "                    self.meta[\"fileTimeSecs\"] = ftsec\n            self._raw = np.memmap(\n                sglx_file, dtype=self.dtype, mode=\"r\", shape=(self.ns, self.nc)\n            )\n",
        "                    self.meta[\"fileTimeSecs\"] = ftsec\n")], ("D2",), ""),
    V("ns-truncates", "fire", SG, [(
        "        return int(np.round(self.meta.get(\"fileTimeSecs\") * self.fs))\n", "        return int(self.meta.get(\"fileTimeSecs\") * self.fs)\n")], ("D2",),
      "n / fs * fs can be n - eps: one frame lost for some (n, fs)"),
    V("duration-from-constructor-size", "fire", SG, [(
        "                ftsec = (\n                    self.file_bin.stat().st_size // (self.dtype.itemsize * self.nc)\n                ) / self.fs\n",
        "                ftsec = (self.nbytes // (self.dtype.itemsize * self.nc)) / self.fs\n")], ("D3",), "needs Reader(open=False), a size change, then open()"),
    V("twin-int-of-quotient", "twin", SG, [(
        "self.file_bin.stat().st_size // (self.dtype.itemsize * self.nc)\n                ) / self.fs", "int(self.file_bin.stat().st_size / (self.dtype.itemsize * self.nc))\n                ) / self.fs")], (), ""),
    V("twin-floor-call", "twin", SG, [(
        "self.file_bin.stat().st_size // (self.dtype.itemsize * self.nc)\n                ) / self.fs", "np.floor(self.file_bin.stat().st_size / self.dtype.itemsize / self.nc)\n                ) / self.fs")], (), ""),
]

# ------------------------------------------------------------------------------------------------ C10
VARIANTS["C10"] = [
    V("unwrap-by-squeeze", "fire", UT, [("    if len(ind) == 1:\n        return ind[0], sign\n    else:\n        return ind, sign\n", "    return np.squeeze(ind), sign\n")], ("D2",),
      "a single detected edge collapses the edge axis too"),
    V("unwrap-row0-always", "fire", UT, [("    if len(ind) == 1:\n        return ind[0]\n    else:\n        return ind\n", "    return ind[0]\n")], ("D2",), "2-D input loses its sample axis"),
    V("twin-unwrap-ifexp", "twin", UT, [("    if len(ind) == 1:\n        return ind[0]\n    else:\n        return ind\n", "    return ind[0] if ind.shape[0] == 1 else ind\n")], (), ""),
    V("roll-4", "fire", SG, [("    out = np.flip(np.roll(out, 8, axis=1), axis=1)\n", "    out = np.flip(np.roll(out, 4, axis=1), axis=1)\n")], ("D1",), ""),
    V("flip-dropped", "fire", SG, [("    out = np.flip(np.roll(out, 8, axis=1), axis=1)\n", "    out = np.roll(out, 8, axis=1)\n")], ("D1",), ""),
    V("roll-no-axis", "fire", SG, [("    out = np.flip(np.roll(out, 8, axis=1), axis=1)\n", "    out = np.flip(np.roll(out, 8), axis=1)\n")], ("D1",),
      "flattened roll leaks bits into the neighbouring word; 17 test words with isolated bits do not show it"),
    V("bitorder-little-kept-roll", "fire", SG, [("np.unpackbits(sync_tr.view(np.uint8))", "np.unpackbits(sync_tr.view(np.uint8), bitorder=\"little\")")], ("D1",), ""),
    V("fronts-no-shift", "fire", UT, [("    sign = d[tuple(ind)]\n    ind[axis] += 1\n", "    sign = d[tuple(ind)]\n")], ("D2",), ""),
    V("fronts-strict", "fire", UT, [("    ind = np.array(np.where(np.abs(d) >= step))\n", "    ind = np.array(np.where(np.abs(d) > step))\n")], ("D2",), ""),
    V("fronts-sign-after-shift", "fire", UT, [("    sign = d[tuple(ind)]\n    ind[axis] += 1\n", "    ind[axis] += 1\n    sign = d[tuple(ind)]\n")], ("D2",), ""),
    V("rises-shift-axis0", "fire", UT, [("    ind = np.array(np.where(np.diff(x, axis=axis) >= step))\n    ind[axis] += 1\n", "    ind = np.array(np.where(np.diff(x, axis=axis) >= step))\n    ind[0] += 1\n")],
      ("D2",), "2-D input along the last axis gets its row index shifted"),
    V("falls-step-not-negated", "fire", UT, [("    return rises(-x, axis=axis, step=-step, analog=analog)\n", "    return rises(-x, axis=axis, step=step, analog=analog)\n")], ("D2",), ""),
    V("concat-analog-first", "fire", SG, [("        return np.concatenate((digital, np.int8(analog)), axis=1)\n", "        return np.concatenate((np.int8(analog), digital), axis=1)\n")], ("D3",), ""),
    V("threshold-strict", "fire", SG, [("        analog[np.where(analog >= threshold)] = 1\n", "        analog[np.where(analog > threshold)] = 1\n")], ("D3",), ""),
    V("falls-delegates-with-negative-step", "fire", UT, [("    return rises(-x, axis=axis, step=-step, analog=analog)\n", "    ind, sign = fronts(x, axis=axis, step=step)\n    return ind[..., sign < 0]\n"), (
        "    ind = np.array(np.where(np.diff(x, axis=axis) >= step))\n    ind[axis] += 1\n    if len(ind) == 1:\n        return ind[0]\n    else:\n        return ind\n",
        "    ind, sign = fronts(x, axis=axis, step=step)\n    return ind[..., sign > 0]\n")], ("D2",), "falls with a non-default step on a multi-level signal returns every downward transition"),
    V("twin-delegates-with-magnitude", "twin", UT, [("    return rises(-x, axis=axis, step=-step, analog=analog)\n", "    ind, sign = fronts(x, axis=axis, step=-step)\n    return ind[..., sign < 0]\n"), (
        "    ind = np.array(np.where(np.diff(x, axis=axis) >= step))\n    ind[axis] += 1\n    if len(ind) == 1:\n        return ind[0]\n    else:\n        return ind\n",
        "    ind, sign = fronts(x, axis=axis, step=step)\n    return ind[..., sign > 0]\n")], (), "same refactor with the step negated for falls (analog mode aside)"),
    V("twin-bitorder-little", "twin", SG, [(
        "    out = np.unpackbits(sync_tr.view(np.uint8)).reshape(sync_tr.size, 16)\n    out = np.flip(np.roll(out, 8, axis=1), axis=1)\n",
        "    out = np.unpackbits(sync_tr.view(np.uint8), bitorder=\"little\").reshape(sync_tr.size, 16)\n")], (), "LSB-first unpacking needs neither roll nor flip"),
    V("twin-fliplr", "twin", SG, [("    out = np.flip(np.roll(out, 8, axis=1), axis=1)\n", "    out = np.fliplr(np.roll(out, 8, axis=1))\n")], (), ""),
]

# ------------------------------------------------------------------------------------------------ C16
VARIANTS["C16"] = [
    V("proportion-ge", "fire", VO, [("np.logical_or(saturation > proportion, n_diff_saturated > proportion)", "np.logical_or(saturation >= proportion, n_diff_saturated > proportion)")], ("D1",),
      "exactly `proportion` of the channels over range now flags"),
    V("logical-and", "fire", VO, [("np.logical_or(saturation > proportion, n_diff_saturated > proportion)", "np.logical_and(saturation > proportion, n_diff_saturated > proportion)")], ("D1",), ""),
    V("factor-09", "fire", VO, [("np.abs(data) > max_voltage * 0.98", "np.abs(data) > max_voltage * 0.9")], ("D1",), ""),
    V("range-ge", "fire", VO, [("np.abs(data) > max_voltage * 0.98", "np.abs(data) >= max_voltage * 0.98")], ("D1",), ""),
    V("mean-over-time", "fire", VO, [("saturation = np.mean(np.abs(data) > max_voltage * 0.98, axis=0)", "saturation = np.mean(np.abs(data) > max_voltage * 0.98, axis=1)")], ("D1",), ""),
    V("pad-front", "fire", VO, [("    n_diff_saturated = np.r_[n_diff_saturated, 0]\n", "    n_diff_saturated = np.r_[0, n_diff_saturated]\n")], ("D1",), "slew flag lands on the sample after the jump"),
    V("no-abs", "fire", VO, [("np.mean(np.abs(data) > max_voltage * 0.98, axis=0)", "np.mean(data > max_voltage * 0.98, axis=0)")], ("D1",), "negative rail not detected"),
    V("mute-from-fraction", "fire", VO, [(
        "    saturation = np.logical_or(saturation > proportion, n_diff_saturated > proportion)\n", "    fraction = saturation\n    saturation = np.logical_or(saturation > proportion, n_diff_saturated > proportion)\n"), (
        "1 - scipy.signal.convolve(saturation, win, mode='same')", "1 - scipy.signal.convolve(fraction, win, mode='same')")], ("D2", "D3"),
      "gain follows the fraction of saturated channels, not the flags"),
    V("maximum-dropped", "fire", VO, [("    mute = np.maximum(0, 1 - scipy.signal.convolve(saturation, win, mode='same'))\n", "    mute = 1 - scipy.signal.convolve(saturation, win, mode='same')\n")], ("D3",), "negative gain inside long runs"),
    V("conv-full", "fire", VO, [("scipy.signal.convolve(saturation, win, mode='same')", "scipy.signal.convolve(saturation, win, mode='full')[:saturation.size]")], ("D3",), "gain delayed by half the window"),
    V("return-swapped", "fire", VO, [("    return saturation, mute\n\n\ndef interpolate_bad_channels", "    return mute, saturation\n\n\ndef interpolate_bad_channels")], ("D3", "D2"), ""),
    V("callsite-range-all", "fire", VO, [("data=chunk, max_voltage=_sr.range_volts[:ncv], fs=_sr.fs)", "data=chunk, max_voltage=_sr.range_volts[:-1], fs=_sr.fs)")], ("D4",),
      "identical for 385-channel files with one sync, wrong for nidq or subset files"),
    V("twin-clip", "twin", VO, [("    mute = np.maximum(0, 1 - scipy.signal.convolve(saturation, win, mode='same'))\n", "    mute = np.clip(1 - scipy.signal.convolve(saturation, win, mode='same'), 0, 1)\n")], (), ""),
    V("threshold-scaled-in-place", "fire", VO, [(
        "    max_voltage = np.atleast_1d(max_voltage)[:, np.newaxis]\n    saturation = np.mean(np.abs(data) > max_voltage * 0.98, axis=0)\n",
        "    max_voltage = np.atleast_1d(max_voltage)\n    max_voltage *= 0.98\n    max_voltage = max_voltage[:, np.newaxis]\n    saturation = np.mean(np.abs(data) > max_voltage, axis=0)\n")], ("D5", "D1"),
      "the caller's per-channel range array is scaled by 0.98 on every call"),
    V("twin-count-form", "twin", VO, [(
        "    saturation = np.mean(np.abs(data) > max_voltage * 0.98, axis=0)\n", "    saturation = np.count_nonzero(np.abs(data) > max_voltage * 0.98, axis=0)\n"), (
        "np.logical_or(saturation > proportion, n_diff_saturated > proportion)", "np.logical_or(saturation > proportion * data.shape[0], n_diff_saturated > proportion)")], (),
      "integer-count form of the strict proportion test"),
    V("count-ge-ceil", "fire", VO, [(
        "    saturation = np.mean(np.abs(data) > max_voltage * 0.98, axis=0)\n", "    saturation = np.count_nonzero(np.abs(data) > max_voltage * 0.98, axis=0)\n"), (
        "np.logical_or(saturation > proportion, n_diff_saturated > proportion)", "np.logical_or(saturation >= int(np.ceil(proportion * data.shape[0])), n_diff_saturated > proportion)")], ("D1",),
      "differs exactly when proportion * n_channels is a whole number"),
    V("twin-bitor", "twin", VO, [("np.logical_or(saturation > proportion, n_diff_saturated > proportion)", "(saturation > proportion) | (n_diff_saturated > proportion)")], (), ""),
]

# ------------------------------------------------------------------------------------------------ C15
VARIANTS["C15"] = [
    V("vectorised-donors-exclude-outside", "fire", VO, [("    # ephys_bad_channels(x, 30000, channel_labels[0], channel_labels[1])\n\n    # we interpolate only noisy channels or dead channels (0: good), out of the brain channels are left\n    bad_channels = gp.where(np.logical_or(channel_labels == 1, channel_labels == 2))[0]\n    for i in bad_channels:\n        # compute the weights to apply to neighbouring traces\n        offset = gp.abs(x - x[i] + 1j * (y - y[i]))\n        weights = gp.exp(-((offset / kriging_distance_um) ** p))\n        weights[bad_channels] = 0\n        weights[weights < 0.005] = 0\n        weights = weights / gp.sum(weights)\n        imult = gp.where(weights > 0)[0]\n        if imult.size == 0:\n            data[i, :] = 0\n            continue\n        data[i, :] = gp.matmul(weights[imult], data[imult, :])\n    # from viewephys.gui import viewephys\n    # f = viewephys(data.T, fs=1/30, h=h, title='interp2')\n    return data\n", "    # ephys_bad_channels(x, 30000, channel_labels[0], channel_labels[1])\n\n    # we interpolate only noisy channels or dead channels (0: good), out of the brain channels are left\n    labels = gp.asarray(channel_labels)\n    flagged = gp.where(labels != 0)[0]\n    bad_channels = gp.where(gp.logical_or(labels == 1, labels == 2))[0]\n    if bad_channels.size == 0:\n        return data\n    # compute the weights to apply to neighbouring traces for all of the bad channels at once:\n    # one row per bad channel, one column per channel of the probe\n    xy = x + 1j * y\n    offset = gp.abs(xy[gp.newaxis, :] - xy[bad_channels, gp.newaxis])\n    weights = gp.exp(-((offset / kriging_distance_um) ** p))\n    weights[:, flagged] = 0\n    weights[weights < 0.005] = 0\n    wsum = gp.sum(weights, axis=1, keepdims=True)\n    # a bad channel without any usable neighbour keeps a row of zeros and is therefore set to 0\n    weights = weights / gp.where(wsum > 0, wsum, 1)\n    # only a handful of traces around the bad channels take part in the product\n    imult = gp.where(gp.any(weights > 0, axis=0))[0]\n    data[bad_channels, :] = gp.matmul(weights[:, imult], data[imult, :])\n    # from viewephys.gui import viewephys\n    # f = viewephys(data.T, fs=1/30, h=h, title='interp2')\n    return data\n")], ("D2",), "vectorised repair that also drops outside-brain channels from the donors"),
    V("twin-vectorised-repair", "twin", VO, [("    # ephys_bad_channels(x, 30000, channel_labels[0], channel_labels[1])\n\n    # we interpolate only noisy channels or dead channels (0: good), out of the brain channels are left\n    bad_channels = gp.where(np.logical_or(channel_labels == 1, channel_labels == 2))[0]\n    for i in bad_channels:\n        # compute the weights to apply to neighbouring traces\n        offset = gp.abs(x - x[i] + 1j * (y - y[i]))\n        weights = gp.exp(-((offset / kriging_distance_um) ** p))\n        weights[bad_channels] = 0\n        weights[weights < 0.005] = 0\n        weights = weights / gp.sum(weights)\n        imult = gp.where(weights > 0)[0]\n        if imult.size == 0:\n            data[i, :] = 0\n            continue\n        data[i, :] = gp.matmul(weights[imult], data[imult, :])\n    # from viewephys.gui import viewephys\n    # f = viewephys(data.T, fs=1/30, h=h, title='interp2')\n    return data\n", "    # ephys_bad_channels(x, 30000, channel_labels[0], channel_labels[1])\n\n    # we interpolate only noisy channels or dead channels (0: good), out of the brain channels are left\n    labels = gp.asarray(channel_labels)\n    flagged = gp.where(labels != 0)[0]\n    bad_channels = gp.where(gp.logical_or(labels == 1, labels == 2))[0]\n    if bad_channels.size == 0:\n        return data\n    # compute the weights to apply to neighbouring traces for all of the bad channels at once:\n    # one row per bad channel, one column per channel of the probe\n    xy = x + 1j * y\n    offset = gp.abs(xy[gp.newaxis, :] - xy[bad_channels, gp.newaxis])\n    weights = gp.exp(-((offset / kriging_distance_um) ** p))\n    weights[:, bad_channels] = 0\n    weights[weights < 0.005] = 0\n    wsum = gp.sum(weights, axis=1, keepdims=True)\n    # a bad channel without any usable neighbour keeps a row of zeros and is therefore set to 0\n    weights = weights / gp.where(wsum > 0, wsum, 1)\n    # only a handful of traces around the bad channels take part in the product\n    imult = gp.where(gp.any(weights > 0, axis=0))[0]\n    data[bad_channels, :] = gp.matmul(weights[:, imult], data[imult, :])\n    # from viewephys.gui import viewephys\n    # f = viewephys(data.T, fs=1/30, h=h, title='interp2')\n    return data\n")], (), "vectorised repair, donors exclude exactly dead / noisy channels"),
    V("vectorised-zero-rows-not-columns", "fire", VO, [("    # ephys_bad_channels(x, 30000, channel_labels[0], channel_labels[1])\n\n    # we interpolate only noisy channels or dead channels (0: good), out of the brain channels are left\n    bad_channels = gp.where(np.logical_or(channel_labels == 1, channel_labels == 2))[0]\n    for i in bad_channels:\n        # compute the weights to apply to neighbouring traces\n        offset = gp.abs(x - x[i] + 1j * (y - y[i]))\n        weights = gp.exp(-((offset / kriging_distance_um) ** p))\n        weights[bad_channels] = 0\n        weights[weights < 0.005] = 0\n        weights = weights / gp.sum(weights)\n        imult = gp.where(weights > 0)[0]\n        if imult.size == 0:\n            data[i, :] = 0\n            continue\n        data[i, :] = gp.matmul(weights[imult], data[imult, :])\n    # from viewephys.gui import viewephys\n    # f = viewephys(data.T, fs=1/30, h=h, title='interp2')\n    return data\n", "    # ephys_bad_channels(x, 30000, channel_labels[0], channel_labels[1])\n\n    # we interpolate only noisy channels or dead channels (0: good), out of the brain channels are left\n    labels = gp.asarray(channel_labels)\n    flagged = gp.where(labels != 0)[0]\n    bad_channels = gp.where(gp.logical_or(labels == 1, labels == 2))[0]\n    if bad_channels.size == 0:\n        return data\n    # compute the weights to apply to neighbouring traces for all of the bad channels at once:\n    # one row per bad channel, one column per channel of the probe\n    xy = x + 1j * y\n    offset = gp.abs(xy[gp.newaxis, :] - xy[bad_channels, gp.newaxis])\n    weights = gp.exp(-((offset / kriging_distance_um) ** p))\n    weights[bad_channels, :] = 0\n    weights[weights < 0.005] = 0\n    wsum = gp.sum(weights, axis=1, keepdims=True)\n    # a bad channel without any usable neighbour keeps a row of zeros and is therefore set to 0\n    weights = weights / gp.where(wsum > 0, wsum, 1)\n    # only a handful of traces around the bad channels take part in the product\n    imult = gp.where(gp.any(weights > 0, axis=0))[0]\n    data[bad_channels, :] = gp.matmul(weights[:, imult], data[imult, :])\n    # from viewephys.gui import viewephys\n    # f = viewephys(data.T, fs=1/30, h=h, title='interp2')\n    return data\n")], ("D2",), "zeroes rows of the weight matrix instead of donor columns"),
    V("label-set-only-dead", "fire", VO, [("gp.where(np.logical_or(channel_labels == 1, channel_labels == 2))[0]", "gp.where(channel_labels == 1)[0]")], ("D1",), "noisy channels left in"),
    V("label-set-includes-outside", "fire", VO, [("gp.where(np.logical_or(channel_labels == 1, channel_labels == 2))[0]", "gp.where(channel_labels > 0)[0]")], ("D1",), "outside-brain channels rewritten"),
    V("store-neighbour-row", "fire", VO, [("        data[i, :] = gp.matmul(weights[imult], data[imult, :])\n", "        data[i, :] = gp.matmul(weights[imult], data[imult, :])\n        data[imult[0], :] = data[i, :]\n")], ("D1",), ""),
    V("zeroing-removed", "fire", VO, [("        weights[bad_channels] = 0\n", "")], ("D2",), "adjacent bad channels feed each other"),
    V("zeroing-after-norm", "fire", VO, [(
        "        weights[bad_channels] = 0\n        weights[weights < 0.005] = 0\n        weights = weights / gp.sum(weights)\n", "        weights[weights < 0.005] = 0\n        weights = weights / gp.sum(weights)\n        weights[bad_channels] = 0\n")], ("D2",), ""),
    V("threshold-after-norm", "fire", VO, [("        imult = gp.where(weights > 0)[0]\n", "        imult = gp.where(weights > 0.005)[0]\n")], ("D3",), "regression of the F10 repair"),
    V("late-cut", "fire", VO, [(
        "        weights[weights < 0.005] = 0\n        weights = weights / gp.sum(weights)\n", "        weights = weights / gp.sum(weights)\n        weights[weights < 0.005] = 0\n")], ("D3",), ""),
    V("no-normalisation", "fire", VO, [("        weights = weights / gp.sum(weights)\n", "")], ("D2", "D3"), ""),
    V("different-support", "fire", VO, [("gp.matmul(weights[imult], data[imult, :])", "gp.matmul(weights[imult], data[imult + 1, :])")], ("D3",), ""),
    V("stores-reordered", "fire", VO, [("    ichannels[idead] = 1\n    ichannels[inoisy] = 2\n", "    ichannels[inoisy] = 2\n    ichannels[idead] = 1\n")], ("D4",), ""),
    V("mode-axis0", "fire", VO, [("scipy.stats.mode(channel_labels, axis=1)", "scipy.stats.mode(channel_labels, axis=0)")], ("D4",), ""),
    V("twin-support-before-norm", "twin", VO, [(
        "        weights = weights / gp.sum(weights)\n        imult = gp.where(weights > 0)[0]\n", "        imult = gp.where(weights > 0)[0]\n        weights = weights / gp.sum(weights)\n")], (), ""),
    V("twin-nonzero", "twin", VO, [("        imult = gp.where(weights > 0)[0]\n", "        imult = gp.where(weights != 0)[0]\n")], (), ""),
]

# ------------------------------------------------------------------------------------------------ C18
VARIANTS["C18"] = [
    V("irfft-n-removed", "fire", FO, [("gp.fft.rfft(w_, axis=-1), n=ns, axis=-1)", "gp.fft.rfft(w_, axis=-1), axis=-1)")], ("D1",), "regression of the F12 repair (odd padded sizes 3, 9, 27, 81 ...)"),
    V("fshift-irfft-no-n", "fire", FO, [("        W = np.real(scipy.fft.irfft(W, ns, axis=axis))\n", "        W = np.real(scipy.fft.irfft(W, axis=axis))\n")], ("D1",), "odd-length traces come back one sample short"),
    V("pad-w-short", "fire", FO, [("(w, gp.zeros([*w.shape[:-1], ns - nsw], dtype=w.dtype)), axis=-1", "(w, gp.zeros([*w.shape[:-1], ns - nsx], dtype=w.dtype)), axis=-1")], ("D1",), ""),
    V("circular-wrap", "fire", FO, [("    ns = ns_optim_fft(nsx + nsw)\n", "    ns = ns_optim_fft(max(nsx, nsw))\n")], ("D1",), ""),
    V("same-first-floor", "fire", FO, [("        first = int(gp.floor(nsw / 2)) - ((nsw + 1) % 2)\n", "        first = int(gp.floor(nsw / 2))\n")], ("D2",), "even kernels shifted by one sample; agc uses odd windows only"),
    V("same-last-no-parity", "fire", FO, [("        last = int(gp.ceil(nsw / 2)) + ((nsw + 1) % 2)\n", "        last = int(gp.ceil(nsw / 2))\n")], ("D2",), ""),
    V("lp-returns-f", "fire", FO, [("        return 1 - filc\n", "        return filc\n")], ("D3",), ""),
    V("bp-bounds-swapped", "fire", FO, [("_freq_vector(f, b[0:2], typ=\"hp\") * _freq_vector(f, b[2:4], typ=\"lp\")", "_freq_vector(f, b[0:2], typ=\"lp\") * _freq_vector(f, b[2:4], typ=\"hp\")")], ("D3",), ""),
    V("extrap-swapped", "fire", UT, [("    y[x < bounds[0]] = f(bounds[0])\n    y[x > bounds[1]] = f(bounds[1])\n", "    y[x < bounds[0]] = f(bounds[1])\n    y[x > bounds[1]] = f(bounds[0])\n")], ("D3",), ""),
    V("fexpand-ilast", "fire", FO, [("    ilast = int((ns + (ns % 2)) / 2)\n", "    ilast = int(ns / 2)\n")], ("D4",), "odd lengths lose one mirrored bin"),
    V("freduce-no-plus-one", "fire", FO, [("    siz[axis] = int(np.floor(siz[axis] / 2 + 1))\n", "    siz[axis] = int(np.floor(siz[axis] / 2))\n")], ("D4",), ""),
    V("fscale-mirror", "fire", FO, [("-fsc[slice(-2 + (ns % 2), 0, -1)]", "-fsc[slice(-2, 0, -1)]")], ("D4",), "odd lengths get ns - 1 entries"),
    V("fscale-si-multiplied", "fire", FO, [("    fsc = np.arange(0, np.floor(ns / 2) + 1) / ns / si  # sample", "    fsc = np.arange(0, np.floor(ns / 2) + 1) / ns * si  # sample")], ("D5",), "identical for si = 1"),
    V("searchsorted-right", "fire", FO, [("    return sz[np.searchsorted(sz, ns)]\n", "    return sz[np.searchsorted(sz, ns, side=\"right\")]\n")], ("D5",), ""),
    V("corners-scaled-in-place", "fire", FO, [(
        "    f = fscale(ns, si=si, one_sided=True)\n", "    f = fscale(ns, one_sided=True)\n    b = np.asarray(b, dtype=float)\n    b *= si\n")], ("D6",),
      "needs float64 ndarray corners, si != 1 and the same array (or slices of it) reused in a later call"),
    V("twin-corners-scaled-copy", "twin", FO, [(
        "    f = fscale(ns, si=si, one_sided=True)\n", "    f = fscale(ns, one_sided=True)\n    b = np.array(b, dtype=float) * si\n")], (), "same normalisation on a copy"),
    V("twin-irfft-positional", "twin", FO, [("gp.fft.rfft(w_, axis=-1), n=ns, axis=-1)", "gp.fft.rfft(w_, axis=-1), ns, axis=-1)")], (), ""),
    V("twin-first-formula", "twin", FO, [("        first = int(gp.floor(nsw / 2)) - ((nsw + 1) % 2)\n", "        first = int(gp.floor((nsw - 1) / 2))\n")], (), ""),
]

# ------------------------------------------------------------------------------------------------ C07
VARIANTS["C07"] = [
    V("split-trunc-whole-floor-remainder", "fire", FO, [('    ns = ns or w.shape[axis]\n', '    ns = ns or w.shape[axis]\n    if np.isscalar(s) and abs(s) >= 1 and not np.iscomplexobj(w):\n        w, s = np.roll(w, int(s), axis=axis), s % 1\n')], ("D6",),
      "whole part truncated, remainder floored: negative non-integer shifts are one sample off"),
    V("twin-split-floor-floor", "twin", FO, [('    ns = ns or w.shape[axis]\n', '    ns = ns or w.shape[axis]\n    if np.isscalar(s) and abs(s) >= 1 and not np.iscomplexobj(w):\n        w, s = np.roll(w, int(np.floor(s)), axis=axis), s % 1\n')], (), ""),
    V("twin-split-trunc-minus-trunc", "twin", FO, [('    ns = ns or w.shape[axis]\n', '    ns = ns or w.shape[axis]\n    if np.isscalar(s) and abs(s) >= 1 and not np.iscomplexobj(w):\n        w, s = np.roll(w, int(s), axis=axis), s - int(s)\n')], (), ""),
    V("inplace-on-input", "fire", FO, [(
        "    if do_fft:\n        W = scipy.fft.rfft(w, axis=axis)\n    else:\n        W = w\n", "    w *= 1.0\n    if do_fft:\n        W = scipy.fft.rfft(w, axis=axis)\n    else:\n        W = w\n")], ("D1",), ""),
    V("alias-always", "fire", FO, [(
        "    if do_fft:\n        W = scipy.fft.rfft(w, axis=axis)\n    else:\n        W = w\n", "    W = w\n    W *= 1\n    if do_fft:\n        W = scipy.fft.rfft(w, axis=axis)\n")], ("D1",), ""),
    V("irfft-without-ns", "fire", FO, [("        W = np.real(scipy.fft.irfft(W, ns, axis=axis))\n", "        W = np.real(scipy.fft.irfft(W, axis=axis))\n")], ("D2",), ""),
    V("astype-dropped", "fire", FO, [("        W = W.astype(w.dtype)\n", "")], ("D2",), "float32 in, float64 out"),
    V("exponent-sign", "fire", FO, [("    W *= np.exp(1j * np.angle(dephas) * s)\n", "    W *= np.exp(-1j * np.angle(dephas) * s)\n")], ("D4",), ""),
    V("impulse-at-0", "fire", FO, [("    np.put(dephas, 1, 1)\n", "    np.put(dephas, 0, 1)\n")], ("D4",), "no shift at all"),
    V("s-shape-axis-dropped", "fire", FO, [("        s_shape[axis] = 1\n", "")], ("D3",), ""),
    V("resync-not-negated", "fire", WF, [("    spike_resync = fshift(spike2, -shift_computed)\n", "    spike_resync = fshift(spike2, shift_computed)\n")], ("D4",), ""),
    V("analytic-ramp-linspace", "fire", FO, [(
        "    dephas = np.zeros(shape)\n    np.put(dephas, 1, 1)\n    dephas = scipy.fft.rfft(dephas, axis=axis)\n", "    dephas = np.linspace(0, -np.pi, ns // 2 + 1).reshape(shape * 0 + 1)\n"), (
        "    W *= np.exp(1j * np.angle(dephas) * s)\n", "    W *= np.exp(1j * dephas * s)\n")], ("D4",), "ramp ends at -pi: right for even ns, too steep by ns/(ns-1) for odd ns"),
    V("twin-analytic-ramp-exact", "twin", FO, [(
        "    dephas = np.zeros(shape)\n    np.put(dephas, 1, 1)\n    dephas = scipy.fft.rfft(dephas, axis=axis)\n", "    kshape = shape * 0 + 1\n    kshape[axis] = ns // 2 + 1\n    dephas = (-2 * np.pi * np.arange(ns // 2 + 1) / ns).reshape(kshape)\n"), (
        "    W *= np.exp(1j * np.angle(dephas) * s)\n", "    W *= np.exp(1j * dephas * s)\n")], (), "exact analytic ramp -2*pi*k/ns laid out along the shift axis"),
    V("shifts-scaled-in-place-through-view", "fire", FO, [(
        "        s = s.reshape(s_shape)\n", "        s = s.reshape(s_shape)\n        s *= 1.0\n")], ("D1",),
      "reshape returns a view: the in-place statement writes into the caller's shift vector"),
    V("twin-shifts-copied-before-in-place", "twin", FO, [(
        "        s = s.reshape(s_shape)\n", "        s = np.array(s, dtype=float).reshape(s_shape)\n        s *= 1.0\n")], (), "np.array copies"),
    V("twin-ns-keyword", "twin", FO, [("scipy.fft.irfft(W, ns, axis=axis)", "scipy.fft.irfft(W, n=ns, axis=axis)")], (), ""),
    V("twin-not-iscomplex", "twin", FO, [("    do_fft = np.invert(np.iscomplexobj(w))\n", "    do_fft = not np.iscomplexobj(w)\n")], (), ""),
]

# ------------------------------------------------------------------------------------------------ C05
VARIANTS["C05"] = [
    V("groups-split-unsorted-first-index", "fire", VO, [(
        "        for c in np.unique(collection):\n            sel = collection == c\n            xout[sel, :] = car(x=x[sel, :], collection=None, operator=operator, **kwargs)\n",
        "        order = np.argsort(collection, kind=\"stable\")\n        _, first = np.unique(collection, return_index=True)\n        for sel in np.split(order, first[1:]):\n            xout[sel, :] = car(x=x[sel, :], collection=None, operator=operator, **kwargs)\n")],
      ("D1",), "group boundaries taken from the unsorted vector: interleaved shanks are mixed"),
    V("groups-mask-by-index", "fire", VO, [(
        "        for c in np.unique(collection):\n            sel = collection == c\n            xout[sel, :] = car(x=x[sel, :], collection=None, operator=operator, **kwargs)\n",
        "        for c in np.unique(collection):\n            sel = collection >= c\n            xout[sel, :] = car(x=x[sel, :], collection=None, operator=operator, **kwargs)\n")],
      ("D1",), ""),
    V("twin-groups-split-sorted", "twin", VO, [(
        "        for c in np.unique(collection):\n            sel = collection == c\n            xout[sel, :] = car(x=x[sel, :], collection=None, operator=operator, **kwargs)\n",
        "        order = np.argsort(collection, kind=\"stable\")\n        _, first = np.unique(collection[order], return_index=True)\n        for sel in np.split(order, first[1:]):\n            xout[sel, :] = car(x=x[sel, :], collection=None, operator=operator, **kwargs)\n")],
      (), "argsort + split at the group starts of the sorted vector"),
    V("twin-groups-split-counts", "twin", VO, [(
        "        for c in np.unique(collection):\n            sel = collection == c\n            xout[sel, :] = car(x=x[sel, :], collection=None, operator=operator, **kwargs)\n",
        "        order = np.argsort(collection, kind=\"stable\")\n        _, counts = np.unique(collection, return_counts=True)\n        for sel in np.split(order, np.cumsum(counts)[:-1]):\n            xout[sel, :] = car(x=x[sel, :], collection=None, operator=operator, **kwargs)\n")],
      (), "cut points from cumulative counts"),
    V("twin-groups-flatnonzero", "twin", VO, [(
        "        for c in np.unique(collection):\n            sel = collection == c\n            xout[sel, :] = car(x=x[sel, :], collection=None, operator=operator, **kwargs)\n",
        "        for c in np.unique(collection):\n            sel = np.flatnonzero(collection == c)\n            xout[sel, :] = car(x=x[sel, :], collection=None, operator=operator, **kwargs)\n")],
      (), ""),
    V("car-operator-dropped", "fire", VO, [("car(x=x[sel, :], collection=None, operator=operator, **kwargs)", "car(x=x[sel, :], collection=None, **kwargs)")], ("D1",), "regression of F5"),
    V("kfilt-lagc-dropped", "fire", VO, [("                collection=None,\n                lagc=lagc,\n                butter_kwargs=butter_kwargs,\n", "                collection=None,\n                butter_kwargs=butter_kwargs,\n")], ("D1",), "regression of F5"),
    V("fk-btype-dropped", "fire", VO, [("                ntr_pad=ntr_pad,\n                btype=btype,\n", "                ntr_pad=ntr_pad,\n")], ("D1",), "regression of F5"),
    V("fk-si-literal", "fire", VO, [("                x[sel, :],\n                si=si,\n", "                x[sel, :],\n                si=0.002,\n")], ("D1",), "default value pinned instead of the caller's"),
    V("car-scatter-other-rows", "fire", VO, [("            xout[sel, :] = car(x=x[sel, :], collection=None, operator=operator, **kwargs)\n", "            xout[sel, :] = car(x=x[~sel, :], collection=None, operator=operator, **kwargs)\n")], ("D1",), ""),
    V("destripe-negative-shift", "fire", VO, [("        x = fourier.fshift(x, h[\"sample_shift\"], axis=1)\n", "        x = fourier.fshift(x, -h[\"sample_shift\"], axis=1)\n")], ("D2",), "skew doubled instead of removed; constant-valued test data cannot tell"),
    V("destripe-shift-after-spatial", "fire", VO, [(
        "    if neuropixel_version is not None:\n        x = fourier.fshift(x, h[\"sample_shift\"], axis=1)\n    # apply spatial filter only on channels that are inside of the brain\n    if (channel_labels is not None) and (channel_labels is not False):\n        x = interpolate_bad_channels(x, channel_labels, h[\"x\"], h[\"y\"])\n        inside_brain = np.where(channel_labels != 3)[0]\n        x[inside_brain, :] = spatial_fcn(x[inside_brain, :])  # apply the k-filter\n    else:\n        x = spatial_fcn(x)\n",
        "    # apply spatial filter only on channels that are inside of the brain\n    if (channel_labels is not None) and (channel_labels is not False):\n        x = interpolate_bad_channels(x, channel_labels, h[\"x\"], h[\"y\"])\n        inside_brain = np.where(channel_labels != 3)[0]\n        x[inside_brain, :] = spatial_fcn(x[inside_brain, :])  # apply the k-filter\n    else:\n        x = spatial_fcn(x)\n    if neuropixel_version is not None:\n        x = fourier.fshift(x, h[\"sample_shift\"], axis=1)\n")],
      ("D2",), ""),
    V("batch-last-branch-no-shift", "fire", VO, [("                chunk = fourier.fshift(chunk, s=h[\"sample_shift\"])\n                ind2save[1] = NBATCH\n", "                ind2save[1] = NBATCH\n")], ("D2",), "only the last batch of a file loses the re-alignment"),
    V("dephas-sign", "fire", VO, [("        1j * np.angle(fft_object(dephas)) * h[\"sample_shift\"][:, np.newaxis]\n", "        -1j * np.angle(fft_object(dephas)) * h[\"sample_shift\"][:, np.newaxis]\n")], ("D2",), "stencil path shifts the other way than fshift"),
    V("spatial-on-all-rows", "fire", VO, [("        x[inside_brain, :] = spatial_fcn(x[inside_brain, :])  # apply the k-filter\n", "        x[inside_brain, :] = spatial_fcn(x)[inside_brain, :]  # apply the k-filter\n")], ("D3",), "outside-brain channels feed the filter"),
    V("inside-brain-label-2", "fire", VO, [("        inside_brain = np.where(channel_labels != 3)[0]\n        x[inside_brain, :] = spatial_fcn(x[inside_brain, :])  # apply the k-filter\n", "        inside_brain = np.where(channel_labels != 2)[0]\n        x[inside_brain, :] = spatial_fcn(x[inside_brain, :])  # apply the k-filter\n")], ("D3",), ""),
    V("car-axis-1", "fire", VO, [("        x = x - np.median(x, axis=0)\n", "        x = x - np.median(x, axis=1)[:, np.newaxis]\n")], ("D4",), ""),
    V("car-average-is-median", "fire", VO, [("        x = x - np.mean(x, axis=0)\n", "        x = x - np.median(x, axis=0)\n")], ("D4",), ""),
    V("agc-gain-rescaled", "fire", VO, [("    return x, gain\n\n\ndef fk(", "    gain = gain / gp.max(gain)\n    return x, gain\n\n\ndef fk(")], ("D5",), ""),
    V("kfilt-forgets-gain", "fire", VO, [("        xf = xf[ntr_pad:-ntr_pad, :]\n    return xf * gain\n\n\ndef saturation", "        xf = xf[ntr_pad:-ntr_pad, :]\n    return xf\n\n\ndef saturation")], ("D5",), ""),
    V("twin-positional-forwarding", "twin", VO, [("car(x=x[sel, :], collection=None, operator=operator, **kwargs)", "car(x[sel, :], None, operator, **kwargs)")], (), ""),
]

# ------------------------------------------------------------------------------------------------ C13
VARIANTS["C13"] = [
    V("last-chunk-end-not-set", "fire", WE, [("    s1_arr[-1] = sr.ns\n", "")], ("D3",), "the last chunk keeps s0 + chunksize: beyond ns here, but after any trimming of the grid the tail is uncovered"),
    V("margin-test-subtracts-on-unsigned", "fire", WE, [("    allowed_idx = (spike_samples > trough_offset) & (", "    allowed_idx = (spike_samples - trough_offset > 0) & (")], ("D6",),
      "same test for signed times; wraps for uint64 spike times in the first samples"),
    V("twin-margin-test-signed-cast", "twin", WE, [("    allowed_idx = (spike_samples > trough_offset) & (", "    allowed_idx = (spike_samples.astype(np.int64) - trough_offset > 0) & (")], (), ""),
    V("window-not-forwarded", "fire", WE, [(
        "        snip, df, channel_neighbors, trough_offset=trough_offset,\n        spike_length_samples=spike_length_samples, add_nan_trace=True\n", "        snip, df, channel_neighbors, add_nan_trace=True\n")], ("D1",), "regression of F8a"),
    V("table-args-swapped", "fire", WE, [(
        "        max_wf,\n        trough_offset,\n        spike_length_samples,\n        seed,\n    )", "        max_wf,\n        spike_length_samples,\n        trough_offset,\n        seed,\n    )")], ("D1",),
      "positional swap; only non-default windows differ... they always differ, but the margins are symmetric enough for the test file"),
    V("nan-trace-not-added", "fire", WE, [("spike_length_samples=spike_length_samples, add_nan_trace=True\n", "spike_length_samples=spike_length_samples\n")], ("D1",), ""),
    V("zero-padding", "fire", WE, [("    unit_wf_idx = np.full((nu, max_wf), -1, int)\n", "    unit_wf_idx = np.zeros((nu, max_wf), int)\n"), (
        "    wf_idx = wf_idx[wf_idx >= 0]\n", "    wf_idx = wf_idx[np.nonzero(wf_idx)[0][0]:]\n")], ("D2",), "regression of F8b"),
    V("trim-gt-zero", "fire", WE, [("    wf_idx = wf_idx[wf_idx >= 0]\n", "    wf_idx = wf_idx[wf_idx > 0]\n")], ("D2",), "spike index 0 dropped again"),
    V("offset-sign", "fire", WE, [("    sample = wf_flat[\"sample\"].astype(int) + offset - i_chunk * chunksize_samples\n", "    sample = wf_flat[\"sample\"].astype(int) - offset - i_chunk * chunksize_samples\n")], ("D3",), ""),
    V("left-margin-short", "fire", WE, [("    else:\n        offset = trough_offset\n", "    else:\n        offset = trough_offset // 2\n")], ("D3",),
      "consistent local index, but a spike at a chunk start has no room for its pre-peak samples (negative index wraps)"),
    V("right-margin-short", "fire", WE, [("        s0 - offset:s1 + spike_length_samples - trough_offset, :-my_sr.nsync\n", "        s0 - offset:s1 + trough_offset, :-my_sr.nsync\n")], ("D3",), ""),
    V("rows-from-index-col", "fire", WE, [("    iw = wf_flat['waveform_index'].values\n", "    iw = wf_flat['index'].values\n")], ("D4",), "chronological instead of cluster-grouped rows"),
    V("argsort-unstable", "fire", WE, [("    index_order_clusters = np.argsort(cluster_index, kind='stable')\n", "    index_order_clusters = np.argsort(cluster_index)\n")], ("D4",), ""),
    V("sind-plus-trough", "fire", WE, [("        np.arange(spike_length_samples) - trough_offset\n", "        np.arange(spike_length_samples) + trough_offset\n")], ("D5",), ""),
    V("gather-wrong-row", "fire", WE, [("        wfs[i, :, :] = arr[:, sind[i]][cind[i], :]\n", "        wfs[i, :, :] = arr[:, sind[i]][cind[0], :]\n")], ("D5",), ""),
    V("pad-val-last-channel", "fire", UT, [("    if pad_val is None:\n        pad_val = nc\n", "    if pad_val is None:\n        pad_val = nc - 1\n")], ("D5",), "edge channels get the last real channel instead of NaN"),
    V("allowed-non-strict", "fire", WE, [("    allowed_idx = (spike_samples > trough_offset) & (", "    allowed_idx = (spike_samples >= trough_offset) & (")], ("D6",), ""),
    V("choice-with-replacement", "fire", WE, [("rng.choice(u_spikeidx, min(max_wf, nspikes), replace=False)", "rng.choice(u_spikeidx, min(max_wf, nspikes))")], ("D6",), "duplicate waveforms for small units"),
    V("twin-keyword-table-call", "twin", WE, [(
        "        max_wf,\n        trough_offset,\n        spike_length_samples,\n        seed,\n    )", "        max_wf=max_wf,\n        trough_offset=trough_offset,\n        spike_length_samples=spike_length_samples,\n        seed=seed,\n    )")], (), ""),
    V("twin-trim-neq", "twin", WE, [("    wf_idx = wf_idx[wf_idx >= 0]\n", "    wf_idx = wf_idx[wf_idx != -1]\n")], (), ""),
    V("template-plain-median", "fire", "src/ibldsp/waveform_extraction.py", [("        wfs_templates[i] = np.nanmedian(wfs[rec.first_index:rec.last_index + 1], axis=0)\n", "        wfs_templates[i] = np.median(wfs[rec.first_index:rec.last_index + 1], axis=0)\n")], ("D7",),
      "only for a unit near a probe end whose spikes do not share one peak channel: NaN padding of one waveform poisons the template row"),
    V("template-last-row-excluded", "fire", "src/ibldsp/waveform_extraction.py", [("        wfs_templates[i] = np.nanmedian(wfs[rec.first_index:rec.last_index + 1], axis=0)\n", "        wfs_templates[i] = np.nanmedian(wfs[rec.first_index:rec.last_index], axis=0)\n")], ("D7",),
      "the unit's last waveform is left out of its template"),
    V("template-axis-1", "fire", "src/ibldsp/waveform_extraction.py", [("        wfs_templates[i] = np.nanmedian(wfs[rec.first_index:rec.last_index + 1], axis=0)\n", "        wfs_templates[i] = np.nanmedian(wfs[rec.first_index:rec.last_index + 1], axis=1)\n")], ("D7",), ""),
    V("twin-template-rows-named", "twin", "src/ibldsp/waveform_extraction.py", [("        wfs_templates[i] = np.nanmedian(wfs[rec.first_index:rec.last_index + 1], axis=0)\n", "        unit_wfs = wfs[rec.first_index:rec.last_index + 1]\n        wfs_templates[i] = np.nanmedian(unit_wfs, axis=0)\n")], (), ""),
]

# ------------------------------------------------------------------------------------------------ C14
VARIANTS["C14"] = [
    V("twin-onehot-int8-cumsum", "twin", WF, [("    arr_mask = np.cumsum(arr_mask, axis=1)\n", "    arr_mask = np.cumsum(arr_mask, axis=1, dtype=np.int8)\n")], (), "running count of a one-hot mask never exceeds 1"),
    V("int8-count-of-unbounded-mask", "fire", WF, [("    indx_post = np.argmax(arr_post > 0, axis=1)\n", "    indx_post = np.argmax(np.cumsum(arr_post > 0, axis=1, dtype=np.int8) == 1, axis=1)\n")], ("D6",),
      "first crossing found through an 8-bit running count: wraps for long windows"),
    V("clamp-gt", "fire", WF, [("    idx_over = np.where(idx_all >= arr_peak.shape[1])[0]\n", "    idx_over = np.where(idx_all > arr_peak.shape[1])[0]\n")], ("D1",), "regression of F9"),
    V("clamp-to-length", "fire", WF, [("        idx_all[idx_over] = arr_peak.shape[1] - 1  # Take", "        idx_all[idx_over] = arr_peak.shape[1]  # Take")], ("D1",), ""),
    V("argmax-no-axis", "fire", WF, [("    indx_trace = np.argmax(max_vals, axis=1)\n", "    indx_trace = np.argmax(max_vals)\n")], ("D2",), "identical for a batch of one waveform"),
    V("max-over-batch", "fire", WF, [("    max_vals = np.max(np.abs(arr_in[:, :]), axis=1)\n", "    max_vals = np.max(np.abs(arr_in[:, :]), axis=1) / np.max(np.abs(arr_in))\n")], ("D2",), "normalised by the batch maximum"),
    V("noise-floor-compare", "fire", WF, [("    indx_post = np.argmax(arr_post > 0, axis=1)\n", "    indx_post = np.argmax(arr_post > 1e-6, axis=1)\n")], ("D3",), "absolute threshold: indices move when the waveform is rescaled"),
    V("offset-amplitude", "fire", WF, [("    arr_sub = arr_peak - half_max_rep\n", "    arr_sub = arr_peak - half_max_rep + 1e-9\n")], ("D3",), ""),
    V("tip-on-post", "fire", WF, [("    indx_tip = np.nanargmax(arr_pre, axis=1)\n", "    indx_tip = np.nanargmax(arr_post, axis=1)\n")], ("D4",), ""),
    V("masks-swapped", "fire", WF, [("    indx_prepeak = np.where(arr_mask == 0)\n    indx_postpeak = np.where(arr_mask == 1)\n", "    indx_prepeak = np.where(arr_mask == 1)\n    indx_postpeak = np.where(arr_mask == 0)\n")], ("D4",), ""),
    V("val-peak-axes-swapped", "fire", WF, [("    val_peak = arr_in[np.arange(0, arr_in.shape[0], 1), indx_peak, indx_trace]\n", "    val_peak = arr_in[np.arange(0, arr_in.shape[0], 1), indx_trace, indx_peak]\n")], ("D5",), ""),
    V("swap-threshold", "fire", WF, [("(df[\"peak_to_trough_ratio\"] <= 1.5)", "(df[\"peak_to_trough_ratio\"] <= 2.5)")], ("D5",), ""),
    V("post-array-excludes-peak", "fire", WF, [("    indx_postpeak = np.where(arr_mask == 1)\n", "    indx_postpeak = np.where(arr_mask >= 1)\n"), (
        "    arr_mask = np.cumsum(arr_mask, axis=1)\n", "    arr_mask = np.cumsum(arr_mask, axis=1)\n    arr_mask[np.arange(0, arr_mask.shape[0], 1), indx_peak] = 2\n"), (
        "    indx_prepeak = np.where(arr_mask == 0)\n", "    indx_prepeak = np.where(arr_mask != 1)\n")], ("D4",), "peak sample kept in neither array"),
    V("twin-argmax-nan-to-num", "twin", WF, [("    indx_trough = np.nanargmax(arr_post, axis=1)\n", "    indx_trough = np.argmax(np.nan_to_num(arr_post, nan=-np.inf), axis=1)\n")], (), "same maximum when every row has a finite value (the post array always holds the peak)"),
    V("twin-minimum-clamp", "twin", WF, [(
        "    idx_over = np.where(idx_all >= arr_peak.shape[1])[0]\n    if len(idx_over) > 0:\n        # Todo should this raise a warning ?\n        idx_all[idx_over] = arr_peak.shape[1] - 1  # Take the last value of the waveform\n",
        "    idx_all = np.minimum(idx_all, arr_peak.shape[1] - 1)\n")], (), ""),
    V("twin-clamp-gt-minus-one", "twin", WF, [("    idx_over = np.where(idx_all >= arr_peak.shape[1])[0]\n", "    idx_over = np.where(idx_all > arr_peak.shape[1] - 1)[0]\n")], (), ""),
]

VARIANTS["C14"] += [
    V("caller-labels-with-label-writeback", "fire", WF, [("def find_peak(arr_in):\n", "def find_peak(arr_in, index=None):\n"),
                                                          ("    df = pd.DataFrame()\n    df[\"peak_trace_idx\"]", "    df = pd.DataFrame(index=index)\n    df[\"peak_trace_idx\"]")], ("D7",),
      "non-unique caller labels + df.loc write-back: sibling rows are overwritten"),
]

# ------------------------------------------------------------------------------------------------ C06
VARIANTS["C06"] = [
    V("stride-one-taper", "fire", VO, [("            first_s += NBATCH - SAMPLES_TAPER * 2\n", "            first_s += NBATCH - SAMPLES_TAPER\n")], ("D1",), "1024 samples lost at each seam"),
    V("init-stride-mismatch", "fire", VO, [("        first_s = (NBATCH - SAMPLES_TAPER * 2) * n_batch\n", "        first_s = NBATCH * n_batch\n")], ("D1",), "workers > 0 start off the grid"),
    V("seek-without-taper", "fire", VO, [("            fid.seek(offset + ((first_s + SAMPLES_TAPER) * nc_out * nbytes))\n", "            fid.seek(offset + (first_s * nc_out * nbytes))\n")], ("D1",),
      "only with more than one worker: their output lands 1024 samples early"),
    V("seek-nc-wrong", "fire", VO, [("            fid.seek(offset + ((first_s + SAMPLES_TAPER) * nc_out * nbytes))\n", "            fid.seek(offset + ((first_s + SAMPLES_TAPER) * ncv * nbytes))\n")], ("D1",), ""),
    V("kept-range-short", "fire", VO, [("            ind2save = [SAMPLES_TAPER, NBATCH - SAMPLES_TAPER]\n", "            ind2save = [SAMPLES_TAPER, NBATCH - SAMPLES_TAPER - 1]\n")], ("D1",), ""),
    V("last-batch-not-extended", "fire", VO, [("                chunk = fourier.fshift(chunk, s=h[\"sample_shift\"])\n                ind2save[1] = NBATCH\n", "                chunk = fourier.fshift(chunk, s=h[\"sample_shift\"])\n")], ("D1",), ""),
    V("n-batch-divisor-stride", "fire", VO, [("        n_batch = int(np.ceil(i_chunk * CHUNK_SIZE / NBATCH))\n", "        n_batch = int(np.ceil(i_chunk * CHUNK_SIZE / (NBATCH - SAMPLES_TAPER * 2)))\n")], ("D1",),
      "a batch between two workers can be skipped (needs a particular length / worker count)"),
    V("stop-strict", "fire", VO, [("            if last_s >= max_s:\n", "            if last_s > max_s + NBATCH:\n")], ("D1",), ""),
    V("nbytes-literal", "fire", VO, [("    nbytes = dtype(1).nbytes\n", "    nbytes = 2\n")], ("D1",), "float32 output seeks with int16 item size"),
    V("mute-after-sync", "fire", VO, [(
        "            chunk = chunk * mute_saturation[np.newaxis, :]\n            chunk = np.r_[chunk, _sr[first_s:last_s, ncv:].T].T\n",
        "            chunk = np.r_[chunk, _sr[first_s:last_s, ncv:].T].T\n            chunk = chunk * mute_saturation[:, np.newaxis]\n")], ("D2",), "regression of F6"),
    V("whiten-all-columns", "fire", VO, [("                chunk[:, :ncv] = np.dot(chunk[:, :ncv], wrot)\n", "                chunk = np.dot(chunk, np.pad(wrot, ((0, chunk.shape[1] - ncv), (0, chunk.shape[1] - ncv))))\n")], ("D2",), ""),
    V("sync-rows-shifted", "fire", VO, [("chunk = np.r_[chunk, _sr[first_s:last_s, ncv:].T].T", "chunk = np.r_[chunk, _sr[first_s + 1:last_s + 1, ncv:].T].T")], ("D2", "D1"), ""),
    V("saturation-bounds", "fire", VO, [("                _saturation[first_s:last_s] = saturated_samples\n", "                _saturation[first_s + SAMPLES_TAPER:last_s] = saturated_samples[SAMPLES_TAPER:]\n")], ("D3",), ""),
    V("saturation-file-loaded-unconditionally", "fire", VO, [("        _saturation = np.load(file_saturation, mmap_mode=\"r+\") if compute_rms else None\n", "        _saturation = np.load(file_saturation, mmap_mode=\"r+\")\n")], ("D5",),
      "regression of F14: only with compute_rms=False - NameError on a free variable bound under `if compute_rms:`"),
    V("saturation-written-unconditionally", "fire", VO, [("            if compute_rms:\n                _saturation[first_s:last_s] = saturated_samples\n", "            _saturation[first_s:last_s] = saturated_samples\n")], ("D5",),
      "only with compute_rms=False: the memmap is None"),
    V("rms-offset-bound-only-when-appending", "fire", VO, [("        else:\n            rms_offset = 0\n            time_offset = 0\n            t0 = 0\n", "        else:\n            time_offset = 0\n            t0 = 0\n")], ("D5",),
      "only in a fresh (non-append) run: rms_offset unbound in the worker"),
    V("late-worker-guard-removed", "fire", VO, [("        if first_s > 0 and first_s + SAMPLES_TAPER * 2 >= _sr.ns:\n            # the batch before this one already reaches the end of the recording: nothing is left for this worker\n            return\n", "")], ("D1",),
      "regression of F15: short recordings / many workers - an extra batch for some worker counts"),
    V("late-worker-guard-one-taper", "fire", VO, [("        if first_s > 0 and first_s + SAMPLES_TAPER * 2 >= _sr.ns:\n", "        if first_s > 0 and first_s + SAMPLES_TAPER >= _sr.ns:\n")], ("D1",), "starts between ns - 2*TAPER and ns - TAPER still add a batch"),
    V("late-worker-guard-first-worker-too", "fire", VO, [("        if first_s > 0 and first_s + SAMPLES_TAPER * 2 >= _sr.ns:\n", "        if first_s + SAMPLES_TAPER * 2 >= _sr.ns:\n")], ("D1",),
      "a recording shorter than two taper margins is not written at all (worker 0 returns)"),
    V("twin-late-worker-guard-flipped", "twin", VO, [("        if first_s > 0 and first_s + SAMPLES_TAPER * 2 >= _sr.ns:\n", "        if i_chunk > 0 and _sr.ns - first_s <= 2 * SAMPLES_TAPER:\n")], (), ""),
    V("nbatch-guard-removed", "fire", VO, [("    if NBATCH <= 2 * SAMPLES_TAPER:\n        raise ValueError(f\"nbatch must be larger than the two taper margins ({2 * SAMPLES_TAPER} samples), got {NBATCH}\")\n", "")], ("D6",),
      "regression of F13: only with nbatch <= 2048 - the batch loop never ends"),
    V("nbatch-guard-admits-zero-stride", "fire", VO, [("    if NBATCH <= 2 * SAMPLES_TAPER:\n", "    if NBATCH < 2 * SAMPLES_TAPER:\n")], ("D6",), "nbatch == 2048 exactly: stride 0"),
    V("nbatch-guard-one-taper", "fire", VO, [("    if NBATCH <= 2 * SAMPLES_TAPER:\n", "    if NBATCH <= SAMPLES_TAPER:\n")], ("D6",), "1024 < nbatch <= 2048 still loops forever"),
    V("twin-nbatch-guard-assert", "twin", VO, [("    if NBATCH <= 2 * SAMPLES_TAPER:\n        raise ValueError(f\"nbatch must be larger than the two taper margins ({2 * SAMPLES_TAPER} samples), got {NBATCH}\")\n", "    assert NBATCH - 2 * SAMPLES_TAPER >= 1, \"nbatch too small\"\n")], (), ""),
    V("twin-nbatch-guard-flipped", "twin", VO, [("    if NBATCH <= 2 * SAMPLES_TAPER:\n", "    if not (2 * SAMPLES_TAPER < NBATCH):\n")], (), ""),
    V("twin-saturation-guard-in-worker-branch", "twin", VO, [("        _saturation = np.load(file_saturation, mmap_mode=\"r+\") if compute_rms else None\n", "        _saturation = None\n        if compute_rms:\n            _saturation = np.load(file_saturation, mmap_mode=\"r+\")\n")], (), ""),
    V("range-one-less", "fire", VO, [("        delayed(my_function)(i, nprocesses) for i in range(nprocesses)\n", "        delayed(my_function)(i, nprocesses) for i in range(nprocesses - 1)\n")], ("D4",), ""),
    V("nchunk-wrong", "fire", VO, [("        delayed(my_function)(i, nprocesses) for i in range(nprocesses)\n", "        delayed(my_function)(i, nprocesses + 1) for i in range(nprocesses)\n")], ("D4",),
      "no worker believes it is the last: the tail after nprocesses*CHUNK_SIZE is never written"),
    V("append-truncates", "fire", VO, [("    else:\n        offset = 0\n        open(output_file, \"wb\").close()\n", "    else:\n        offset = 0\n    open(output_file, \"wb\").close()\n")], ("D4",), ""),
    V("last-batch-detected-by-length", "fire", VO, [("            if last_s == _sr.ns:\n                # for the last batch", "            if chunk.shape[1] < NBATCH:\n                # for the last batch")], ("D1",),
      "a last batch that is exactly NBATCH long is not recognised: the final 1024 samples are dropped when ns == NBATCH + k*stride"),
    V("twin-last-ge", "twin", VO, [("            if last_s == _sr.ns:\n                # for the last batch", "            if last_s >= _sr.ns:\n                # for the last batch")], (), ""),
    V("twin-stride-var", "twin", VO, [("            first_s += NBATCH - SAMPLES_TAPER * 2\n", "            step = NBATCH - 2 * SAMPLES_TAPER\n            first_s = first_s + step\n")], (), ""),
    V("twin-intnorm-inplace", "twin", VO, [("            chunk = chunk[slice(*ind2save), :] * intnorm\n", "            chunk = chunk[slice(*ind2save), :]\n            chunk = chunk * intnorm\n")], (), ""),
]

# ------------------------------------------------------------------------------------------------ C19
VARIANTS["C19"] = [
    V("pair-mask-drops-index-zero", "fire", UT, [("        return fcn_a2b, drift_ppm, np.where(ib >= 0)[0], ib[ib >= 0]\n", "        return fcn_a2b, drift_ppm, np.where(ib >= 0)[0], ib[ib > 0]\n")], ("D1",),
      "the match with event 0 of tsb is dropped from one vector only: every later pair is mis-aligned"),
    V("fit-unpaired", "fire", UT, [("        ab = np.polyfit(tsa[ib >= 0], tsb[ib[ib >= 0]] - tsa[ib >= 0], 1)\n", "        ab = np.polyfit(tsa[ib >= 0], tsb[ib >= 0] - tsa[ib >= 0], 1)\n")], ("D1",), "tsb indexed by the mask instead of the stored matches"),
    V("ib-init-zero", "fire", UT, [("    ib = np.zeros(tsa.shape, dtype=np.int32) - 1\n", "    ib = np.zeros(tsa.shape, dtype=np.int32)\n")], ("D1",), "every unmatched event reads as matched with event 0"),
    V("second-pass-row-not-blanked", "fire", UT, [("        dt[:, _a] = np.nan\n        dt[_b, :] = np.nan\n", "        dt[:, _a] = np.nan\n")], ("D2",), "an event of tsb can be matched twice"),
    V("second-pass-axes-swapped", "fire", UT, [("        _b, _a = np.unravel_index(np.nanargmin(dt), dt.shape)\n", "        _a, _b = np.unravel_index(np.nanargmin(dt), dt.shape)\n")], ("D2",), ""),
    V("second-pass-store-direct", "fire", UT, [("        ib[iamiss[_a]] = ibmiss[_b]\n", "        ib[iamiss[_a]] = _b\n")], ("D2",), "index into the unmatched list stored as an index into tsb"),
    V("linear-map-without-identity", "fire", UT, [("            fcn_a2b = lambda x: x * (1 + ab[0]) + ab[1]  # noqa\n", "            fcn_a2b = lambda x: x * ab[0] + ab[1]  # noqa\n")], ("D3",), "the fit is of the difference, the map forgets to add x"),
    V("drift-in-ppk", "fire", UT, [("        drift_ppm = ab[0] * 1e6\n", "        drift_ppm = ab[0] * 1e3\n")], ("D3",), ""),
    V("delta-added", "fire", UT, [("        dt = np.abs(tsa[m] - delta_t - tsb)\n", "        dt = np.abs(tsa[m] + delta_t - tsb)\n")], ("D3",), "coarse offset applied with the wrong sign"),
    V("twin-flatnonzero-pairs", "twin", UT, [("        return fcn_a2b, drift_ppm, np.where(ib >= 0)[0], ib[ib >= 0]\n", "        return fcn_a2b, drift_ppm, np.flatnonzero(ib >= 0), ib[ib >= 0]\n")], (), ""),
    V("twin-linear-map-expanded", "twin", UT, [("            fcn_a2b = lambda x: x * (1 + ab[0]) + ab[1]  # noqa\n", "            fcn_a2b = lambda x: x + ab[0] * x + ab[1]  # noqa\n")], (), ""),
]

# ------------------------------------------------------------------------------------------------ C20
VARIANTS["C20"] = [
    V("venn-chunks-overlap", "fire", "src/ibldsp/spiketrains.py", [("                *np.searchsorted(samples, [sample_offset, sample_offset + chunk_size])\n", "                *np.searchsorted(samples, [sample_offset, sample_offset + chunk_size + 1])\n")], ("D1",),
      "a spike on a chunk boundary is counted in two chunks"),
    V("venn-last-chunk-missing", "fire", "src/ibldsp/spiketrains.py", [("    num_chunks = int((max_samples // chunk_size) + 1)\n", "    num_chunks = int(np.ceil(max_samples / chunk_size))\n")], ("D1",), "a last spike exactly on a chunk boundary is never counted"),
    V("venn-right-side", "fire", "src/ibldsp/spiketrains.py", [("                *np.searchsorted(samples, [sample_offset, sample_offset + chunk_size])\n", "                *np.searchsorted(samples, [sample_offset, sample_offset + chunk_size], side=\"right\")\n")], ("D1",), "boundary spikes move to the earlier chunk and fall outside its histogram"),
    V("venn-no-rebase", "fire", "src/ibldsp/spiketrains.py", [("            samples[spike_indices[i]].astype(int) - sample_offset\n", "            samples[spike_indices[i]].astype(int)\n")], ("D1",), ""),
    V("stack-fold-from-sizes", "fire", VO, [("        hstack = fold\n", "        hstack = uinds\n")], ("D2",), ""),
    V("stack-axis-1", "fire", VO, [("        stack[sind, :] = fcn_agg(data[i2stack, :], axis=0)\n", "        stack[sind, :] = fcn_agg(data[i2stack, :], axis=1)\n")], ("D2",), ""),
    V("savgol-right-border-short", "fire", "src/ibldsp/smooth.py", [("    for i in range(len(x) - half_window, len(x), 1):\n", "    for i in range(len(x) - half_window + 1, len(x), 1):\n")], ("D3",), "one output sample stays NaN"),
    V("savgol-window-off-centre", "fire", "src/ibldsp/smooth.py", [("            t[j] = x[i + j - half_window] - x[i]\n", "            t[j] = x[i + j - half_window + 1] - x[i]\n")], ("D3",), ""),
    V("lp-crop-asymmetric", "fire", "src/ibldsp/smooth.py", [("    return ts_[lpad:-lpad]\n", "    return ts_[lpad:-lpad + 1]\n")], ("D4",), "one extra sample returned"),
    V("lp-pad-reflect", "fire", "src/ibldsp/smooth.py", [("    ts_ = np.pad(ts, lpad, mode=\"edge\")\n", "    ts_ = np.pad(ts, lpad, mode=\"reflect\")\n")], ("D4",), ""),
    V("twin-venn-bounds-named", "twin", "src/ibldsp/spiketrains.py", [("                *np.searchsorted(samples, [sample_offset, sample_offset + chunk_size])\n", "                *np.searchsorted(samples, [ch * chunk_size, (ch + 1) * chunk_size])\n")], (), ""),
    V("twin-lp-pad-tuple", "twin", "src/ibldsp/smooth.py", [("    ts_ = np.pad(ts, lpad, mode=\"edge\")\n", "    ts_ = np.pad(ts, (lpad, lpad), mode=\"edge\")\n")], (), ""),
]
