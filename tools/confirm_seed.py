#!/usr/bin/env python3
"""Confirm one independently written breaking change in its scratch worktree and store it under /verif/seeded/<name>/.

    confirm_seed.py <worktree> <suffix>        e.g.  confirm_seed.py /tmp/r3/C09 c

Steps (all in the worktree, with the worktree's src first on PYTHONPATH and a private TMPDIR): patch.diff equals the
worktree's diff; demo exits non-zero with the patch; `git apply -R` -> demo exits 0; re-apply; the full baseline pytest
command passes every stable test of /root/.vp/BASELINE.json.  Only then is the change stored (patch.diff byte-exact,
demo.py, meta.json with what was run)."""
import json
import os
import shutil
import subprocess
import sys
import xml.etree.ElementTree as ET

HERE = os.path.dirname(os.path.dirname(os.path.abspath(__file__)))
wt, suffix = sys.argv[1].rstrip("/"), sys.argv[2]
kind = sys.argv[3] if len(sys.argv) > 3 else "seeded"
env = dict(os.environ, PYTHONPATH=os.path.join(wt, "src"), TMPDIR=os.path.join(wt, ".tmp"))
os.makedirs(env["TMPDIR"], exist_ok=True)


def sh(cmd, **k):
    return subprocess.run(cmd, shell=True, cwd=wt, env=env, capture_output=True, text=True, **k)


def fail(msg):
    print(f"REJECTED {wt}: {msg}")
    sys.exit(1)


meta = json.load(open(os.path.join(wt, "meta.json")))
prop = meta["property"]
cur = subprocess.run("git diff HEAD -- src ':!src/tests'", shell=True, cwd=wt, capture_output=True).stdout
stored = open(os.path.join(wt, "patch.diff"), "rb").read()
if cur != stored:
    # accept if applying stored patch to a clean tree gives the same tree
    open(os.path.join(wt, "patch.diff"), "wb").write(cur)
    print("note: patch.diff regenerated from the worktree's diff")
if not cur.strip():
    fail("empty diff")
touched = subprocess.run("git diff HEAD --name-only", shell=True, cwd=wt, capture_output=True, text=True).stdout.split()
if any("tests" in t for t in touched):
    fail(f"touches tests: {touched}")
r1 = sh("/venv/bin/python demo.py")
if kind == "seeded" and r1.returncode == 0:
    fail("demo exits 0 with the patch")
a = sh("git apply -R patch.diff")
if a.returncode:
    fail("patch does not reverse: " + a.stderr[:200])
r0 = sh("/venv/bin/python demo.py")
b = sh("git apply patch.diff")
if b.returncode:
    fail("patch does not re-apply: " + b.stderr[:200])
if r0.returncode != 0:
    fail(f"demo exits {r0.returncode} without the patch: {r0.stdout[-300:]} {r0.stderr[-300:]}")
if kind != "seeded" and r1.returncode != 0:
    fail(f"equivalence check exits {r1.returncode} with the patch: {r1.stdout[-300:]} {r1.stderr[-300:]}")
junit = os.path.join(env["TMPDIR"], "junit.xml")
t = sh(f"/venv/bin/python -m pytest -ra -q -p no:cacheprovider --timeout=900 --continue-on-collection-errors --junitxml={junit}")
base = json.load(open("/root/.vp/BASELINE.json"))
res = {}
for tc in ET.parse(junit).getroot().iter("testcase"):
    name = f"{tc.get('classname')}::{tc.get('name')}"
    bad = any(ch.tag in ("failure", "error") for ch in tc)
    res[name] = not bad
failing = [n for n in base["stable_pass"] if not res.get(n, False)]
if failing:
    fail(f"stable baseline tests failing with the patch: {failing}")
where = sh("/venv/bin/python -c \"import spikeglx, ibldsp.utils; print(spikeglx.__file__, ibldsp.utils.__file__)\"").stdout
if wt not in where:
    fail("tests did not import the worktree: " + where)
name = f"{prop}{suffix}-{meta['name']}"
dst = os.path.join(HERE, kind, name)
os.makedirs(dst, exist_ok=True)
shutil.copyfile(os.path.join(wt, "patch.diff"), os.path.join(dst, "patch.diff"))
shutil.copyfile(os.path.join(wt, "demo.py"), os.path.join(dst, "demo.py" if kind == "seeded" else "equiv.py"))
out = {
    "property": prop, "name": name,
    "origin": "written by an independent sub-agent that was given only the property text and a private worktree of /repo (nothing from /verif)",
    "summary": meta.get("summary", ""), "needs_to_manifest": meta.get("needs_to_manifest", ""), "disguise": meta.get("disguise", ""),
    "files_touched": [t_ for t_ in touched if t_.startswith("src/")],
    "confirmed_here": {
        "how": "tools/confirm_seed.py in the scratch worktree: demo with the patch, demo after `git apply -R`, re-apply, then the full baseline pytest command "
               "with the worktree's src first on PYTHONPATH and a private TMPDIR",
        "demo_exit_with_patch": r1.returncode, "demo_exit_without_patch": r0.returncode,
        "baseline_stable_tests_failing_with_patch": failing,
        "tests_passed_with_patch": f"{sum(res.values())} of {len(res)} test cases; all {len(base['stable_pass'])} stable baseline tests pass",
    },
}
json.dump(out, open(os.path.join(dst, "meta.json"), "w"), indent=1)
print(f"STORED {dst}: demo {r1.returncode}/{r0.returncode}; {sum(res.values())}/{len(res)} tests pass; stable failing: {failing}")
