#!/usr/bin/env python3
"""Regenerate MANIFEST.json from the rule modules that exist (keeps the manifest valid while checks are added)."""
import importlib
import json
import os
import sys

HERE = os.path.dirname(os.path.dirname(os.path.abspath(__file__)))
sys.path.insert(0, HERE)
sys.dont_write_bytecode = True

TECH = {
    "C01": "def-use + call-binding + CFG exhaustiveness over Reader.read/__init__/__getitem__",
    "C02": "CFG dominance / ordering of producer-publish-unlink, dead-store dataflow, who-may-delete table",
    "C03": "polynomial tiling identity of the window writer, rounding-provenance dataflow, sibling scatter agreement, key symmetry",
    "C04": "CFG dominance of deletion by verification, typestate of check_completed, guard tables, unlink tolerance",
    "C05": "call-binding forwarding completeness, ordering (shift before spatial filter), sign normal form, sibling agreement",
    "C06": "polynomial tiling/seek identities of the batch writer, taint dataflow of sync columns, fan-out binding",
    "C07": "alias/mutation dataflow, transform-length rule, phase-sign normal form in fshift",
    "C08": "joint-permutation shape + ordering, lexsort key model, rational grid-inverse identity, generation table exhaustiveness",
    "C09": "sibling agreement of ap/lf gain formulas (normal forms), reader/writer token agreement, value tables",
    "C10": "symbolic bit-layout interpretation of split_sync (permutation), edge-index def-use in fronts/rises/falls",
    "C11": "rounding-provenance dataflow of the frame count, CFG ordering of metadata rewrite before memmap",
    "C12": "polynomial tiling identity in LF samples with divisibility facts, sibling decimation agreement, metadata def-use",
    "C13": "call-binding forwarding, padding-sentinel domain rule, offset normal forms, row-agreement def-use",
    "C14": "index-bound rule, axis-discipline scan, homogeneity-degree dataflow, tuple-slot agreement",
    "C15": "store-target def-use, CFG ordering of zeroing/threshold/normalisation",
    "C16": "comparator structure, backward slice of the mute gain, range rule, call-site column agreement",
    "C17": "polynomial transfer function of the window generator, partition identity, count formula, slice-bound rule",
    "C18": "transform-length rule, parity-split crop identities, filter algebra, half-spectrum length identities",
}

NA = {
    "C19": "clock synchronisation: every clause is a numerical tolerance over random event trains (recovered drift, ms accuracy, "
           "'nearly all' pairs); the only shape facts (both index vectors cut by the same mask, second pass blanks matched row/column) "
           "say nothing about whether a pair is a true correspondence - no sound static clause carries the property",
    "C20": "rank-reduction denoising, smoothers, Venn counting, stacking: identity at full rank, polynomial reproduction, constant "
           "preservation and count conservation are numerical facts about SVD / least squares / binning; the structural sub-clauses "
           "are far too weak to be necessary conditions of the behaviour",
}


def main():
    with open(os.path.join(HERE, "properties.jsonl")) as f:
        props = [json.loads(l) for l in f if l.strip()]
    checks = []
    na = []
    for p in props:
        pid = p["id"]
        path = os.path.join(HERE, "rules", f"{pid}.py")
        ready = False
        if os.path.exists(path):
            mod = importlib.import_module(f"rules.{pid}")
            ready = getattr(mod, "EXPLANATION", "stub") != "stub"
        if ready:
            checks.append({
                "property_id": pid,
                "quick_cmd": f"python3-vt /verif/check {pid} --tier quick",
                "thorough_cmd": f"python3-vt /verif/check {pid} --tier thorough",
                "evidence_file": f"/verif/evidence/{pid}.json",
                "replay_cmd_template": f"python3-vt /verif/check {pid} --replay {{path}}",
                "engine": "sa",
                "level_claimed": {
                    "category": "other",
                    "text": "Static analysis (ast-based dataflow / CFG dominance / call binding / algebraic normal forms) of /repo's current "
                            "source decides the structural clauses of this property listed in the evidence's explanation - necessary "
                            "conditions that hold for every input because they do not look at inputs. The runtime behaviour itself "
                            "(numerical values, bytes on disk) is not decided; that remainder is stated in the evidence.",
                    "design_ref": f"DESIGN.md section 4 ({pid})",
                },
                "level_note": "Trusted base: CPython ast; the third-party model table (numpy/scipy/mtscomp/pathlib/joblib semantics, sa/models.py); "
                              "the per-rule constant tables taken from the property statement. Nothing from /repo is imported or executed.",
                "technique": "static analysis: " + TECH[pid],
            })
        elif pid in NA:
            na.append({"property_id": pid, "reason": NA[pid]})
        else:
            na.append({"property_id": pid, "reason": "check under construction in this session (static rules designed in DESIGN.md section 4, not yet registered)"})
    man = {
        "version": 1,
        "setup_cmd": "python3-vt -c \"import sys; sys.path.insert(0, '/verif'); import sa.model, sa.cfg, sa.defuse, sa.algebra, sa.calls, sa.struct, sa.common, sa.report, sa.normalize, sa.guards, sa.roles, sa.role_table; assert len(sa.normalize.vocab().get('functions', [])) > 200; print('sa engine importable')\"",
        "hooks": {
            "guard": "IBL_NEUROPIXEL_VERIF",
            "enable": "none needed: the checks parse /repo's source and never build or run it; no hook commits exist",
            "baseline_off_cmd": "cd /repo && /venv/bin/python -m pytest -ra -q -p no:cacheprovider --timeout=900 --continue-on-collection-errors",
            "source_commits": [],
            "add_only": True,
        },
        "engines": [{
            "name": "sa",
            "path": "/verif/sa",
            "serves_properties": [c["property_id"] for c in checks],
            "kind_free_text": "repository-specific static analyser: source model + resolver (E0), statement CFG with dominators/guards (E1), "
                              "reaching definitions (E2), polynomial normal forms + symbolic executor (E3), call binding (E5), structural "
                              "agreement (E6), bit-layout interpreter (E7)",
        }],
        "checks": checks,
        "not_applicable": na,
        "notes": "Exit codes: 0 holds / 1 VIOLATION / 2 ANALYSIS-ERROR (anchor vanished or construct not understood; never a silent pass). "
                 "Twelve genuine defects found by the rules were repaired in /repo as 'fix:' commits and are recorded as fixed entries in "
                 "known_findings.json. Seeded breaking changes are under seeded/.",
    }
    with open(os.path.join(HERE, "MANIFEST.json"), "w") as f:
        json.dump(man, f, indent=1)
    print(f"{len(checks)} checks, {len(na)} not_applicable")


if __name__ == "__main__":
    main()
