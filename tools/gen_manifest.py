#!/usr/bin/env python3
"""Regenerate MANIFEST.json from the rule modules that exist (keeps the manifest valid while checks are added)."""
import importlib
import json
import os
import sys

HERE = os.path.dirname(os.path.dirname(os.path.abspath(__file__)))
sys.path.insert(0, HERE)
sys.dont_write_bytecode = True

TECH = {
    "C01": "def-use + call-binding + CFG exhaustiveness over Reader.read/__init__/__getitem__ (flow-sensitive raw-sample locals, backward slice of the returned voltages, index->slice conversion under an established consecutive run); conversion-vector layout by abstract interpretation (segment vectors over metadata counts); full-width fast-path rule (gains gathered, not scattered, with the channel order); interprocedural selector-helper rule (returned alternatives: selector / permuted selector / slice of a regular run, sign of the slice stop)",
    "C02": "CFG dominance / ordering of producer-publish-unlink with an interprocedural staging summary (a callee handed the final name must write under a provably different name and publish by rename), dead-store dataflow, who-may-delete table, modular (stride-grid) normal forms of piecewise raw reads; selector followed into helper methods and decompressed chunks (absolute origin of a chunk-local slice)",
    "C03": "polynomial tiling identity of the window writer, rounding-provenance dataflow, sibling scatter agreement, key symmetry, writer/parser agreement of the channel-subset string, split / group-by idiom models, window-state coherence (loop-carried dataflow), per-shank output-file model (entry keys, file effects, open modes: a file that is appended to must start empty); column algebra of gather / scatter forms (np.take gathers, gathered blocks with cumulative bounds, stack + inverse permutation)",
    "C04": "CFG dominance of deletion by verification, typestate over an abstract verification state (flag / pending set / None), guard entailment, unlink tolerance, file-effect model of the prepare step (truncate / create-keep / append) against the writer's open mode; persisted-verification protocol (a flag in the shank metas counts only if written after the verification loop and removed before the shank files are rewritten); run-wise verification model (run table = partition of its argument; coverage per shank; cut of the table)",
    "C05": "call-binding forwarding completeness, group-by idiom model for per-collection rows, ordering (shift before spatial filter), sign normal form, finite-domain label sets, sibling agreement, argument-aliasing rule (numpy view model) for the header's delay vector; shared-state analyses (hand-rolled caches, cache-key completeness); label-form model of grouped referencing (member-based references, positional-block reductions)",
    "C06": "batch schedule model (while or for-range form; grid start, stride, bound = max_s - 2*taper per worker, last-worker test against the fan-out's count) with polynomial tiling/seek identities (exact polynomial division), taint / view-provenance dataflow of sync columns, fan-out binding; batch-ownership schedule form (partition of batch indices); definite binding of the worker closure's free variables (symtable + path-condition entailment between read, launch and bindings); loop progress (stride positivity entailed by a dominating guard); first-batch-is-real clause (a worker starting in the last taper margins returns early) and start-ownership schedule design",
    "C07": "path-sensitive substitution model of the phase factor: layout calculus (which axis every factor varies along, per path and per multiplication target), impulse / analytic ramp normal forms on the substituted exponent, argument-aliasing rule (numpy view model), transform-length rule, rounding-kind agreement of a whole/fraction shift split; roll-only path needs an exact whole-shift guard; interprocedural evaluation of library helpers inside the analytic ramp",
    "C08": "joint-permutation shape + ordering (ADC attributes before any restriction), lexsort key model, rational grid-inverse identity, generation table exhaustiveness, closed-form delay normal form, site-locality rule (no reduction over the saved sites feeds a coordinate)",
    "C09": "conversion-vector layout by abstract interpretation (segment vectors with whole-table text columns and row selections ordered numerically vs lexicographically; all small count assignments), evaluated decision table of the max-int lookup with call-site guards, reader/writer token agreement, value tables; shared-state analyses (cached parses handed out as shallow copies, call-sensitive sharing); path forking on run-time predicates in the layout interpreter, uniform-gain claim and delimiter rule of its counting pattern",
    "C10": "symbolic bit-layout interpretation of split_sync (permutation), edge-index def-use and shape-unwrap rule in fronts/rises/falls, sync composition model (gathers of the raw file through locals and two-step indexing; digital / analog parts of read_sync and of read(sync=True)); guarded fast paths of split_sync (the guard must entail the dropped bits are zero); sample-domain threshold model (algebra of the detection level, integer-cast rounding rule, preallocated layout)",
    "C11": "rounding-provenance dataflow of the frame count (shaped and whole-file 1-D mappings, items = bytes // itemsize, exposed frames = prefix reshape), CFG ordering of metadata rewrite before a shape-dependent memmap, dependence of the rewrite's path condition on unrelated options (truth-table); shared mapping objects (key stores on a mapping a memoised function hands out)",
    "C12": "polynomial tiling identity in LF samples with divisibility facts, sibling decimation agreement, buffer-identity / disjoint-range analysis, window-state coherence, metadata def-use, shared-object dataflow through attributes bound to memoised results",
    "C13": "call-binding forwarding, padding-sentinel domain rule, offset normal forms, row-agreement def-use (block stores need an established consecutive run), linear normal form of the admissibility test, signedness rule, sorted-search grouping model; cover-end clause (last chunk ends at ns on every path to the fan-out); NaN-aware template reduction rule; block gather and closed chunk edges",
    "C14": "index-bound rule, axis-discipline scan with mask / label kinds (emptiness test of a boolean mask vs truth of row labels), homogeneity-degree dataflow, relation-set abstract evaluation of pre/post masks, narrow-accumulator rule; row addressing (label write-back only with unique labels)",
    "C15": "finite-domain (label-set) evaluation of row and donor selectors, CFG ordering of zeroing/threshold/normalisation for loop and matrix forms; shared-object dataflow through hand-rolled module-level caches; zero-divisor guard must wrap the normalising sum",
    "C16": "comparator structure (direct and block-accumulated) and value terms of straight-line numpy code with out= / in-place / view semantics (E14), backward slice of the mute gain, range rule, call-site column agreement, stale scratch-buffer dataflow; time-blocked scans (one-sample overlap between blocks for the slew test); scatter-subtract model of the mute gain (tap offset, two-sided bounds filter), fraction as count / channels",
    "C17": "closed forms of the window generator by solving its loop-carried recurrences over the iteration number (local cursor / counter / mirrored attribute), cursor-locality rule, partition identity, count formula, interval-event model of the splicing amplitudes evaluated per window class; array-form generator model (precomputed bounds table, row count compared on a parameter box); two-vector array form of the window table",
    "C19": "(partial) pairing discipline of the matched-index vectors (one mask), one-to-one second assignment pass (axis order, both row and column blanked), normal form of the reported linear map / drift / coarse offset; name-free rasters (flow-sensitive), identity fast-path model (acceptance must bound every pair); selector-freshness typestate (a named selector of the matched events vs later stores into the match vector), helper parameters bound at call sites",
    "C20": "(partial) chunk tiling identity of the Venn counter (searchsorted bounds, chunk count, re-basing), group / fold agreement in stack, index-range partition of the Savitzky-Golay loops, pad / crop identity of the frequency-domain smoother; chunk index range (first to last spike's chunk) by evaluation; partially-filled re-used buffer rule, vector-form coverage model of the smoother",
    "C18": "transform-length rule, parity-split crop / take / arange identities (end-relative and absolute 'same' crops), un-padding bound versus transform length, fast-size table or enumeration model (one candidate per power of three, loop bound), filter algebra, half-spectrum length identities; shared-state rule for cached responses; band-pass identity on value terms; window-aware no-wrap condition evaluated on a box of lengths, module-level tables",
}

NA = {
    "C19": "clock synchronisation: every clause is a numerical tolerance over random event trains (recovered drift, ms accuracy, "
           "'nearly all' pairs); the only shape facts (both index vectors cut by the same mask, second pass blanks matched row/column) "
           "say nothing about whether a pair is a true correspondence - no sound static clause carries the property",
    "C20": "rank-reduction denoising, smoothers, Venn counting, stacking: identity at full rank, polynomial reproduction, constant "
           "preservation and count conservation are numerical facts about SVD / least squares / binning; the structural sub-clauses "
           "are far too weak to be necessary conditions of the behaviour",
}


def main():
    with open(os.path.join(HERE, "properties.jsonl")) as f:
        props = [json.loads(l) for l in f if l.strip()]
    checks = []
    na = []
    for p in props:
        pid = p["id"]
        path = os.path.join(HERE, "rules", f"{pid}.py")
        ready = False
        if os.path.exists(path):
            mod = importlib.import_module(f"rules.{pid}")
            ready = getattr(mod, "EXPLANATION", "stub") != "stub"
        if ready:
            checks.append({
                "property_id": pid,
                "quick_cmd": f"python3-vt /verif/check {pid} --tier quick",
                "thorough_cmd": f"python3-vt /verif/check {pid} --tier thorough",
                "evidence_file": f"/verif/evidence/{pid}.json",
                "replay_cmd_template": f"python3-vt /verif/check {pid} --replay {{path}}",
                "engine": "sa",
                "level_claimed": {
                    "category": "other",
                    "text": "Static analysis (ast-based dataflow / CFG dominance / call binding / algebraic normal forms) of /repo's current "
                            "source decides the structural clauses of this property listed in the evidence's explanation - necessary "
                            "conditions that hold for every input because they do not look at inputs. The runtime behaviour itself "
                            "(numerical values, bytes on disk) is not decided; that remainder is stated in the evidence.",
                    "design_ref": f"DESIGN.md section 4 ({pid})",
                },
                "level_note": "Trusted base: CPython ast; the third-party model table (numpy/scipy/mtscomp/pathlib/joblib semantics, sa/models.py); "
                              "the per-rule constant tables taken from the property statement. Nothing from /repo is imported or executed.",
                "technique": "static analysis: " + TECH[pid],
            })
        elif pid in NA:
            na.append({"property_id": pid, "reason": NA[pid]})
        else:
            na.append({"property_id": pid, "reason": "check under construction in this session (static rules designed in DESIGN.md section 4, not yet registered)"})
    man = {
        "version": 1,
        "setup_cmd": "python3-vt -c \"import sys; sys.path.insert(0, '/verif'); import sa.model, sa.cfg, sa.defuse, sa.algebra, sa.calls, sa.struct, sa.common, sa.report, sa.normalize, sa.guards, sa.roles, sa.role_table, sa.regions, sa.segvec, sa.shape, sa.arrterm, sa.closure, sa.layout; assert len(sa.normalize.vocab().get('functions', [])) > 200; print('sa engine importable')\"",
        "hooks": {
            "guard": "IBL_NEUROPIXEL_VERIF",
            "enable": "none needed: the checks parse /repo's source and never build or run it; no hook commits exist",
            "baseline_off_cmd": "cd /repo && /venv/bin/python -m pytest -ra -q -p no:cacheprovider --timeout=900 --continue-on-collection-errors",
            "source_commits": [],
            "add_only": True,
        },
        "engines": [{
            "name": "sa",
            "path": "/verif/sa",
            "serves_properties": [c["property_id"] for c in checks],
            "kind_free_text": "repository-specific static analyser: source model + resolver (E0), statement CFG with dominators/guards (E1), "
                              "reaching definitions (E2), polynomial normal forms + symbolic executor (E3), call binding (E5), structural "
                              "agreement (E6), bit-layout interpreter (E7), segment-vector model of conversion vectors (E9, sa/segvec.py), "
                              "interval-event model of assembled arrays (E13, sa/regions.py), value terms of straight-line numpy code with in-place semantics (E14, sa/arrterm.py), finite-domain / group-by / scratch-buffer / buffer-identity "
                              "analyses (sa/common.py), propositional guard entailment (sa/guards.py), normalisation towards the pinned vocabulary "
                              "(sa/normalize.py) and role resolution (sa/roles.py)",
        }],
        "checks": checks,
        "not_applicable": na,
        "notes": "Exit codes: 0 holds / 1 VIOLATION / 2 ANALYSIS-ERROR (anchor vanished or construct not understood; never a silent pass). "
                 "Twelve genuine defects found by the rules were repaired in /repo as 'fix:' commits and are recorded as fixed entries in "
                 "known_findings.json. Seeded breaking changes are under seeded/.",
    }
    with open(os.path.join(HERE, "MANIFEST.json"), "w") as f:
        json.dump(man, f, indent=1)
    print(f"{len(checks)} checks, {len(na)} not_applicable")


if __name__ == "__main__":
    main()
