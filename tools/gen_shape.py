#!/usr/bin/env python3
"""Freeze the shape fingerprints of the pinned tree's functions into sa/shape.json (run on the unchanged tree only)."""
import ast
import json
import os
import sys

sys.path.insert(0, os.path.dirname(os.path.dirname(os.path.abspath(__file__))))
from sa.model import Repo  # noqa: E402
from sa import shape  # noqa: E402

repo = Repo(sys.argv[1] if len(sys.argv) > 1 else None)
out = {q: shape.fingerprint(fi.node) for q, fi in sorted(repo.functions.items()) if isinstance(fi.node, (ast.FunctionDef, ast.AsyncFunctionDef))}
with open(shape.SHAPE_FILE, "w") as f:
    json.dump(out, f, indent=0, sort_keys=True)
print(f"{len(out)} function fingerprints -> {shape.SHAPE_FILE}")
