#!/usr/bin/env python3
"""Freeze the vocabulary (function qualnames, local names per function) of the pinned tree into sa/vocab.json.

Run only on the unchanged tree.  The vocabulary never decides a property: it selects which helpers / temporaries
sa/normalize.py inlines before the rules look at the code."""
import json
import os
import sys

sys.path.insert(0, os.path.dirname(os.path.dirname(os.path.abspath(__file__))))
import sa.normalize as N  # noqa: E402

N._VOCAB = {"functions": [], "locals": {}}  # load without normalisation
from sa.model import Repo  # noqa: E402
from sa.roles import bound_names  # noqa: E402

repo = Repo(sys.argv[1] if len(sys.argv) > 1 else None)
import ast  # noqa: E402


def _module_globals(tree):
    names = set()
    for st in tree.body:
        for n in ast.walk(st) if not isinstance(st, (ast.FunctionDef, ast.AsyncFunctionDef, ast.ClassDef)) else []:
            if isinstance(n, ast.Name) and isinstance(n.ctx, ast.Store):
                names.add(n.id)
        if isinstance(st, (ast.FunctionDef, ast.AsyncFunctionDef, ast.ClassDef)):
            names.add(st.name)
        if isinstance(st, (ast.Import, ast.ImportFrom)):
            names |= {(a.asname or a.name).split(".")[0] for a in st.names}
    return sorted(names)


out = {"functions": sorted(repo.functions), "locals": {q: sorted(bound_names(fi.node)) for q, fi in sorted(repo.functions.items())},
       "globals": {name: _module_globals(m.tree) for name, m in sorted(repo.modules.items())}}
with open(N.VOCAB_FILE, "w") as f:
    json.dump(out, f, indent=0, sort_keys=True)
print(f"{len(out['functions'])} functions, {sum(len(v) for v in out['locals'].values())} locals -> {N.VOCAB_FILE}")
