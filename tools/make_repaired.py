#!/usr/bin/env python3
"""Build the *repaired* version of a seeded breaking change (the same refactoring with the slip corrected) and store it as a
behaviour-preserving refactoring under twins/<seed>-repaired/ once confirmed:  the seed's own demo.py must exit 0 on it and the full
baseline test command must pass.   usage (python): make_repaired.main(seed_name, [(relpath, old, new), ...], note)"""
import json
import os
import shutil
import subprocess
import sys
import tempfile
import xml.etree.ElementTree as ET

HERE = os.path.dirname(os.path.dirname(os.path.abspath(__file__)))


def main(seed, edits, note, run_tests=True):
    sd = os.path.join(HERE, "seeded", seed)
    meta = json.load(open(os.path.join(sd, "meta.json")))
    wt = tempfile.mkdtemp(prefix="verif_rep_")
    os.rmdir(wt)
    r = subprocess.run(["git", "-C", "/repo", "worktree", "add", "-f", "--detach", wt, "HEAD"], capture_output=True, text=True)
    assert r.returncode == 0, r.stderr
    try:
        a = subprocess.run(["git", "apply", "--whitespace=nowarn", os.path.join(sd, "patch.diff")], cwd=wt, capture_output=True, text=True)
        assert a.returncode == 0, a.stderr
        for rel, old, new in edits:
            p = os.path.join(wt, rel)
            raw = open(p, "rb").read()
            crlf = b"\r\n" in raw
            txt = raw.decode().replace("\r\n", "\n")
            assert txt.count(old) == 1, f"{rel}: anchor occurs {txt.count(old)} times"
            txt = txt.replace(old, new)
            if crlf:
                txt = txt.replace("\n", "\r\n")
            open(p, "wb").write(txt.encode())
        diff = subprocess.run("git diff HEAD -- src ':!src/tests'", shell=True, cwd=wt, capture_output=True).stdout
        shutil.copyfile(os.path.join(sd, "demo.py"), os.path.join(wt, "demo.py"))
        env = dict(os.environ, PYTHONPATH=os.path.join(wt, "src"), TMPDIR=os.path.join(wt, ".tmp"))
        os.makedirs(env["TMPDIR"], exist_ok=True)
        d = subprocess.run(["/venv/bin/python", "demo.py"], cwd=wt, env=env, capture_output=True, text=True)
        if d.returncode != 0:
            print(f"REJECTED {seed}-repaired: the seed's demo exits {d.returncode} on the repaired tree:\n{d.stdout[-600:]}\n{d.stderr[-400:]}")
            return False
        failing = []
        if run_tests:
            junit = os.path.join(env["TMPDIR"], "junit.xml")
            subprocess.run(f"/venv/bin/python -m pytest -ra -q -p no:cacheprovider --timeout=900 --continue-on-collection-errors --junitxml={junit}",
                           shell=True, cwd=wt, env=env, capture_output=True, text=True)
            base = json.load(open("/root/.vp/BASELINE.json"))
            res = {}
            for tc in ET.parse(junit).getroot().iter("testcase"):
                res[f"{tc.get('classname')}::{tc.get('name')}"] = not any(ch.tag in ("failure", "error") for ch in tc)
            failing = [n for n in base["stable_pass"] if not res.get(n, False)]
            if failing:
                print(f"REJECTED {seed}-repaired: stable tests failing: {failing}")
                return False
        name = f"{seed}-repaired"
        dst = os.path.join(HERE, "twins", name)
        os.makedirs(dst, exist_ok=True)
        open(os.path.join(dst, "patch.diff"), "wb").write(diff)
        shutil.copyfile(os.path.join(sd, "demo.py"), os.path.join(dst, "equiv.py"))
        json.dump({"property": meta["property"], "name": name,
                   "origin": f"the independently written refactoring of seeded/{seed} with its one property-breaking slip corrected here",
                   "summary": note, "kind": "repaired seed",
                   "confirmed_here": {"how": "tools/make_repaired.py: scratch worktree, seed patch + correction, the seed's own demo (its oracle is the property) exits 0, "
                                             "full baseline pytest command passes every stable test", "demo_exit": d.returncode,
                                      "baseline_stable_tests_failing": failing}},
                  open(os.path.join(dst, "meta.json"), "w"), indent=1)
        print(f"STORED twins/{name}")
        return True
    finally:
        subprocess.run(["git", "-C", "/repo", "worktree", "remove", "--force", wt], capture_output=True)
        shutil.rmtree(wt, ignore_errors=True)
