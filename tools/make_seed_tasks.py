#!/usr/bin/env python3
"""Prepare one private scratch worktree of /repo per property (under <root>/<Cxx>) with a TASK.md for an independent sub-agent.
The task text contains only the property (from properties.jsonl), the ground rules and one-line descriptions of earlier seeded
changes for that property (so that the new one differs) - nothing about the checks.   usage: make_seed_tasks.py <root> <round-note-file> [Cxx ...]"""
import json
import os
import subprocess
import sys

HERE = os.path.dirname(os.path.dirname(os.path.abspath(__file__)))
root, notefile, only = sys.argv[1], sys.argv[2], set(sys.argv[3:])
note = open(notefile).read()
base = json.load(open("/root/.vp/BASELINE.json"))
earlier = {}
for name in sorted(os.listdir(os.path.join(HERE, "seeded"))):
    mp = os.path.join(HERE, "seeded", name, "meta.json")
    if os.path.isfile(mp):
        m = json.load(open(mp))
        earlier.setdefault(m["property"], []).append(m["summary"])
for line in open(os.path.join(HERE, "properties.jsonl")):
    p = json.loads(line)
    pid = p["id"]
    if only and pid not in only:
        continue
    wt = os.path.join(root, pid)
    if not os.path.isdir(wt):
        subprocess.run(["git", "-C", "/repo", "worktree", "add", "-f", "--detach", wt, "HEAD"], check=True, capture_output=True)
    os.makedirs(os.path.join(wt, ".tmp"), exist_ok=True)
    anchors = p["anchors"]
    mech = "\n".join(f"  - {m['name']}  ({m['where']})" for m in anchors.get("mechanism", []))
    prev = "\n".join(f"  - {s}" for s in earlier.get(pid, [])) or "  (none)"
    text = f"""# Task: a realistic, hard-to-notice change that breaks one behavioural property

You work ONLY inside the private git worktree `{wt}` (a checkout of the Python library ibl-neuropixel: SpikeGLX reader,
Neuropixel 2 shank splitting, destriping, Fourier helpers, waveform extraction).  Do not read or write anything under /verif or /repo,
and do not commit.  There is no network.

## The property ({pid}: {p['title']})

Statement: {p['statement']}

Quantified over: {p['quantifier']['text']}

Why the existing tests cannot settle it: {p['why_tests_cant']}

Code the property is anchored in (files: {', '.join(anchors['files'])}):
{mech}

## What to produce

A change to the library's source (not to tests, not to test fixtures) that **breaks this property** for some admissible input / history /
configuration, while

1. the code still imports and the existing test suite still passes exactly as before (see "Running the tests");
2. the breakage **needs something specific to manifest** - an unusual but admissible input, a particular sequence of calls, state carried
   from one call to the next, two cooperating edits that each look fine alone, a particular option combination - not something that
   ordinary use would expose at once;
3. {note}

Earlier rounds already produced the following changes for this property; yours must use a **different mechanism** (preferably in a
different function) - do not re-use any of them:
{prev}

## Deliverables (all inside `{wt}`)

* `patch.diff` - `git diff HEAD -- src ':!src/tests'` of your change (source files only; keep the CRLF line endings of src/spikeglx.py
  as they are - edit it without converting line endings, and check that `git diff --stat` shows only the lines you meant to touch);
* `demo.py` - a small self-contained program that **exits 1 and prints what is wrong when run against the changed source, and exits 0
  against the unchanged source**.  It must start with
  `import sys, os; sys.path.insert(0, os.path.join(os.path.dirname(os.path.abspath(__file__)), "src"))` so that it uses the sources next to it,
  needs no network and no external data, builds its own inputs (e.g. with `spikeglx._mock_spikeglx_file` or NumPy), and checks the property
  against an independent oracle (plain NumPy / the definition), not against a stored copy of the old function;
* `meta.json` - {{"property": "{pid}", "name": "<short-kebab-case-name>", "summary": "<3-5 lines: what was changed and why it breaks the property>",
  "needs_to_manifest": "<what input / sequence / configuration is required>", "disguise": "<what the patch looks like to a reviewer>",
  "files_touched": [...], "tests_passed_with_patch": "<n passed / n failed and that the failures are the known environment failures>"}}.

Verify yourself, in this order, and say in your final answer what you observed:
`/venv/bin/python demo.py` exits 1 with the change; `git apply -R patch.diff` -> exits 0; `git apply patch.diff` again (never use `git stash` or `git checkout` of other refs: the stash and refs are shared with other worktrees); the test suite passes.
Leave the worktree with the change applied.

## Running the tests

The library is installed in /venv as an editable install that points at /repo, so you MUST put your worktree first on the path:

    cd {wt} && TMPDIR={wt}/.tmp PYTHONPATH={wt}/src /venv/bin/python -m pytest -ra -q -p no:cacheprovider --timeout=900 --continue-on-collection-errors

(check once with `PYTHONPATH={wt}/src /venv/bin/python -c "import spikeglx; print(spikeglx.__file__)"`).  A full run takes 4-7 minutes;
run single test files while iterating.  On the unchanged source exactly these 12 tests fail for environment reasons (missing pyfftw / external
data, functions removed from SciPy) and must be ignored: {', '.join(t.split('.', 3)[-1] for t in base['always_fail'])}.
`TestSyncTimestamps::test_sync_timestamps_linear` is flaky.  Every other test (84) must pass with your change.
pyfftw is not installed; if you need `ibldsp.voltage.decompress_destripe_cbin` in your demo, put a tiny NumPy stand-in module named `pyfftw`
on sys.path from inside demo.py (`empty_aligned(shape, dtype)` -> np.empty; class `FFTW(a, b, axes, direction, threads)` whose call does
rfft / irfft with `n=b.shape[axis]` along the axis).
"""
    open(os.path.join(wt, "TASK.md"), "w").write(text)
    print("prepared", wt)
