#!/usr/bin/env python3
"""Prepare private scratch worktrees of /repo with a TASK.md asking an independent sub-agent for a BEHAVIOUR-PRESERVING clean-up of the code one
property is anchored in (three kinds per property).  The task text contains only the property (from properties.jsonl) and the ground rules -
nothing about the checks.   usage: make_twin_tasks.py <root> Cxx [Cxx ...]   ->  <root>/<Cxx>-r1, -r2, -r3"""
import json
import os
import subprocess
import sys

HERE = os.path.dirname(os.path.dirname(os.path.abspath(__file__)))
root, only = sys.argv[1], set(sys.argv[2:])
KINDS = {
    "r1": ("branch restructuring + expressions split into steps",
           "restructure the control flow (early returns, if/else inversion, conditional expressions <-> statements, merged or split branches) and split long "
           "expressions into named intermediate steps (or fuse short ones)"),
    "r2": ("helpers extracted + equivalent idioms",
           "extract one to three small private helper functions (module level or methods) out of the anchored code and replace a few NumPy / Python idioms by "
           "equivalent ones (np.where(m)[0] <-> np.flatnonzero(m), a @ b <-> np.matmul, x[::-1] <-> np.flip, comprehension <-> loop, f-strings, keyword vs positional arguments)"),
    "r3": ("hoisting, renaming, (de-)vectorising",
           "hoist loop invariants, rename local variables to clearer names, reorder independent statements, and vectorise one small loop (or turn one vectorised "
           "expression into an explicit loop) where that is exactly equivalent"),
    "r4": ("modernisation: type hints, pathlib / f-strings, current NumPy / pandas API, guard clauses, dataclass-style containers",
           "modernise the code the way a maintainer would in a housekeeping pull request: add type hints and docstring fixes, replace deprecated or dated NumPy / pandas / stdlib "
           "spellings by current equivalents (np.r_ / np.c_ <-> concatenate / column_stack, dict(zip()) <-> comprehensions, os.path <-> pathlib, % / format <-> f-strings, "
           "np.int16(x) <-> x.astype(np.int16) where exactly equivalent), turn nested conditions into guard clauses, name magic numbers as module constants, and tidy "
           "imports - all without changing any result"),
    "r5": ("performance optimisation without any change of behaviour",
           "speed the code up or make it use less memory the way a careful maintainer would in a performance pull request - vectorise a Python loop, hoist loop invariants, "
           "avoid a copy or a repeated read, re-use a preallocated buffer, precompute a table once, replace a generic call by a cheaper equivalent one, short-circuit a common case - "
           "while every edge case (empty inputs, first / last block, odd and even lengths, negative or out-of-range indices, ties, dtype ranges) keeps producing exactly the same result; "
           "keep scratch files small (well under 1 GB) and every run of demo.py under two minutes"),
}
if os.environ.get("TWIN_KINDS"):
    KINDS = {k: v for k, v in KINDS.items() if k in os.environ["TWIN_KINDS"].split(",")}
for line in open(os.path.join(HERE, "properties.jsonl")):
    p = json.loads(line)
    pid = p["id"]
    if pid not in only:
        continue
    anchors = p["anchors"]
    mech = "\n".join(f"  - {m['name']}  ({m['where']})" for m in anchors.get("mechanism", []))
    for slot, (kind, what) in KINDS.items():
        wt = os.path.join(root, f"{pid}-{slot}")
        if not os.path.isdir(wt):
            subprocess.run(["git", "-C", "/repo", "worktree", "add", "-f", "--detach", wt, "HEAD"], check=True, capture_output=True)
        os.makedirs(os.path.join(wt, ".tmp"), exist_ok=True)
        text = f"""# Task: a behaviour-preserving clean-up of the code one behavioural property rests on

You work ONLY inside the private git worktree `{wt}` (a checkout of the Python library ibl-neuropixel: SpikeGLX reader,
Neuropixel 2 shank splitting, destriping, Fourier helpers, waveform extraction).  Do not read or write anything under /verif or /repo,
and do not commit.  There is no network.

## The property the code must keep satisfying ({pid}: {p['title']})

Statement: {p['statement']}

Quantified over: {p['quantifier']['text']}

Code the property is anchored in (files: {', '.join(anchors['files'])}):
{mech}

## What to produce

A clean-up pull request of 30 to 120 changed lines **in the functions listed above** (and helpers you add next to them) that does not change behaviour
at all: same results bit for bit (same dtypes, shapes, values, exceptions, files written) for every admissible input.  Kind of clean-up for this task
({kind}): {what}.  Do not touch tests or fixtures.  Do not "fix" anything you consider a bug - behaviour must stay exactly as it is.

## Deliverables (all inside `{wt}`)

* `patch.diff` - `git diff HEAD -- src ':!src/tests'` of your change (source files only; if you edit src/spikeglx.py keep its CRLF line endings);
* `demo.py` - a differential equivalence check: it imports the refactored sources next to it (start the file with
  `import sys, os; sys.path.insert(0, os.path.join(os.path.dirname(os.path.abspath(__file__)), "src"))`), contains a verbatim copy of the ORIGINAL
  implementation of every function you changed (as reference functions inside demo.py), generates at least a few hundred varied admissible inputs
  (seeded random, edge cases included), compares results exactly (np.array_equal, dtype, shape; same exception type when one is raised) and exits 0 if
  everything is identical, 1 with a message otherwise.  Because it carries its own reference copies it must exit 0 both with and without your patch;
* `meta.json` - {{"property": "{pid}", "name": "{slot}-<short-kebab-case-name>", "kind": "{kind}", "summary": "<2-4 lines: what was changed>",
  "files_touched": [...], "tests_passed_with_patch": "<n passed / n failed and that the failures are the known environment failures>"}}.

## Running the tests

`cd {wt} && PYTHONPATH={wt}/src TMPDIR={wt}/.tmp /venv/bin/python -m pytest -ra -q -p no:cacheprovider --timeout=900 --continue-on-collection-errors`
(run it once before you start: a few tests fail for environment reasons - no network, missing optional packages - and one is flaky; the same tests, and
only those, may fail afterwards).  Check with `/venv/bin/python -c "import ibldsp.utils; print(ibldsp.utils.__file__)"` under that PYTHONPATH that the
worktree's sources are the ones imported.

Verify yourself and say in your final answer what you observed: `/venv/bin/python demo.py` exits 0 with the change; `git apply -R patch.diff` -> still exits 0;
`git apply patch.diff` again (never use `git stash` or `git checkout` of other refs: they are shared with other worktrees); the test suite passes as before.
Leave the worktree with the change applied.
"""
        open(os.path.join(wt, "TASK.md"), "w").write(text)
        print("prepared", wt)
