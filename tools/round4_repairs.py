import sys; sys.path.insert(0,'/verif/tools')
import make_repaired as m
import concurrent.futures as cf
SG="src/spikeglx.py"; NP="src/neuropixel.py"; VO="src/ibldsp/voltage.py"; FO="src/ibldsp/fourier.py"; UT="src/ibldsp/utils.py"; WF="src/ibldsp/waveforms.py"; WE="src/ibldsp/waveform_extraction.py"
JOBS = [
 ("C01d-contiguous-channel-fast-path-endpoint-span", [(SG, "    if ind[-1] - ind[0] == ind.size - 1:\n", "    if ind[-1] - ind[0] == ind.size - 1 and np.all(np.diff(ind) == 1):\n")],
  "read path tidy-up: channels gathered before the float32 conversion, raw_channel_order always set, a basic slice for channel blocks that are increasing AND contiguous on disk"),
 ("C02d-scratch-decompress-staging-only-when-target-exists", [(SG, "        staged = overwrite and file_out.exists()\n", "        staged = True\n")],
  "compression helpers tidied (file_ch property, _switch_file_bin helper, explicit out= / overwrite=); decompress_file always writes to <out>_temp and swaps at the end"),
 ("C03d-lazy-append-lost-truncate", [(NP, "                _shank_info[\"ap_file\"].touch()\n                _shank_info[\"lf_file\"].touch()\n", "                _shank_info[\"ap_file\"].write_bytes(b\"\")\n                _shank_info[\"lf_file\"].write_bytes(b\"\")\n"),
                                     (NP, "lf_file.touch()", "lf_file.write_bytes(b\"\")")],
  "file-handle hygiene: no open handles kept in shank_info, chunks appended per window inside a with block; output files are created EMPTY (truncated) by the prepare step"),
 ("C04d-lazy-append-shank-writes", [(NP, "            probe_path.mkdir(parents=True, exist_ok=True)\n            shank_info[f\"shank{sh}\"] = {\n", "            probe_path.mkdir(parents=True, exist_ok=True)\n            probe_path.joinpath(ap_file_bin).write_bytes(b\"\")\n            probe_path.joinpath(lf_file_bin).write_bytes(b\"\")\n            shank_info[f\"shank{sh}\"] = {\n"),
                                    (NP, "        for sh in n_shanks:\n            # channels for individual shank + sync channel\n            if assert_shanks:\n                chns = self._shank_channels(chn_info, sh)\n", "        lf_file.write_bytes(b\"\")\n        for sh in n_shanks:\n            # channels for individual shank + sync channel\n            if assert_shanks:\n                chns = self._shank_channels(chn_info, sh)\n")],
  "resource-handling clean-up: prepare step records the paths and truncates the output files, _split2shanks appends per window"),
 ("C05d-fshift-phase-scaling-aliases-header-shifts", [(FO, "    phase = np.asarray(s, dtype=dtype)\n", "    phase = np.array(s, dtype=dtype, copy=True)\n")],
  "fshift with an analytic phase ramp built by a helper on a private copy of the shifts; convolve via rfft(n=ns); table of fast sizes computed once"),
 ("C06d-worker-range-floor-remainder-drops-final-batch", [(VO, "    max_s = min((i_chunk + 1) * chunk_size, ns)\n", "    max_s = ns if (i_chunk + 2) * chunk_size > ns else (i_chunk + 1) * chunk_size\n")],
  "batch loop as a for over a precomputed range (_batch_starts), _open_at helper, hoisted intnorm; the last worker runs to the end of the file"),
 ("C07d-fshift-blockwise-phasor-assumes-last-axis", [(FO, "    elif W.size <= _PHASOR_NELEM:\n", "    elif W.size <= _PHASOR_NELEM or axis not in (-1, w.ndim - 1):\n")],
  "fshift: phase ramp helper, block-wise phasor for large per-trace shifts along the LAST axis only, broadcasting path otherwise"),
 ("C08d-np1-flip-mirrors-about-selection-extent", [(SG, "    return x.min() + x.max() - x\n", "    return 70 - x\n")],
  "geometry_from_meta shortened: coordinate conversion helper for both encodings, one NP1 column flip about the shank axis (70 um), vectorised adc_shifts"),
 ("C09d-imro-gains-lexicographic-channel-order", [(SG, "            isaved = np.argsort(channel)[:n_chn]\n", "            isaved = np.argsort(np.array(channel, dtype=int), kind=\"stable\")[:n_chn]\n")],
  "conversion factors tidied: module-level int2volts helper and regexes, vectorised IMRO gains picked in numeric channel order"),
 ("C10d-read-sync-from-chunk-uses-csel-volts", [(SG, "        return darray, self._sync_from_chunk(raw, volts=darray)\n", "        return darray, self._sync_from_chunk(raw)\n")],
  "sync decoded from the chunk already in memory (full-width raw), thin wrappers for digital / analog sync, one-pass thresholding"),
 ("C11d-flat-memmap-odd-byte-length", [(SG, "            raw = np.memmap(sglx_file, dtype=self.dtype, mode=\"r\")\n", "            raw = np.memmap(sglx_file, dtype=self.dtype, mode=\"r\", shape=(self.file_bin.stat().st_size // self.dtype.itemsize,))\n")],
  "flat binaries mapped once as 1-D over the whole items present, frames counted on the mapping, one duration helper for bin and cbin"),
 ("C12d-shared-window-taper-rewritten-by-last-window", [(NP, "        taper = self.window_taper[:ns]\n", "        taper = self.window_taper[:ns].copy()\n")],
  "one read per window shared by AP and LF, extract_lfp multiplies a copy by a precomputed gain (private copy for the short last window), cached filter design and taper"),
 ("C13d-block-write-span-equals-count", [(WE, "    if iw[-1] - iw[0] == iw.size - 1:\n", "    if iw[-1] - iw[0] == iw.size - 1 and np.all(np.diff(iw) == 1):\n")],
  "waveform extraction tidy-up: neighbourhood-only gather, one searchsorted over chunk edges, block write when the rows are one increasing run"),
 ("C14d-swap-guard-any-on-row-labels", [(WF, "    if not df_index.any():\n", "    if len(df_index) == 0:\n")],
  "boolean masks with .any() instead of where()/len() where the operand is a mask; broadcast half-peak computation; find_tip_trough flattened with an early return on an empty label set"),
 ("C15d-cached-kriging-weights-row-aliasing", [(VO, "        weights = gp.asarray(decay[int(i)])\n", "        weights = gp.array(decay[int(i)], copy=True)\n")],
  "kriging decay matrix cached per geometry (lru_cache); each bad channel works on a private copy of its row"),
 ("C16d-slew-on-rectified-work-array", [(VO, "    np.subtract(work[:, 1:], slew, out=slew)\n", "    np.subtract(data[:, 1:], data[:, :-1], out=slew)\n")],
  "saturation with one work array: range test on |data|, slew test on the first difference of the DATA written into the work array; mute helper"),
 ("C17d-window-cursor-shared-through-iw", [(UT, "        self.iw = 0\n        while True:\n            first, last = self._bounds(self.iw)\n            yield (first, last)\n            if last == self.ns:\n                break\n            self.iw += 1\n",
                                             "        iw = self.iw = 0\n        while True:\n            first, last = self._bounds(iw)\n            yield (first, last)\n            if last == self.ns:\n                break\n            iw += 1\n            self.iw = iw\n")],
  "WindowGenerator tidy-up: _bounds(iw) helper, stride stored, taper helper; each firstlast iteration keeps its own cursor and mirrors it into self.iw"),
 ("C18d-fast-size-power-of-three-cutoff", [(FO, "    while p3 < ns:\n", "    while p3 < 3 * ns:\n")],
  "ns_optim_fft enumerates one candidate per power of three (up to the first one not below ns) instead of sorting the full table; integer arithmetic in fscale / freduce / fexpand / dft"),
]
def run(j):
    try:
        return j[0], m.main(j[0], j[1], j[2])
    except AssertionError as e:
        return j[0], f"ASSERT {e}"
with cf.ThreadPoolExecutor(9) as ex:
    for name, ok in ex.map(run, JOBS):
        print(name, ok)
