#!/usr/bin/env python3
"""The corrections that turn the round-5 seeds (feature / robustness PRs with one slip) into their repaired twins (record; run with make_repaired)."""
import sys
import os
sys.path.insert(0, os.path.dirname(os.path.abspath(__file__)))
import make_repaired  # noqa: E402

SG, NP, VO, FO, UT, WF, WE, ST = ("src/spikeglx.py", "src/neuropixel.py", "src/ibldsp/voltage.py", "src/ibldsp/fourier.py", "src/ibldsp/utils.py",
                                  "src/ibldsp/waveforms.py", "src/ibldsp/waveform_extraction.py", "src/ibldsp/spiketrains.py")
R = [
 ("C01e-fullwidth-fast-path-scattered-gains", [(SG, "                self._sample2v_out = np.empty_like(s2v)\n                self._sample2v_out[order] = s2v\n", "                self._sample2v_out = s2v[order]\n")],
  "full-width fast path of Reader.read with a lazily cached gain vector in output order (gathered, not scattered)"),
 ("C02e-chunkwise-compressed-read-stride-phase", [(SG, "            chunk = self._raw[max(first, c0):min(last, c1):step, :]\n",
                                                   "            start = max(first, c0)\n            chunk = self._raw[start + (first - start) % step:min(last, c1):step, :]\n")],
  "compressed files read one compression chunk at a time, each piece starting on the caller's stride grid"),
 ("C03e-ind2save-saturate-int16-unrounded-common-path", [(NP, "            np.clip(rounded, i16.min, i16.max, out=chunk2save)\n", "            np.clip(rounded, i16.min, i16.max, out=rounded)\n"),
                                                         (NP, "        return chunk2save.astype(np.int16)\n", "        return rounded.astype(np.int16)\n")],
  "_ind2save saturates to the int16 range and counts saturated samples; the rounded array is what is cast on every path"),
 ("C04e-deferred-delete-stale-verified-flag", [(NP, "                probe_path.mkdir(parents=True, exist_ok=True)\n                _shank_info[\"ap_file\"] = probe_path.joinpath(ap_file_bin)\n",
                                                "                probe_path.mkdir(parents=True, exist_ok=True)\n                for stale_meta in probe_path.glob(\"*.meta\"):\n                    stale_meta.unlink()  # what is about to be overwritten is no longer verified\n                _shank_info[\"ap_file\"] = probe_path.joinpath(ap_file_bin)\n")],
  "a later run may delete the original on the strength of a split_verified flag left in the shank metas by a successful post-check; the flag is dropped as soon as the shank files are about to be rewritten"),
 ("C16e-saturation-blockwise-scan-drops-boundary-slew", [(VO, "        block = np.asarray(data[:, first:last])\n", "        block = np.asarray(data[:, first:min(last + 1, ns)])\n"),
                                                          (VO, "        n_saturated[first:last] = np.mean(np.abs(block) > max_voltage * 0.98, axis=0)\n", "        n_saturated[first:last] = np.mean(np.abs(block[:, :last - first]) > max_voltage * 0.98, axis=0)\n"),
                                                          (VO, "        n_diff_saturated[first:last] = np.r_[n_diff, 0]\n", "        n_diff_saturated[first:first + n_diff.size] = n_diff\n")],
  "saturation scanned by blocks of samples that overlap by one sample, so the slew across a block edge is evaluated"),
 ("C05e-destripe-adc-stencil-cache-keyed-on-version", [(VO, "    key = (neuropixel_version, *shape)\n", "    key = (np.asarray(sample_shift).tobytes(), *shape)\n")],
  "fshift stencil option + cache of the ADC re-alignment stencils in destripe, keyed on the delays themselves"),
 ("C06e-batch-aligned-worker-chunks-small-nbatch", [(VO, "        max_s = _sr.ns if i_chunk == n_chunk - 1 else int(batch_bounds[i_chunk + 1]) * BATCH_STRIDE\n",
                                                     "        max_s = _sr.ns if i_chunk == n_chunk - 1 else int(batch_bounds[i_chunk + 1]) * BATCH_STRIDE + 2 * SAMPLES_TAPER\n")],
  "whole batches distributed among the workers (batch ownership), nprocesses capped at the number of batches; a worker stops when its next batch belongs to the next worker"),
 ("C07e-fshift-integer-roll-fast-path-isclose", [(FO, "        if np.isclose(s, np.round(s)):\n", "        if s == np.round(s):\n")],
  "fshift accepts lists / single-element arrays and rolls for EXACTLY whole scalar shifts of real input"),
 ("C08e-memoized-channel-map-inplace-tip-offset", [(SG, "    return {k: chmap[:, v] for (k, v) in key_names.items()}\n", "    return {k: chmap[:, v].copy() for (k, v) in key_names.items()}\n")],
  "channel map parsing memoised per map string; callers get their own copies of the columns"),
 ("C09e-read-meta-data-parse-cache-shared-lists", [(SG, "        _META_DATA_CACHE[str(md_file)] = (stat.st_mtime_ns, stat.st_size, d)\n    return Bunch(d)\n",
                                                    "        _META_DATA_CACHE[str(md_file)] = (stat.st_mtime_ns, stat.st_size, d)\n    return Bunch({k: (list(v) if isinstance(v, list) else v) for k, v in d.items()})\n")],
  "read_meta_data keeps parsed headers in memory (revalidated on mtime / size); every call returns a Bunch with its own lists"),
 ("C10e-split-sync-lower-byte-fast-path-signed-max", [(SG, "    if np.max(sync_tr) <= _SYNC_LOWER_BYTE_MAX:\n", "    if np.max(sync_tr.view(np.uint16)) <= _SYNC_LOWER_BYTE_MAX:\n")],
  "split_sync fast path for chunks that never use lines 8-15, selected on the words as unsigned"),
 ("C11e-reader-shared-cached-meta", [(SG, "            self.meta = read_meta_data(meta_file, cache=True)\n", "            self.meta = Bunch(read_meta_data(meta_file, cache=True))\n")],
  "opt-in cache of parsed meta-data files; each Reader holds its own (shallow) copy so the duration repair stays private"),
 ("C12e-small-window-overlap-taper-rounding", [(NP, "        overlap = min(int(overlap or 576), self.samples_window // 4)\n", "        overlap = min(int(overlap or 576), self.samples_window // 2)\n"),
                                               (NP, "        self.samples_overlap = overlap // self.ratio * self.ratio\n", "        self.samples_overlap = overlap // (4 * self.ratio) * (4 * self.ratio)\n"),
                                               (NP, "        self.samples_taper = self.samples_overlap // 4 // self.ratio * self.ratio\n", "        self.samples_taper = self.samples_overlap // 4\n")],
  "small processing windows: overlap option capped to a quarter of the window and rounded so that it stays four tapers of whole LF samples"),
 ("C13e-fold-short-trailing-chunk", [(WE, "        s0_arr, s1_arr = s0_arr[:-1], s1_arr[:-1]\n", "        s0_arr, s1_arr = s0_arr[:-1], s1_arr[:-1].copy()\n        s1_arr[-1] = ns\n")],
  "str / Path inputs, n_jobs bounds, chunk bounds helper folding a trailing chunk shorter than one waveform into the previous one (which then ends at ns)"),
 ("C14e-feature-index-labels-swap-writeback", [(WF, "        df.loc[df_index] = df_rows\n", "        for col in df_rows.columns:\n            df.iloc[i_rows, df.columns.get_loc(col)] = df_rows[col].to_numpy()\n")],
  "optional index= labels for the feature table; the swapped rows are written back by position, column by column"),
 ("C15e-kriging-decay-cache-row-aliasing", [(VO, "            weights = decay[i]\n", "            weights = decay[i].copy()\n")],
  "distance-decay matrix cached per geometry; each bad channel works on a private copy of its row"),
 ("C17e-precomputed-window-bounds-short-signal", [(UT, "        first = np.arange(0, self.ns - self.overlap, step)\n", "        first = np.arange(0, max(self.ns - self.overlap, 1), step)\n")],
  "window bounds computed once (len / random access / vectorised tscale); a signal no longer than the overlap still gets its single window"),
 ("C18e-cached-filter-response-bp-inplace", [(FO, '        filc = _freq_response(ns, si, b[0:2], "hp")  # taper up\n', '        filc = _freq_response(ns, si, b[0:2], "hp").copy()  # taper up\n')],
  "cached one-sided frequency responses for lp / hp / bp; the band-pass multiplies a copy"),
 ("C19e-one-to-one-fast-path-rms-acceptance", [(UT, "        misfit = rms(tsb - tsa - np.polyval(ab, tsa))\n", "        misfit = np.max(np.abs(tsb - tsa - np.polyval(ab, tsa)))\n")],
  "fast path for equal-length series accepted only when EVERY pair fits the straight line to better than one bin"),
 ("C20e-venn-skip-leading-empty-chunks", [(ST, "    num_chunks = int(((max_samples - min_samples) // chunk_size) + 1)\n", "    num_chunks = int(max_samples // chunk_size) - first_chunk + 1\n")],
  "empty / array-like spike trains accepted, leading empty chunks skipped; the chunk count reaches the chunk of the last spike"),
]

if __name__ == "__main__":
    only = set(sys.argv[1:])
    for seed, edits, note in R:
        if only and not any(seed.startswith(o) for o in only):
            continue
        ok = make_repaired.main(seed, edits, note)
        print(seed, "->", ok)
