#!/usr/bin/env python3
"""The corrections that turn the round-6 seeds (performance-optimisation PRs with one slip) into their repaired twins (record; run with make_repaired)."""
import sys
import os
sys.path.insert(0, os.path.dirname(os.path.abspath(__file__)))
import make_repaired  # noqa: E402

SG, NP, VO, FO, UT, WF, WE, ST, SM = ("src/spikeglx.py", "src/neuropixel.py", "src/ibldsp/voltage.py", "src/ibldsp/fourier.py", "src/ibldsp/utils.py",
                                      "src/ibldsp/waveforms.py", "src/ibldsp/waveform_extraction.py", "src/ibldsp/spiketrains.py", "src/ibldsp/smooth.py")
R = [
 ("C01f-raw-column-run-collapsed-to-slice-negative-stop", [(SG, "                return slice(int(columns[0]), int(columns[-1] + step[0]), int(step[0]))\n",
                                                            "                stop = int(columns[-1] + step[0])\n                return slice(int(columns[0]), stop if stop >= 0 else None, int(step[0]))\n")],
  "Reader.read converts only the requested columns; a regular run of raw columns is read through the slice that enumerates it (stop None when the run reaches column 0 downwards)"),
 ("C02f-chunkwise-cbin-read-stride-phase", [(SG, "            i0 = max(start - bounds[ic], 0)\n", "            i0 = max(start - bounds[ic], 0)\n            i0 += (start - bounds[ic] - i0) % step  # first sample of this chunk that lies on the stride grid of the slice\n")],
  "compressed files read one decompressed chunk at a time into a preallocated float32 array, each piece starting on the caller's stride grid"),
 ("C03f-reconstruct-gather-with-forward-index", [(NP, "            np.take(chunk, chns, axis=1).tofile(file_out)\n", "            np.take(chunk, np.argsort(chns), axis=1).tofile(file_out)\n")],
  "one read per window in the converter, one gather for all shanks in the split, and a reconstruction that stacks the shank files and gathers with the inverse permutation"),
]

if __name__ == "__main__":
    only = set(sys.argv[1:])
    for seed, edits, note in R:
        if only and not any(seed.startswith(o) for o in only):
            continue
        make_repaired.main(seed, edits, note)
