#!/usr/bin/env python3
"""The corrections that turn the round-6 seeds (performance-optimisation PRs with one slip) into their repaired twins (record; run with make_repaired)."""
import sys
import os
sys.path.insert(0, os.path.dirname(os.path.abspath(__file__)))
import make_repaired  # noqa: E402

SG, NP, VO, FO, UT, WF, WE, ST, SM = ("src/spikeglx.py", "src/neuropixel.py", "src/ibldsp/voltage.py", "src/ibldsp/fourier.py", "src/ibldsp/utils.py",
                                      "src/ibldsp/waveforms.py", "src/ibldsp/waveform_extraction.py", "src/ibldsp/spiketrains.py", "src/ibldsp/smooth.py")
R = [
 ("C01f-raw-column-run-collapsed-to-slice-negative-stop", [(SG, "                return slice(int(columns[0]), int(columns[-1] + step[0]), int(step[0]))\n",
                                                            "                stop = int(columns[-1] + step[0])\n                return slice(int(columns[0]), stop if stop >= 0 else None, int(step[0]))\n")],
  "Reader.read converts only the requested columns; a regular run of raw columns is read through the slice that enumerates it (stop None when the run reaches column 0 downwards)"),
 ("C02f-chunkwise-cbin-read-stride-phase", [(SG, "            i0 = max(start - bounds[ic], 0)\n", "            i0 = max(start - bounds[ic], 0)\n            i0 += (start - bounds[ic] - i0) % step  # first sample of this chunk that lies on the stride grid of the slice\n")],
  "compressed files read one decompressed chunk at a time into a preallocated float32 array, each piece starting on the caller's stride grid"),
 ("C03f-reconstruct-gather-with-forward-index", [(NP, "            np.take(chunk, chns, axis=1).tofile(file_out)\n", "            np.take(chunk, np.argsort(chns), axis=1).tofile(file_out)\n")],
  "one read per window in the converter, one gather for all shanks in the split, and a reconstruction that stacks the shank files and gathers with the inverse permutation"),
 ("C04f-check-np24-sync-run-dropped", [(NP, "            runs[sh] = _contiguous_runs(self.shank_info[sh][\"chns\"])\n            if ish > 0:\n                # the sync trace comes last in each of the shank files: compare it only once\n                runs[sh] = runs[sh][:-1]\n",
                                         "            # the sync trace comes last in each of the shank files: compare it only once\n            runs[sh] = _contiguous_runs(self.shank_info[sh][\"chns\"] if ish == 0 else self.shank_info[sh][\"chns\"][:-1])\n")],
  "check_NP24 compares raw int16 samples run by run; the run table of the shanks after the first is built without their last channel (the duplicated sync)"),
 ("C05f-car-group-mean-reduceat-first-index", [(VO, "            ref[:] = np.add.reduceat(x, first, axis=0) / counts[:, np.newaxis]\n",
                                                   "            ref[:] = 0\n            np.add.at(ref, igroup, x)\n            ref /= counts[:, np.newaxis]\n")],
  "car labels the traces once with np.unique(return_inverse) and subtracts per-label references; the group means are accumulated by label (np.add.at), not by positional blocks"),
 ("C06f-worker-batch-grid-split-extra-tail-batch", [(VO, "        while first_s < max_s:\n", "        while first_s < max_s and (first_s == 0 or first_s + 2 * SAMPLES_TAPER < _sr.ns):\n")],
  "every worker handles the batches that START inside its chunk (no batch destriped twice); a grid point is a batch only when the batch before it did not reach the end of the recording"),
 ("C07f-fshift-closed-form-phase-ramp-odd-length", [(FO, "def _unit_delay_phase(nf):\n", "def _unit_delay_phase(nf, ns):\n"),
                                                     (FO, "    phase = np.linspace(0.0, -pi, nf)\n", "    phase = -2 * pi * np.arange(nf) / ns\n"),
                                                     (FO, "    phase = _unit_delay_phase(nf).reshape(shape)\n", "    phase = _unit_delay_phase(nf, ns).reshape(shape)\n")],
  "fshift looks the phase ramp of a one-sample delay up in a cache keyed on (number of bins, length): -2*pi*k/ns for both parities"),
 ("C09f-imro-uniform-gain-fast-path-prefix-match", [(SG, "            if site and imro.count(f\" {ap} {lf}\") == n_sites:\n",
                                                      "            if site and imro.count(f\" {ap} {lf})\") + imro.count(f\" {ap} {lf} \") == n_sites:\n")],
  "regexes compiled once; NP1 conversion short-circuits when every IMRO entry carries the first entry's (ap, lf) gain pair, counted with patterns closed on both sides (3A entries end with ')', 3B entries go on with ' ')"),
 ("C13f-templates-plain-median-shared-padding", [(WE, "        wfs_templates[i] = np.median(wfs[rec.first_index:rec.last_index + 1], axis=0)\n", "        wfs_templates[i] = np.nanmedian(wfs[rec.first_index:rec.last_index + 1], axis=0)\n")],
  "block-wise gather in extract_wfs_array, one sorted search for all chunk bounds, empty chunks not dispatched; templates stay NaN-aware"),
 ("C15f-vectorised-interp-isolated-bad-channel-nan", [(VO, "    weights /= gp.sum(weights, axis=1, keepdims=True)\n",
                                                       "    wsum = gp.sum(weights, axis=1, keepdims=True)\n    weights /= gp.where(wsum > 0, wsum, 1)  # a bad channel without usable neighbour keeps a row of zeros\n")],
  "interpolate_bad_channels builds one weight matrix for all bad channels and applies a single matrix product; a row without donors is divided by 1 and stays zeros"),
 ("C17f-closed-form-window-bounds-short-signal", [(UT, "        first = np.arange(0, self.ns - self.overlap, self.nswin - self.overlap)\n",
                                                   "        first = np.arange(0, max(self.ns - self.overlap, 1), self.nswin - self.overlap)\n")],
  "WindowGenerator computes its window bounds once as two vectors; there is always a first window (a signal no longer than the overlap gets one clipped window)"),
 ("C18f-convolve-same-mode-short-transform-wraparound", [(FO, "        first, nout = ((nsw - 1) // 2, nsx)\n", "        first, nout = ((nsw - 1) // 2, nsx)\n        nlin = nsx + nsw // 2  # the wrapped tail of the linear convolution must stay below `first`\n"),
                                                          (FO, "        first, nout = (0, nsx + nsw)\n", "        first, nout = (0, nsx + nsw)\n        nlin = nsx + nsw\n"),
                                                          (FO, "    ns = ns_optim_fft(max(first + nout, nsw))\n", "    ns = ns_optim_fft(max(nlin, nsw))\n")],
  "convolve zero-pads inside rfft and, in 'same' mode, uses the shortest transform whose wrapped tail does not reach the returned window (nsx + nsw // 2); fast sizes tabulated once at import"),
 ("C19f-sync-timestamps-stale-matched-index", [(UT, "    fcn_a2b, drift_ppm = _interp_fcn(tsa[ia], tsb[ib[ia]], linear=linear)\n",
                                                "    ia = np.where(ib >= 0)[0]  # the second pass stored further matches\n    fcn_a2b, drift_ppm = _interp_fcn(tsa[ia], tsb[ib[ia]], linear=linear)\n")],
  "first assignment pass vectorised, the matched index computed once per pass and re-used for the fits and the output"),
 ("C20f-savgol-blocked-buffer-stale-last-window", [(SM, "            last_coeffs = np.matmul(coeffs[-1], y[-window:])\n", "            last_coeffs = np.matmul(coeffs[n - 1], y[-window:])\n")],
  "non_uniform_savgol vectorised over sliding-window views, processed in blocks with re-used buffers; the right border uses the last window FILLED in the last block"),
 ("C08f-memoised-site-map-aliases-geommap-y-offset", [(SG, "    return {k: chmap[:, v] for (k, v) in key_names.items()}\n", "    return {k: chmap[:, v].copy() for (k, v) in key_names.items()}\n")],
  "site map parsed once per map string (memoised); callers get their own copies of the columns"),
 ("C11f-single-stat-reused-on-open", [(SG, "            nc, fs = self.nc, self.fs\n", "            nc, fs = self.nc, self.fs\n            self.nbytes = self.file_bin.stat().st_size  # the size of the file that is about to be mapped\n")],
  "Reader stats the binary once per construction and once per open(); the frame count comes from the size of the file being mapped"),
 ("C12f-last-window-backfill-phase", [(NP, "        lead = min(int(self.samples_window) - (last - first), first)\n",
                                       "        lead = 0  # the (short) last window starts where the generator says: on the decimation grid\n")],
  "one read per window shared by the AP and LF streams, filter scratch array re-used (re-allocated for the short last window); windows are read at the generator's bounds"),
 ("C14f-int8-sample-offset-pre-post-mask", [(WF, "    smp = np.arange(arr_peak.shape[1], dtype=np.int8)\n", "    smp = np.arange(arr_peak.shape[1])\n"),
                                             (WF, "    smp_from_peak = smp[np.newaxis, :] - np.asarray(indx_peak).astype(np.int8)[:, np.newaxis]\n", "    smp_from_peak = smp[np.newaxis, :] - np.asarray(indx_peak)[:, np.newaxis]\n")],
  "pre / post peak mask built from the sign of (sample - peak) in the platform integer type; maxima read at the arg-max; half-max broadcast"),
 ("C16f-sparse-mute-taper-wraps-at-array-start", [(VO, "        i_mute = i_mute[i_mute < ns]  # the taper of a run reaching the end of the array is truncated\n",
                                                   "        i_mute = i_mute[(i_mute >= 0) & (i_mute < ns)]  # the taper of a run reaching either end of the array is truncated\n")],
  "saturation counts booleans instead of averaging them and subtracts the taper around the flagged samples only; taps falling outside the array on either side are dropped"),
 ("C10f-read-sync-threshold-in-sample-units", [(SG, "        level = ((floor + threshold) / s2v).astype(raw.dtype)\n", "        level = (floor + threshold) / s2v  # kept real-valued: integer samples compare exactly with it\n")],
  "analog sync read as raw columns only, thresholded in sample units against a real-valued level, straight into a preallocated int8 array; split_sync unpacks with little bit order"),
]

if __name__ == "__main__":
    only = set(sys.argv[1:])
    for seed, edits, note in R:
        if only and not any(seed.startswith(o) for o in only):
            continue
        make_repaired.main(seed, edits, note)
