#!/usr/bin/env python3
"""Print a function of <repo> as the rules see it (after normalisation).  usage: show_norm.py <repo-or-seed-name> <qualname> [...]"""
import ast, os, sys, shutil, subprocess, tempfile
HERE = os.path.dirname(os.path.dirname(os.path.abspath(__file__)))
sys.path.insert(0, HERE)
sys.dont_write_bytecode = True
from sa.model import Repo
root = sys.argv[1]
tmp = None
if not os.path.isdir(root):
    for kind in ("seeded", "twins"):
        pd = os.path.join(HERE, kind, root, "patch.diff")
        if os.path.isfile(pd):
            tmp = tempfile.mkdtemp(prefix="verif_show_")
            shutil.copytree("/repo/src", os.path.join(tmp, "src"), ignore=shutil.ignore_patterns("tests", "__pycache__"))
            r = subprocess.run(["git", "apply", "--whitespace=nowarn", pd], cwd=tmp, capture_output=True, text=True)
            assert r.returncode == 0, r.stderr
            root = tmp
            break
try:
    repo = Repo(root)
    print("# normalisation applied:", getattr(repo, "normalisation", None))
    print("# unresolved roles:", getattr(repo, "unresolved", None))
    for q in sys.argv[2:]:
        fi = repo.fn(q)
        print(f"# ---- {q}")
        print(ast.unparse(fi.node))
finally:
    if tmp:
        shutil.rmtree(tmp, ignore_errors=True)
