"""
Differential check for refactor_N.diff (property C01, spikeglx.Reader reads).

Loads the ORIGINAL library from a pristine copy of HEAD (/tmp/wt_C01_tmp/orig_eqN/src) and the
REFACTORED one either from the worktree (if the refactoring is currently applied there) or, when
the worktree is clean, from a scratch copy of HEAD with refactor_N.diff applied
(/tmp/wt_C01_tmp/ref_eqN/src).  Both are exercised on the same inputs and every result (values,
dtypes, shapes, container types, exception types and messages) must be identical.
Prints EQUIVALENT and exits 0 on success.
"""
import copy
import io
import logging
import shutil
import subprocess
import sys
import tarfile
import tempfile
from pathlib import Path

import numpy as np

N = 2
WT = Path("/tmp/wt_C01")
TMP = Path("/tmp/wt_C01_tmp")
DIFF = WT / f"refactor_{N}.diff"
FIXTURES = WT / "src" / "tests" / "fixtures"
LIB_MODULES = ("spikeglx", "neuropixel", "ibldsp", "neurowaveforms")


# ----------------------------------------------------------------------------------------------
# getting the two implementations
# ----------------------------------------------------------------------------------------------
def _export_head(target):
    """Extracts HEAD:src (without the tests) into target/src"""
    if target.exists():
        shutil.rmtree(target)
    target.mkdir(parents=True)
    blob = subprocess.run(["git", "-C", str(WT), "archive", "HEAD", "src"], check=True, capture_output=True).stdout
    with tarfile.open(fileobj=io.BytesIO(blob)) as tar:
        members = [m for m in tar.getmembers() if not m.name.startswith("src/tests")]
        tar.extractall(target, members=members)
    return target / "src"


def _prepare_sources():
    orig_src = _export_head(TMP / f"orig_eq{N}")
    dirty = subprocess.run(["git", "-C", str(WT), "diff", "--quiet", "--", "src"]).returncode != 0
    if dirty:
        new_src = WT / "src"
        how = "worktree (refactoring applied in place)"
    else:
        ref_root = TMP / f"ref_eq{N}"
        new_src = _export_head(ref_root)
        assert DIFF.exists(), f"{DIFF} not found"
        subprocess.run(["git", "apply", "--whitespace=nowarn", str(DIFF)], check=True, cwd=ref_root)
        how = f"scratch copy of HEAD + {DIFF.name}"
    changed = [
        p.relative_to(orig_src) for p in orig_src.rglob("*.py")
        if p.read_bytes() != (new_src / p.relative_to(orig_src)).read_bytes()
    ]
    assert changed, "the refactored sources are byte-identical to the original ones: nothing to compare"
    return orig_src, new_src, how, changed


def _load(src_dir):
    for name in list(sys.modules):
        if name.split(".")[0] in LIB_MODULES:
            del sys.modules[name]
    sys.path.insert(0, str(src_dir))
    try:
        import spikeglx
        import neuropixel
    finally:
        sys.path.remove(str(src_dir))
    assert Path(spikeglx.__file__).resolve() == (src_dir / "spikeglx.py").resolve(), spikeglx.__file__
    assert Path(neuropixel.__file__).resolve() == (src_dir / "neuropixel.py").resolve(), neuropixel.__file__
    for name in list(sys.modules):
        if name.split(".")[0] in LIB_MODULES:
            del sys.modules[name]
    return spikeglx


# ----------------------------------------------------------------------------------------------
# strict comparison
# ----------------------------------------------------------------------------------------------
class Mismatch(Exception):
    pass


def same(a, b, where):
    if type(a) is not type(b):
        raise Mismatch(f"{where}: type {type(a)} != {type(b)}")
    if isinstance(a, BaseException):
        if str(a) != str(b):
            raise Mismatch(f"{where}: exception message {a!s} != {b!s}")
    elif isinstance(a, np.ndarray):
        if a.dtype != b.dtype or a.shape != b.shape:
            raise Mismatch(f"{where}: dtype/shape {a.dtype}{a.shape} != {b.dtype}{b.shape}")
        if a.dtype.kind in "fc":
            ok = np.array_equal(a, b, equal_nan=True) and np.array_equal(np.signbit(a), np.signbit(b))
        else:
            ok = np.array_equal(a, b)
        if not ok:
            raise Mismatch(f"{where}: array values differ")
        if a.flags.writeable != b.flags.writeable:
            raise Mismatch(f"{where}: writeable flag differs")
    elif isinstance(a, np.generic):
        if a.dtype != b.dtype or not (a == b or (a != a and b != b)):
            raise Mismatch(f"{where}: scalar {a!r} != {b!r}")
    elif isinstance(a, dict):
        if list(a.keys()) != list(b.keys()):
            raise Mismatch(f"{where}: keys {list(a.keys())} != {list(b.keys())}")
        for k in a:
            same(a[k], b[k], f"{where}[{k!r}]")
    elif isinstance(a, (tuple, list)):
        if len(a) != len(b):
            raise Mismatch(f"{where}: len {len(a)} != {len(b)}")
        for i, (x, y) in enumerate(zip(a, b)):
            same(x, y, f"{where}[{i}]")
    else:
        if a != b:
            raise Mismatch(f"{where}: {a!r} != {b!r}")


def call(fcn, *args, **kwargs):
    try:
        return fcn(*args, **kwargs)
    except Exception as e:  # noqa
        return e


NCHECKS = 0


def check(where, fo, fn):
    """runs the two thunks and compares what they return / raise"""
    global NCHECKS
    ro, rn = call(fo), call(fn)
    same(ro, rn, where)
    NCHECKS += 1
    return ro, rn


# ----------------------------------------------------------------------------------------------
# A. conversion factors
# ----------------------------------------------------------------------------------------------
def meta_variants(md):
    """the meta-data dictionary, plus damaged versions of it that exercise the error paths"""
    yield "asis", md
    for key in ("imroTbl", "snsApLfSy", "imAiRangeMax", "niAiRangeMax", "typeThis", "niMNGain", "niMAGain",
                "snsMnMaXaDw", "imMaxInt", "imDatPrb_type", "snsShankMap", "snsGeomMap", "nSavedChans",
                "snsSaveChanSubset", "acqApLfSy", "imSampRate", "niSampRate", "NP2.4_shank"):
        if key in md:
            v = copy.deepcopy(md)
            del v[key]
            yield f"del {key}", v
    if "snsMnMaXaDw" in md:
        for n in (0, 1, 2, 3):
            v = copy.deepcopy(md)
            v["snsMnMaXaDw"] = list(md["snsMnMaXaDw"])[:n]
            yield f"snsMnMaXaDw[:{n}]", v
        v = copy.deepcopy(md)
        v["snsMnMaXaDw"] = [3.0, 2.0, 4.0, 1.0]
        v["niMNGain"], v["niMAGain"] = 200.0, 3.0
        yield "snsMnMaXaDw other", v
    if "snsApLfSy" in md:
        for sy in (0.0, 1.0, 2.0):
            v = copy.deepcopy(md)
            v["snsApLfSy"] = list(md["snsApLfSy"])[:-1] + [sy]
            yield f"nsync {sy}", v
    for shank in (0, 1, 2, 3, 7):
        v = copy.deepcopy(md)
        v["NP2.4_shank"] = shank
        yield f"NP2.4_shank={shank}", v
    if isinstance(md.get("imroTbl"), str) and "(0 0 0 500 250 1)" in md["imroTbl"]:
        # NP1 tables: a different gain pair for every channel, null gains, empty fields
        prng = np.random.default_rng(4)
        entries = [f"({i} 0 0 {prng.choice([50, 125, 250, 500, 1000, 1500, 2000, 3000])} "
                   f"{prng.choice([50, 125, 250, 500, 1000])} 1)" for i in range(384)]
        v = copy.deepcopy(md)
        v["imroTbl"] = "(0,384)" + "".join(entries)
        yield "imroTbl random gains", v
        v = copy.deepcopy(md)
        v["imroTbl"] = "(0,384)" + "".join(entries[:100])
        yield "imroTbl short", v
        for bad, label in (("(5 0 0 0 250 1)", "null ap gain"), ("(5 0 0 500 0 1)", "null lf gain"),
                           ("(5 0 0  250 1)", "empty ap gain"), ("(5 0 0 500  1)", "empty lf gain")):
            v = copy.deepcopy(md)
            v["imroTbl"] = "(0,384)" + "".join(entries[:5] + [bad] + entries[6:])
            yield f"imroTbl {label}", v
        v = copy.deepcopy(md)
        v["imroTbl"] = "(0,384)" + "".join(entries[:5] + ["(5 0 0  250 1)", "(6 0 0 500  1)"] + entries[7:])
        yield "imroTbl empty ap gain before empty lf gain", v


def check_conversion(so, sn, metas):
    for name, md in metas.items():
        for vname, v in meta_variants(md):
            vo, vn = copy.deepcopy(v), copy.deepcopy(v)
            ro, rn = check(f"s2v {name} {vname}", lambda: so._conversion_sample2v_from_meta(vo),
                           lambda: sn._conversion_sample2v_from_meta(vn))
            same(vo, v, f"s2v {name} {vname}: input mutated by original")
            same(vn, v, f"s2v {name} {vname}: input mutated by refactored")
            if isinstance(ro, dict) and len(ro) > 1:
                keys = list(ro)
                alias_o = [np.shares_memory(ro[a], ro[b]) for a in keys for b in keys if a != b]
                alias_n = [np.shares_memory(rn[a], rn[b]) for a in keys for b in keys if a != b]
                same(alias_o, alias_n, f"s2v {name} {vname}: aliasing between the returned vectors")


# ----------------------------------------------------------------------------------------------
# B. geometry
# ----------------------------------------------------------------------------------------------
def shuffled_maps(md, rng):
    """same meta-data, with the per-site entries of the shank / geometry map randomly rewritten"""
    import re
    for key in ("snsShankMap", "snsGeomMap"):
        if key not in md or not isinstance(md[key], str):
            continue
        entries = re.findall(r"\([0-9]*:[0-9]*:[0-9]*:[0-9]*\)", md[key])
        if not entries:
            continue
        head = md[key][: md[key].index(entries[0])]
        for trial in range(3):
            perm = rng.permutation(len(entries))
            v = copy.deepcopy(md)
            v[key] = head + "".join(entries[i] for i in perm)
            yield f"{key} permuted {trial}", v
        if key == "snsShankMap":
            # creative table: random shanks, columns and rows with plenty of ties
            new = [f"({rng.integers(0, 4)}:{rng.integers(0, 2)}:{rng.integers(0, 40)}:1)" for _ in entries]
            v = copy.deepcopy(md)
            v[key] = head + "".join(new)
            yield f"{key} random", v


def check_geometry(so, sn, metas, rng):
    for name, md in metas.items():
        variants = list(meta_variants(md)) + list(shuffled_maps(md, rng))
        for vname, v in variants:
            for kwargs in ({}, dict(return_index=True), dict(sort=False), dict(return_index=True, sort=False),
                           dict(return_index=True, nc=12), dict(return_index=False, nc=0, sort=True)):
                vo, vn = copy.deepcopy(v), copy.deepcopy(v)
                check(f"geometry {name} {vname} {kwargs}", lambda: so.geometry_from_meta(vo, **kwargs),
                      lambda: sn.geometry_from_meta(vn, **kwargs))
                same(vo, v, f"geometry {name} {vname}: input mutated by original")
                same(vn, v, f"geometry {name} {vname}: input mutated by refactored")
    for meta_file in sorted(FIXTURES.glob("*.meta")):
        check(f"read_geometry {meta_file.name}", lambda: so.read_geometry(meta_file), lambda: sn.read_geometry(meta_file))


# ----------------------------------------------------------------------------------------------
# C. the reader
# ----------------------------------------------------------------------------------------------
def selectors(ns, nc, rng):
    sample_sel = [
        0, 5, ns - 1, -1, -ns, ns, -ns - 1, np.int64(3), np.int16(-2),
        slice(None), slice(0, 0), slice(5, 50), slice(50, 5), slice(None, None, -1), slice(40, 3, -3),
        slice(1, None, 7), slice(-10, None), slice(None, -10), slice(-3, -30, -4), slice(ns - 5, ns + 50),
        slice(ns + 5, ns + 50), slice(-5 * ns, 7), slice(None, None, ns + 3), slice(2, 30, 1000),
        [], [0], [3, 1, 2], [5, 5, 5], [-1, 0, 1], [0, ns], np.array([], dtype=int), np.arange(10)[::-1],
        rng.integers(0, ns, 17), np.sort(rng.integers(-ns, ns, 9)), rng.random(ns) > 0.7, np.zeros(ns, dtype=bool),
        Ellipsis, None, "a", 1.5, (1, 2),
    ]
    channel_sel = [
        0, 1, nc - 1, -1, -nc, nc, -nc - 1, np.int64(nc // 2),
        slice(None), slice(0, 0), slice(None, -1), slice(1, None), slice(None, None, -1), slice(nc, None, -2),
        slice(3, nc, 5), slice(-4, None), slice(-2, -nc - 5, -7), slice(nc + 2, nc + 9), slice(None, None, nc + 1),
        [], [0], [nc - 1, 0], [1, 1, 1], [-1, -2], [0, nc], np.array([], dtype=int), np.arange(nc)[::-1],
        rng.integers(0, nc, 11), rng.permutation(nc), rng.random(nc) > 0.5, np.zeros(nc, dtype=bool),
        np.ones(nc + 1, dtype=bool), np.arange(2 * (min(nc, 6) // 2)).reshape(2, -1) if nc >= 2 else [0],
        Ellipsis, None, "a", 1.5,
    ]
    return sample_sel, channel_sel


def check_reader_pair(tag, ro, rn, rng, full=True):
    """ro and rn are readers of the same file built by the original and refactored module"""
    for attr in ("raw_channel_order", "geometry", "channel_conversion_sample2v", "sample2volts", "shape", "nc", "ns",
                 "nsync", "type", "version", "major_version", "fs", "range_volts"):
        check(f"{tag}.{attr}", lambda: getattr(ro, attr), lambda: getattr(rn, attr))
    if isinstance(call(lambda: ro.shape), Exception):
        return
    ns, nc = ro.shape
    ssel, csel = selectors(ns, nc, rng)
    if not full:
        ssel = [ssel[i] for i in sorted(rng.choice(len(ssel), 14, replace=False))] + [slice(None, None, -3), -1]
    # single selectors and tuples of every length
    for s in ssel:
        check(f"{tag}[{s!r}]", lambda: ro[s], lambda: rn[s])
        check(f"{tag}[({s!r},)]", lambda: ro[(s,)], lambda: rn[(s,)])
    check(f"{tag}[()]", lambda: ro[()], lambda: rn[()])
    check(f"{tag}[0, 0, 0]", lambda: ro[0, 0, 0], lambda: rn[0, 0, 0])
    check(f"{tag}[:, :, :, :]", lambda: ro[:, :, :, :], lambda: rn[:, :, :, :])
    check(f"{tag}[[0, 1]] (list of two is not a tuple)", lambda: ro[[0, 1]], lambda: rn[[0, 1]])
    for s in ssel:
        for c in csel:
            check(f"{tag}[{s!r}, {c!r}]", lambda: ro[s, c], lambda: rn[s, c])
    # the read / read_samples methods, with and without the sync traces
    some_c = [csel[i] for i in sorted(rng.choice(len(csel), 8, replace=False))]
    for s in ssel:
        for sync in (True, False):
            check(f"{tag}.read({s!r}, sync={sync})", lambda: ro.read(s, sync=sync), lambda: rn.read(s, sync=sync))
            for c in some_c:
                check(f"{tag}.read({s!r}, {c!r}, sync={sync})", lambda: ro.read(nsel=s, csel=c, sync=sync),
                      lambda: rn.read(nsel=s, csel=c, sync=sync))
    check(f"{tag}.read()", lambda: ro.read(), lambda: rn.read())
    for first, last in ((0, 10), (5, 5), (7, 3), (-20, -2), (0, ns + 10), (None, None), (ns - 1, None)):
        check(f"{tag}.read_samples({first}, {last})", lambda: ro.read_samples(first, last),
              lambda: rn.read_samples(first, last))
        for c in some_c:
            check(f"{tag}.read_samples({first}, {last}, {c!r})", lambda: ro.read_samples(first, last, channels=c),
                  lambda: rn.read_samples(first, last, channels=c))
    check(f"{tag}.read_samples()", lambda: ro.read_samples(), lambda: rn.read_samples())
    # reads must return fresh, writeable arrays that do not alias the file: write into them, re-read
    a, b = ro[3:9, :], rn[3:9, :]
    if isinstance(a, np.ndarray) and a.size:
        a[...] = 0
        b[...] = 0
    check(f"{tag} re-read after writing into a result", lambda: ro[3:9, :], lambda: rn[3:9, :])


def synthetic_meta_files(tdir, rng):
    """fixture meta files rewritten with per-channel gains and permuted electrode maps"""
    import re
    out_dir = Path(tdir) / "synthmeta"
    out_dir.mkdir()
    out = []
    for name in ("sample3B_g0_t0.imec1.ap.meta", "sample3B_g0_t0.imec1.lf.meta", "sample3A_g0_t0.imec.ap.meta",
                 "sampleNP2.4_4shanks_g0_t0.imec.ap.meta", "sampleNP2.4_4shanks_appVersion20230905.ap.meta"):
        lines = (FIXTURES / name).read_text().splitlines()
        for i, line in enumerate(lines):
            if line.startswith("~imroTbl=") and "NP2" not in name:
                head = line[: line.index(")") + 1]
                entries = [f"({k} 0 0 {rng.choice([50, 125, 250, 500, 1000, 1500, 2000, 3000])} "
                           f"{rng.choice([50, 125, 250, 500, 1000])} 1)" for k in range(384)]
                lines[i] = head + "".join(entries)
            if line.startswith("~snsShankMap=") or line.startswith("~snsGeomMap="):
                entries = re.findall(r"\([0-9]*:[0-9]*:[0-9]*:[0-9]*\)", line)
                head = line[: line.index(entries[0])]
                lines[i] = head + "".join(entries[k] for k in rng.permutation(len(entries)))
        target = out_dir / ("synth_" + name)
        target.write_text("\n".join(lines) + "\n")
        out.append(target)
    return out


def check_readers(so, sn, rng, tdir):
    metas = sorted(FIXTURES.glob("*.meta")) + synthetic_meta_files(tdir, rng)
    nfiles = 0
    for imeta, meta_file in enumerate(metas):
        md = so.read_meta_data(meta_file)
        nc = call(lambda: so._get_nchannels_from_meta(md))
        if isinstance(nc, Exception):
            continue
        ns = int(rng.integers(40, 90))
        bin_file = Path(tdir) / f"m{imeta}" / meta_file.with_suffix(".bin").name
        bin_file.parent.mkdir()
        mock = call(lambda: so._mock_spikeglx_file(bin_file, meta_file, ns=ns, nc=nc, sync_depth=8, random=True))
        if isinstance(mock, Exception):
            continue
        # full int16 range including the extreme values
        D = rng.integers(-32768, 32768, size=(ns, nc), dtype=np.int16)
        D[0, :] = -32768
        D[1, :] = 32767
        D[2, :] = 0
        D.tofile(bin_file)
        nfiles += 1
        for sort in (True, False):
            tag = f"{meta_file.name} sort={sort}"
            ro = call(lambda: so.Reader(bin_file, sort=sort))
            rn = call(lambda: sn.Reader(bin_file, sort=sort))
            same(type(ro).__name__, type(rn).__name__, f"{tag}: constructor outcome")
            if isinstance(ro, Exception):
                same(ro, rn, f"{tag}: constructor exception")
                continue
            check_reader_pair(tag, ro, rn, rng, full=(sort or imeta % 3 == 0))
            # the reference semantics of the property, checked on the refactored reader only
            raw = np.fromfile(bin_file, dtype=np.int16).reshape(ns, nc)
            ref = raw.astype(np.float32) * rn.channel_conversion_sample2v[rn.type].astype(np.float32)
            same(np.array_equal(rn[:, :], ref[:, rn.raw_channel_order]), True, f"{tag}: calibrated / ordered reference")
            if meta_file.name.startswith("synth_") and "NP2" not in meta_file.name:
                assert np.unique(rn.channel_conversion_sample2v[rn.type]).size > 4, "gains are expected to vary"
            if meta_file.name.startswith("synth_") and sort and ("snsShankMap" in rn.meta or "snsGeomMap" in rn.meta):
                assert not np.array_equal(rn.raw_channel_order, np.arange(nc)), f"{tag}: a permutation is expected"
            ro.close()
            rn.close()
            # closed readers and readers instantiated with open=False
            rc_o, rc_n = so.Reader(bin_file, sort=sort, open=False), sn.Reader(bin_file, sort=sort, open=False)
            check(f"{tag} not open [0:4]", lambda: rc_o[0:4], lambda: rc_n[0:4])
            check(f"{tag} not open read", lambda: rc_o.read(), lambda: rc_n.read())
            check(f"{tag} from meta file", lambda: so.Reader(bin_file.with_suffix(".meta"), sort=sort)[4:9, ::-3],
                  lambda: sn.Reader(bin_file.with_suffix(".meta"), sort=sort)[4:9, ::-3])
    assert nfiles >= 10, nfiles

    # compressed files: one NP1 and one NP2.4 four shanks
    for imeta, name in enumerate(("sample3B_g0_t0.imec1.ap.meta", "sampleNP2.4_4shanks_g0_t0.imec.ap.meta")):
        meta_file = FIXTURES / name
        nc, ns = 385, 3211
        bin_file = Path(tdir) / f"c{imeta}" / meta_file.with_suffix(".bin").name
        bin_file.parent.mkdir()
        so._mock_spikeglx_file(bin_file, meta_file, ns=ns, nc=nc, sync_depth=8, random=True)
        D = rng.integers(-32768, 32768, size=(ns, nc), dtype=np.int16)
        D.tofile(bin_file)
        with so.Reader(bin_file) as sr:
            cbin_file = sr.compress_file(keep_original=True, chunk_duration=0.03)
        for sort in (True, False):
            tag = f"cbin {name} sort={sort}"
            ro, rn = so.Reader(cbin_file, sort=sort), sn.Reader(cbin_file, sort=sort)
            assert ro.is_mtscomp and rn.is_mtscomp
            check_reader_pair(tag, ro, rn, rng, full=False)
            with sn.Reader(bin_file, sort=sort) as rb:
                same(rn[:, :], rb[:, :], f"{tag}: compressed vs flat binary")
            ro.close()
            rn.close()

    # flat binaries without any meta-data (no raw_channel_order attribute)
    for icase, (nc, dtype, kwargs) in enumerate((
            (385, "int16", {}), (384, "int16", {}), (7, "int16", dict(nc=7, ns=53, fs=2500, nsync=2)),
            (5, "float32", dict(nc=5, ns=53, fs=1000, dtype="float32")),
            (5, "float32", dict(nc=5, ns=53, fs=1000, dtype="float32", s2v=2.5)), (3, "int16", dict(fs=10)))):
        ns = 53
        bin_file = Path(tdir) / f"flat{icase}.bin"
        if dtype == "int16":
            rng.integers(-32768, 32768, size=(ns, nc), dtype=np.int16).tofile(bin_file)
        else:
            rng.standard_normal((ns, nc)).astype(np.float32).tofile(bin_file)
        tag = f"flat {nc} {dtype} {kwargs}"
        ro, rn = call(lambda: so.Reader(bin_file, **kwargs)), call(lambda: sn.Reader(bin_file, **kwargs))
        same(type(ro).__name__, type(rn).__name__, f"{tag}: constructor outcome")
        if isinstance(ro, Exception):
            same(ro, rn, f"{tag}: constructor exception")
            continue
        same(hasattr(ro, "raw_channel_order"), hasattr(rn, "raw_channel_order"), f"{tag}: raw_channel_order attribute")
        check_reader_pair(tag, ro, rn, rng, full=False)
        ro.close()
        rn.close()


def main():
    logging.disable(logging.CRITICAL)
    TMP.mkdir(exist_ok=True)
    orig_src, new_src, how, changed = _prepare_sources()
    so, sn = _load(orig_src), _load(new_src)
    assert so is not sn and Path(so.__file__).parent == orig_src and Path(sn.__file__).parent == new_src
    assert so.neuropixel is not sn.neuropixel
    print(f"original   : {so.__file__}")
    print(f"refactored : {sn.__file__}  [{how}; files differing: {', '.join(map(str, changed))}]")
    rng = np.random.default_rng(20261002 + N)
    metas = {p.name: so.read_meta_data(p) for p in sorted(FIXTURES.glob("*.meta"))}
    try:
        check_conversion(so, sn, metas)
        check_geometry(so, sn, metas, rng)
        with tempfile.TemporaryDirectory(dir=TMP, prefix=f"eq{N}_") as tdir:
            check_readers(so, sn, rng, tdir)
    except Mismatch as e:
        print(f"DIFFERENT: {e}")
        return 1
    print(f"{NCHECKS} paired calls compared")
    print("EQUIVALENT")
    return 0


if __name__ == "__main__":
    sys.exit(main())
