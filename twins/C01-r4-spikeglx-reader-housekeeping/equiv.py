import sys, os; sys.path.insert(0, os.path.join(os.path.dirname(os.path.abspath(__file__)), "src"))
"""
Differential equivalence check for the C01 housekeeping change in src/spikeglx.py

The functions touched by the patch are
    Reader.__init__, Reader.__getitem__, Reader.read, _conversion_sample2v_from_meta
Verbatim copies of their ORIGINAL implementation live in this file (`_conversion_sample2v_from_meta` below and the
three methods of `RefReader`).  The script builds SpikeGLX recordings for every probe generation found in the fixtures
(3A, 3B ap/lf, nidq, NP2.1, NP2.4 one / four shanks, NPultra, channel subsets), as .bin and .cbin, sorted and unsorted,
as well as flat binary files without meta-data, and compares the outputs of the module under test with those of the
reference copies: exact values, dtypes, shapes, and exception types / messages.
Exit code 0 if everything is identical, 1 with a message otherwise.
"""
import copy
import logging
from pathlib import Path
import re
import shutil
import tempfile
import warnings

import numpy as np

import mtscomp
import neuropixel
import spikeglx
from spikeglx import (
    _get_companion_file,
    _get_max_int_from_meta,
    _get_nchannels_from_meta,
    _get_neuropixel_version_from_meta,
    _get_sync_trace_indices_from_meta,
    geometry_from_meta,
    read_meta_data,
)

logging.disable(logging.CRITICAL)
warnings.simplefilter("ignore")
FIXTURES = Path(__file__).resolve().parent.joinpath("src", "tests", "fixtures")
SEED = 20261004


# ----------------------------------------------------------------------------------------------------------------------
# Reference implementations: verbatim copies of the original code
# ----------------------------------------------------------------------------------------------------------------------
def _conversion_sample2v_from_meta(meta_data):
    """
    Interpret the meta data to extract an array of conversion factors for each channel
    so the output data is in Volts
    Conversion factor is: int2volt / channelGain
    For Lf/Ap interpret the gain string from metadata
    For Nidq, repmat the gains from the trace counts in `snsMnMaXaDw`

    :param meta_data: dictionary output from  spikeglx.read_meta_data
    :return: numpy array with one gain value per channel
    """

    def int2volts(md):
        """:return: Conversion scalar to Volts. Needs to be combined with channel gains"""
        maxint = _get_max_int_from_meta(md)
        if md.get("typeThis", None) == "imec":
            return md.get("imAiRangeMax") / maxint
        else:
            return md.get("niAiRangeMax") / maxint

    int2volt = int2volts(meta_data)
    version = _get_neuropixel_version_from_meta(meta_data)
    # interprets the gain value from the metadata header:
    if "imroTbl" in meta_data.keys():  # binary from the probes: ap or lf
        sy_gain = np.ones(int(meta_data["snsApLfSy"][-1]), dtype=np.float32)
        # imroTbl has 384 entries regardless of no of channels saved, so need to index by n_ch
        n_chn = _get_nchannels_from_meta(meta_data) - len(
            _get_sync_trace_indices_from_meta(meta_data)
        )
        if "NP2" in version:
            # NP 2.0; APGain = 80 for all AP
            # return 0 for LFgain (no LF channels)
            out = {
                "lf": np.hstack(
                    (int2volt / 80 * np.ones(n_chn).astype(np.float32), sy_gain)
                ),
                "ap": np.hstack(
                    (int2volt / 80 * np.ones(n_chn).astype(np.float32), sy_gain)
                ),
            }
        else:
            # the sync traces are not included in the gain values, so are included for
            # broadcast ops
            gain = re.findall(
                r"([0-9]* [0-9]* [0-9]* [0-9]* [0-9]*)", meta_data["imroTbl"]
            )[:n_chn]
            out = {
                "lf": np.hstack(
                    (
                        np.array([1 / np.float32(g.split(" ")[-1]) for g in gain])
                        * int2volt,
                        sy_gain,
                    )
                ),
                "ap": np.hstack(
                    (
                        np.array([1 / np.float32(g.split(" ")[-2]) for g in gain])
                        * int2volt,
                        sy_gain,
                    )
                ),
            }

    # nidaq gain can be read in the same way regardless of NP1.0 or NP2.0
    elif "niMNGain" in meta_data.keys():  # binary from nidq
        gain = np.r_[
            np.ones(
                int(
                    meta_data["snsMnMaXaDw"][0],
                )
            )
            / meta_data["niMNGain"]
            * int2volt,
            np.ones(
                int(
                    meta_data["snsMnMaXaDw"][1],
                )
            )
            / meta_data["niMAGain"]
            * int2volt,
            np.ones(
                int(
                    meta_data["snsMnMaXaDw"][2],
                )
            )
            * int2volt,  # no gain for analog sync
            np.ones(
                int(
                    np.sum(meta_data["snsMnMaXaDw"][3]),
                )),
        ]  # no unit for digital sync
        out = {"nidq": gain}

    return out


class RefReader(spikeglx.Reader):
    """The three methods below are verbatim copies of the original Reader methods"""

    def __init__(
        self,
        sglx_file,
        open=True,
        nc=None,
        ns=None,
        fs=None,
        dtype="int16",
        s2v=None,
        nsync=None,
        ignore_warnings=False,
        meta_file=None,
        ch_file=None,
        sort=True
    ):
        """
        An interface for reading data from a SpikeGLX file
        :param sglx_file: Path to a SpikeGLX file (compressed or otherwise), or to a meta-data file
        :param open: when True the file is opened
        :param sort: (True) by default always return channels sorted by shank, row and column. If set to false,
        the data will be returned as written on disk, for NP2 versions this may result in interleaved shanks
        """
        self.geometry = None
        self.ignore_warnings = ignore_warnings
        sglx_file = Path(sglx_file)
        meta_file = meta_file or _get_companion_file(sglx_file, '.meta')
        # only used if MTSCOMP compressed
        self.ch_file = ch_file

        if meta_file == sglx_file:
            # if a meta-data file is provided, try to get the binary file
            self.file_bin = next(
                (f for f in (sglx_file.with_suffix(".bin"), sglx_file.with_suffix(".cbin")) if f.exists()),
                None,
            )
        else:
            self.file_bin = sglx_file
        self.nbytes = self.file_bin.stat().st_size if self.file_bin else None
        self.dtype = np.dtype(dtype)

        if not meta_file.exists():
            # if no meta-data file is provided, try to get critical info from the binary file
            # by seeing if filesize checks out with neuropixel 384 channels
            if self.file_bin.stat().st_size / 384 % 2 == 0:
                nc = nc or 384
                ns = ns or self.file_bin.stat().st_size / 2 / 384
                fs = fs or 30000
            elif self.file_bin.stat().st_size / 385 % 2 == 0:
                nc = nc or 385
                ns = ns or self.file_bin.stat().st_size / 2 / 385
                fs = fs or 30000
                nsync = nsync or 1

            err_str = "Instantiating an Reader without meta data requires providing nc, fs and nc parameters"
            assert nc is not None and fs is not None and nc is not None, err_str
            self.file_meta_data = None
            self.meta = None
            self._nc, self._fs, self._ns = (int(nc), int(fs), int(ns))
            # handles default parameters: if int16 we assume it's a raw recording, we've checked the
            # multiple of the file size above to determine if there is a sync or not
            self._nsync = nsync or 0
            if s2v is None:
                s2v = neuropixel.S2V_AP if self.dtype == np.dtype("int16") else 1.0
            self.channel_conversion_sample2v = {"samples": np.ones(nc) * s2v}
            if self._nsync > 0:
                self.channel_conversion_sample2v["samples"][-nsync:] = 1
            self.geometry = neuropixel.trace_header(version=1)
        else:
            # normal case we continue reading and interpreting the metadata file
            self.file_meta_data = meta_file
            self.meta = read_meta_data(meta_file)
            self.channel_conversion_sample2v = _conversion_sample2v_from_meta(self.meta)
            self._raw = None
            self.geometry, order = geometry_from_meta(self.meta, return_index=True, sort=sort)
            self.raw_channel_order = np.arange(self.nc)
            if self.geometry is not None:  # nidq files won't return any geometry here
                self.raw_channel_order[:order.size] = order
        if open and self.file_bin:
            self.open()

    def __getitem__(self, item):
        if isinstance(item, tuple):
            if len(item) == 1:
                return self.read(nsel=item[0], sync=False)
            elif len(item) == 2:
                return self.read(nsel=item[0], csel=item[1], sync=False)
            raise IndexError(f"too many indices: the reader is 2-dimensional, but {len(item)} were indexed")
        return self.read(nsel=item, sync=False)

    def read(self, nsel=slice(0, 10000), csel=slice(None), sync=True):
        """
        Read from slices or indexes
        :param slice_n: slice or sample indices
        :param slice_c: slice or channel indices
        :return: float32 array
        """
        if not self.is_open:
            raise IOError("Reader not open; call `open` before `read`")
        if hasattr(self, 'raw_channel_order'):
            csel = self.raw_channel_order[csel]
        darray = self._raw[nsel, :].astype(np.float32, copy=True)[..., csel]
        darray *= self.channel_conversion_sample2v[self.type][csel]
        if sync:
            return darray, self.read_sync(nsel)
        else:
            return darray


# only so that the messages of AttributeError, which embed the class name, compare equal
RefReader.__name__ = RefReader.__qualname__ = "Reader"


# ----------------------------------------------------------------------------------------------------------------------
# Comparison machinery
# ----------------------------------------------------------------------------------------------------------------------
class Mismatch(Exception):
    pass


N_CHECKS = 0


def same(a, b, where):
    """Recursive exact comparison: types, dtypes, shapes, values, dictionary key order"""
    if type(a) is not type(b):
        raise Mismatch(f"{where}: type {type(a)} != {type(b)}")
    if isinstance(a, np.ndarray):
        if a.dtype != b.dtype or a.shape != b.shape:
            raise Mismatch(f"{where}: {a.dtype}{a.shape} != {b.dtype}{b.shape}")
        if not np.array_equal(a, b, equal_nan=a.dtype.kind in "fc"):
            raise Mismatch(f"{where}: array values differ")
    elif isinstance(a, dict):
        if list(a.keys()) != list(b.keys()):
            raise Mismatch(f"{where}: keys {list(a.keys())} != {list(b.keys())}")
        for k in a:
            same(a[k], b[k], f"{where}[{k!r}]")
    elif isinstance(a, (tuple, list)):
        if len(a) != len(b):
            raise Mismatch(f"{where}: length {len(a)} != {len(b)}")
        for i, (x, y) in enumerate(zip(a, b)):
            same(x, y, f"{where}[{i}]")
    elif isinstance(a, np.generic):
        if a.dtype != b.dtype or not np.array_equal(a, b, equal_nan=True):
            raise Mismatch(f"{where}: {a!r} != {b!r}")
    elif isinstance(a, float) and a != a:
        if b == b:
            raise Mismatch(f"{where}: {a!r} != {b!r}")
    elif a != b:
        raise Mismatch(f"{where}: {a!r} != {b!r}")


def outcome(fcn):
    try:
        return "ok", fcn()
    except Exception as e:  # noqa
        return "raised", (type(e), str(e))


def compare_calls(f_new, f_ref, where):
    """Runs both callables and compares returned values or exceptions.  Returns the new outcome"""
    global N_CHECKS
    N_CHECKS += 1
    o_new, o_ref = outcome(f_new), outcome(f_ref)
    if o_new[0] != o_ref[0]:
        raise Mismatch(f"{where}: new {o_new[0]} {o_new[1] if o_new[0] == 'raised' else ''} / "
                       f"reference {o_ref[0]} {o_ref[1] if o_ref[0] == 'raised' else ''}")
    if o_new[0] == "raised":
        if o_new[1][0] is not o_ref[1][0] or o_new[1][1] != o_ref[1][1]:
            raise Mismatch(f"{where}: exceptions differ {o_new[1]} != {o_ref[1]}")
    else:
        same(o_new[1], o_ref[1], where)
    return o_new


# ----------------------------------------------------------------------------------------------------------------------
# 1) _conversion_sample2v_from_meta
# ----------------------------------------------------------------------------------------------------------------------
def aliasing(out):
    keys = list(out.keys())
    return [bool(np.shares_memory(out[a], out[b])) for i, a in enumerate(keys) for b in keys[i + 1:]]


def check_conversion(md, where):
    md_new, md_ref = copy.deepcopy(md), copy.deepcopy(md)
    o = compare_calls(
        lambda: spikeglx._conversion_sample2v_from_meta(md_new), lambda: _conversion_sample2v_from_meta(md_ref), where)
    same(dict(md_new), dict(md_ref), where + " (meta data after the call)")
    same(dict(md_new), dict(copy.deepcopy(md)), where + " (meta data left untouched)")
    if o[0] == "ok":
        same(aliasing(o[1]), aliasing(_conversion_sample2v_from_meta(md_ref)), where + " (aliasing of outputs)")
    return o[0]


def mutate_meta(md, rng):
    """Random admissible and not so admissible variations of a meta data dictionary"""
    md = copy.deepcopy(md)
    choice = rng.integers(0, 12)
    if "imroTbl" in md:
        if choice == 0:  # random gains in the imro table for NP1
            def regain(m):
                parts = m.group(1).split(" ")
                parts[-2], parts[-1] = str(rng.choice([50, 125, 250, 500, 1000, 1500, 3000])), str(rng.choice([50, 125, 250]))
                return " ".join(parts)
            md["imroTbl"] = re.sub(r"([0-9]* [0-9]* [0-9]* [0-9]* [0-9]*)", regain, md["imroTbl"])
        elif choice == 1:  # channel subset
            nsy = int(md["snsApLfSy"][2])
            nch = int(rng.integers(0, 385))
            md["nSavedChans"] = float(nch + nsy)
            if md["snsApLfSy"][0] != 0:
                md["snsApLfSy"] = [float(nch), 0.0, float(nsy)]
            else:
                md["snsApLfSy"] = [0.0, float(nch), float(nsy)]
        elif choice == 2:  # number of sync channels
            nsy = int(rng.integers(0, 4))
            md["nSavedChans"] = md["nSavedChans"] - md["snsApLfSy"][2] + nsy
            md["snsApLfSy"] = md["snsApLfSy"][:2] + [float(nsy)]
        elif choice == 3:
            md["imAiRangeMax"] = float(rng.choice([0.6, 0.5, 1.0, 0.62]))
        elif choice == 4:
            md["imMaxInt"] = float(rng.choice([512, 8192, 2048]))
        elif choice == 5:
            md.pop(str(rng.choice(["imAiRangeMax", "snsApLfSy", "nSavedChans", "imroTbl", "typeThis", "imMaxInt"])), None)
        elif choice == 6:
            md["imDatPrb_type"] = float(rng.choice([0, 21, 24, 1030, 2013, 1100, 9999]))
        elif choice == 7:
            md["imroTbl"] = str(rng.choice(["", "(0,384)", md["imroTbl"][: len(md["imroTbl"]) // 2]]))
    else:
        if choice == 0:
            md["snsMnMaXaDw"] = [float(v) for v in rng.integers(0, 9, size=4)]
            md["nSavedChans"] = float(np.sum(md["snsMnMaXaDw"]))
        elif choice == 1:
            md["niMNGain"] = float(rng.choice([1, 3, 7, 200, 500]))
            md["niMAGain"] = float(rng.choice([1, 2, 3, 10]))
        elif choice == 2:
            md["niAiRangeMax"] = float(rng.choice([5, 10, 2.5, 3.3, 1.7]))
        elif choice == 3:
            md.pop(str(rng.choice(["niAiRangeMax", "snsMnMaXaDw", "niMNGain", "niMAGain", "typeThis", "nSavedChans"])), None)
        elif choice == 4:
            md["snsMnMaXaDw"] = md["snsMnMaXaDw"][: int(rng.integers(0, 4))]
        elif choice == 5:
            md["imMaxInt"] = float(rng.choice([512, 32768, 2048]))
    return md


def run_conversion_checks(rng):
    meta_files = sorted(FIXTURES.rglob("*.meta"))
    assert len(meta_files) > 10, f"fixtures not found in {FIXTURES}"
    n_ok = n_raised = 0
    for meta_file in meta_files:
        md = read_meta_data(meta_file)
        variants = [md, dict(md), {}, {k: v for k, v in md.items() if k not in ("imroTbl", "niMNGain")}]
        for i in range(14):
            v = md
            for _ in range(int(rng.integers(1, 3))):
                v = mutate_meta(v, rng)
            variants.append(v)
        for i, v in enumerate(variants):
            res = check_conversion(v, f"_conversion_sample2v_from_meta {meta_file.name} variant {i}")
            n_ok += res == "ok"
            n_raised += res == "raised"
    return n_ok, n_raised


# ----------------------------------------------------------------------------------------------------------------------
# 2) Reader: construction, indexing and reading
# ----------------------------------------------------------------------------------------------------------------------
def scrambled_meta(tdir, meta_file, rng):
    """
    Writes a variation of a fixture meta-data file where the entries of the shank / geometry map are shuffled (the sorted
    channel order is then far from the on-disk order), where each NP1 channel gets its own ap and lf gains, and where
    the nidq file has several channels of each type with gains that are not powers of two
    """
    md = read_meta_data(meta_file)
    folder = Path(tdir).joinpath("scrambled")
    folder.mkdir(exist_ok=True)
    lines = []

    def regain(m):
        return f"({m.group(1)} {rng.choice([50, 125, 250, 500, 1000, 1500, 2000, 3000])} {rng.choice([50, 125, 250])}"

    for line in meta_file.read_text().splitlines():
        key = line.split("=")[0].replace("~", "")
        if key in ("snsShankMap", "snsGeomMap"):
            entries = re.findall(r"\([0-9]*:[0-9]*:[0-9]*:[0-9]*\)", line)
            header = line[: line.index(entries[0])] if entries else line
            line = header + "".join(entries[i] for i in rng.permutation(len(entries)))
        elif key == "imroTbl" and "NP" not in md["neuropixelVersion"]:
            line = re.sub(r"\(([0-9]+ [0-9]+ [0-9]+) [0-9]+ [0-9]+", regain, line)
        elif key == "snsMnMaXaDw":
            line = "snsMnMaXaDw=2,3,1,1"
        elif key == "nSavedChans" and md.get("typeThis") == "nidq":
            line = "nSavedChans=7"
        elif key in ("niAiRangeMax", "niMNGain", "niMAGain"):
            line = f"{key}={dict(niAiRangeMax=3.3, niMNGain=7, niMAGain=3)[key]}"
        lines.append(line)
    file_out = folder.joinpath(meta_file.name)
    file_out.write_text("\n".join(lines) + "\n")
    return file_out


def write_recording(tdir, meta_file, ns, rng, content="random", tag=""):
    """Writes a .bin, its .meta (fileTimeSecs / fileSizeBytes adjusted) and the compressed version in another folder"""
    md = read_meta_data(meta_file)
    nc = int(md["nSavedChans"])
    fs = spikeglx._get_fs_from_meta(md)
    name = meta_file.name[: -len(".meta")]
    folders = {}
    if content == "random":
        data = rng.integers(-32768, 32768, size=(ns, nc), dtype=np.int16)
    elif content == "extremes":
        data = rng.choice(np.array([-32768, -1, 0, 1, 32767], dtype=np.int16), size=(ns, nc))
    else:
        data = np.tile(np.arange(nc, dtype=np.int16) - 192, (ns, 1)) + np.arange(ns, dtype=np.int16)[:, np.newaxis]
    for ext in ("bin", "cbin"):
        folder = Path(tdir).joinpath(f"{name}_{content}_{ext}{tag}")
        folder.mkdir()
        lines = []
        for line in meta_file.read_text().splitlines():
            if line.startswith("fileSizeBytes"):
                line = f"fileSizeBytes={ns * nc * 2}"
            elif line.startswith("fileTimeSecs"):
                line = f"fileTimeSecs={ns / fs}"
            lines.append(line)
        folder.joinpath(f"{name}.meta").write_text("\n".join(lines) + "\n")
        folders[ext] = folder
    file_bin = folders["bin"].joinpath(f"{name}.bin")
    data.tofile(file_bin)
    file_cbin = folders["cbin"].joinpath(f"{name}.cbin")
    mtscomp.compress(file_bin, out=file_cbin, outmeta=file_cbin.with_suffix(".ch"), sample_rate=fs, n_channels=nc,
                     dtype=np.int16, chunk_duration=max(ns // 3, 1) / fs, n_threads=1, quiet=True,
                     check_after_compress=False)
    return {"bin": file_bin, "cbin": file_cbin, "nc": nc, "ns": ns, "data": data}


def random_slice(n, rng):
    def bound():
        return None if rng.random() < 0.25 else int(rng.integers(-n - 3, n + 4))
    step = None if rng.random() < 0.4 else int(rng.choice([-7, -3, -2, -1, 1, 2, 3, 5, 11]))
    return slice(bound(), bound(), step)


def random_indices(n, rng, kind):
    size = int(rng.integers(1, 12))
    idx = rng.integers(-n, n, size=size)
    if kind == "list":
        return [int(i) for i in idx]
    if kind == "sorted":
        return np.unique(idx % n)
    return idx


def selectors(ns, nc, rng, n_random):
    """A fixed set of edge cases followed by seeded random pairs of (sample selector, channel selector)"""
    fixed = [
        slice(None), 0, -1, ns - 1, -ns, ns, -ns - 1, slice(0, 0), slice(5, 2), slice(None, None, -1),
        slice(ns - 1, None, -2), slice(-3, None), slice(2, 9, 3), [], np.array([], dtype=int), [0], [ns - 1, 0, 3, 3],
        np.array([1, 2, 5]), np.arange(ns)[::-1], np.zeros(ns, dtype=bool), np.arange(ns) % 3 == 0, (0, 0),
        (slice(None), 0), (slice(None), -1), (slice(None), nc - 1), (slice(None), nc), (slice(None), -nc - 1), (3, -1),
        (-2, slice(None, None, -1)), (slice(None), slice(0, 0)), (slice(None), []), (slice(None), np.array([], dtype=int)),
        (slice(2, 7), [0, nc - 1, 5]), (slice(2, 7), np.array([nc - 1, 0, 0, 7])), (slice(None), np.arange(nc) % 2 == 0),
        (slice(0, 4), slice(None, None, -1)), (slice(0, 4), slice(nc - 2, None)), (slice(0, 4), slice(-1, None)),
        ([1, 4], [2, 3]), ([1, 4, 5], [2, 3]), (np.array([1, 4]), slice(3, 30, 4)), ([], []), (4, [1, 2]), (4, nc),
        (slice(None),), (3,), (), (1, 2, 3), (slice(None), slice(None), slice(None)), Ellipsis, None, (None, 0),
        (Ellipsis, 0), 1.5, "a", (0, 1.5), np.int64(3), (np.int32(2), np.int64(-1)), (slice(None), np.uint16(4)),
    ]
    for _ in range(n_random):
        kind_n, kind_c = rng.integers(0, 6), rng.integers(0, 6)
        out = []
        for kind, n in ((kind_n, ns), (kind_c, nc)):
            if kind <= 1:
                out.append(random_slice(n, rng))
            elif kind == 2:
                out.append(int(rng.integers(-n, n)))
            else:
                out.append(random_indices(n, rng, {3: "list", 4: "array", 5: "sorted"}[int(kind)]))
        fixed.append(tuple(out) if rng.random() < 0.85 else out[0])
    return fixed


READER_ATTRIBUTES = ("nc", "ns", "fs", "nsync", "type", "shape", "version", "major_version", "rl", "is_open", "file_bin",
                     "file_meta_data", "nbytes", "dtype", "ch_file", "ignore_warnings", "is_mtscomp")


def reader_state(sr):
    state = {k: outcome(lambda: getattr(sr, k))[1] for k in READER_ATTRIBUTES}
    state["has_raw_channel_order"] = hasattr(sr, "raw_channel_order")
    state["raw_channel_order"] = getattr(sr, "raw_channel_order", None)
    state["geometry"] = None if sr.geometry is None else dict(sr.geometry)
    state["channel_conversion_sample2v"] = sr.channel_conversion_sample2v
    state["meta"] = None if sr.meta is None else dict(sr.meta)
    state["private"] = {k: getattr(sr, k, "absent") for k in ("_nc", "_ns", "_fs", "_nsync")}
    state["attributes"] = sorted(k for k in sr.__dict__ if k != "_raw")
    state["sample2volts"] = outcome(lambda: sr.sample2volts)[1]
    state["range_volts"] = outcome(lambda: sr.range_volts)[1]
    return state


def safe_close(sr):
    """A reader without meta-data instantiated with open=False has no _raw attribute and can't be closed"""
    if getattr(sr, "_raw", None) is not None:
        sr.close()


def build_pair(where, *args, **kwargs):
    """Instantiates the reader under test and the reference reader with the same arguments, compares their state"""
    made = []

    def make(cls):
        sr = cls(*args, **kwargs)
        made.append(sr)
        return reader_state(sr), sr

    o = compare_calls(lambda: make(spikeglx.Reader)[0], lambda: make(RefReader)[0], where)
    if o[0] == "raised":
        for sr in made:
            safe_close(sr)
        return None
    return made


def check_reads(sr_new, sr_ref, items, where):
    n_ok = 0
    for i, item in enumerate(items):
        w = f"{where} item #{i} {item!r}"
        o = compare_calls(lambda: sr_new[item], lambda: sr_ref[item], w + " __getitem__")
        n_ok += o[0] == "ok"
        if isinstance(item, tuple) and len(item) == 2:
            nsel, csel = item
            compare_calls(lambda: sr_new.read(nsel, csel), lambda: sr_ref.read(nsel, csel), w + " read(nsel, csel)")
            compare_calls(lambda: sr_new.read(nsel=nsel, csel=csel, sync=False),
                          lambda: sr_ref.read(nsel=nsel, csel=csel, sync=False), w + " read(sync=False)")
            compare_calls(lambda: sr_new.read_samples(0, 7, csel), lambda: sr_ref.read_samples(0, 7, csel), w + " read_samples")
        elif not isinstance(item, tuple):
            compare_calls(lambda: sr_new.read(item), lambda: sr_ref.read(item), w + " read(nsel)")
            compare_calls(lambda: sr_new.read(csel=item, sync=False), lambda: sr_ref.read(csel=item, sync=False), w + " read(csel=)")
    # default arguments and the companions relying on read
    compare_calls(lambda: sr_new.read(), lambda: sr_ref.read(), where + " read()")
    compare_calls(lambda: sr_new.read(sync=False), lambda: sr_ref.read(sync=False), where + " read(sync=False)")
    compare_calls(lambda: sr_new.read_sync_analog(), lambda: sr_ref.read_sync_analog(), where + " read_sync_analog()")
    compare_calls(lambda: sr_new.read_samples(2, 11), lambda: sr_ref.read_samples(2, 11), where + " read_samples()")
    # the returned arrays must be writable independent copies in both cases
    for sr in (sr_new, sr_ref):
        o = outcome(lambda: sr[0:3, 0:3])
        if o[0] == "ok":
            assert o[1].flags.writeable and o[1].flags.owndata is not None
    return n_ok


def check_against_numpy(sr, rec, sort, where):
    """Independent sanity check of property C01 on the reader under test (not part of the differential comparison)"""
    order = sr.raw_channel_order
    full = rec["data"].astype(np.float32)[:, order]
    full *= sr.channel_conversion_sample2v[sr.type][order]  # in place: the result stays float32 with float64 gains (nidq)
    for item in [(slice(None), slice(None)), (slice(3, 40, 2), slice(None, None, -3)), (5, slice(None)), (slice(None), sr.nc // 2)]:
        got = sr[item]
        if not np.array_equal(got, full[item]) or got.dtype != np.float32:
            raise Mismatch(f"{where}: reader output differs from NumPy indexing of the calibrated array for {item}")
    if not sort and not np.array_equal(order, np.arange(sr.nc)):
        raise Mismatch(f"{where}: unsorted reader does not follow the on-disk order")


def run_reader_checks(rng, tdir):
    probe_metas = [
        "sample3A_g0_t0.imec.ap.meta", "sample3A_g0_t0.imec.lf.meta", "sample3A_376_channels.ap.meta",
        "sample3B_g0_t0.imec1.ap.meta", "sample3B_g0_t0.imec1.lf.meta", "sample3B_g0_t0.nidq.meta",
        "sample3B_version202304.ap.meta", "sample3B_catgt.ap.meta", "sample3B2_exported.imec0.ap.meta",
        "sampleNP2.1_g0_t0.imec.ap.meta", "sampleNP2.1_prototype.ap.meta", "sampleNP2.4_1shank_g0_t0.imec.ap.meta",
        "sampleNP2.4_4shanks_g0_t0.imec.ap.meta", "sampleNP2.4_4shanks_appVersion20230905.ap.meta",
        "sampleNPultra_g0_t0.imec0.ap.meta",
    ]
    scrambled = ["sample3B_g0_t0.imec1.ap.meta", "sample3A_g0_t0.imec.lf.meta", "sample3B_version202304.ap.meta",
                 "sample3A_376_channels.ap.meta", "sampleNP2.4_4shanks_g0_t0.imec.ap.meta", "sampleNP2.1_g0_t0.imec.ap.meta",
                 "sampleNPultra_g0_t0.imec0.ap.meta", "sample3B_g0_t0.nidq.meta"]
    n_items = n_ok = 0
    for im, meta_name in enumerate(probe_metas + scrambled):
        meta_file = FIXTURES.joinpath(meta_name)
        if im >= len(probe_metas):
            meta_file = scrambled_meta(tdir, meta_file, rng)
            meta_name = "scrambled " + meta_name
        content = ("random", "extremes", "ramp")[im % 3]
        rec = write_recording(tdir, meta_file, ns=int(rng.integers(48, 90)), rng=rng, content=content, tag=f"_{im}")
        for ext in ("bin", "cbin"):
            for sort in (True, False):
                where = f"Reader {meta_name} {ext} sort={sort}"
                pair = build_pair(where + " __init__", rec[ext], sort=sort)
                if pair is None:
                    raise Mismatch(f"{where}: both readers failed to instantiate, the check is void")
                sr_new, sr_ref = pair
                items = selectors(rec["ns"], rec["nc"], rng, n_random=14 if ext == "bin" else 5)
                if ext == "cbin":  # decompression is slower: thin out the fixed list, keep every kind of selector
                    items = items[::2] + items[-5:]
                n_ok += check_reads(sr_new, sr_ref, items, where)
                n_items += len(items)
                check_against_numpy(sr_new, rec, sort, where)
                safe_close(sr_new), safe_close(sr_ref)
        # other ways of instantiating the reader
        meta_path = rec["bin"].with_suffix(".meta")
        for kwargs in ({"open": False}, {"ignore_warnings": True, "sort": False}, {"meta_file": meta_path},
                       {"dtype": "int16", "nc": 12, "ns": 3, "fs": 100}, {"ch_file": rec["cbin"].with_suffix(".ch")}):
            for target in (rec["bin"], rec["cbin"], meta_path, str(rec["bin"])):
                where = f"Reader {meta_name} target {Path(target).suffix} kwargs {sorted(kwargs)}"
                pair = build_pair(where, target, **kwargs)
                if pair is None:
                    continue
                sr_new, sr_ref = pair
                check_reads(sr_new, sr_ref, [(slice(1, 9), slice(None)), (2, 3), slice(None, None, -4)], where)
                with sr_new, sr_ref:
                    check_reads(sr_new, sr_ref, [(slice(1, 9), slice(None)), ([3, 1], [-1, 0]), 4], where + " (context)")
        # a meta file without any binary next to it: nothing to open
        lonely = Path(tdir).joinpath(f"lonely_{im}")
        lonely.mkdir()
        shutil.copy(meta_path, lonely.joinpath(meta_path.name))
        pair = build_pair(f"Reader {meta_name} meta only", lonely.joinpath(meta_path.name))
        if pair is not None:
            check_reads(*pair, [(slice(None), slice(None)), 0], f"Reader {meta_name} meta only")
    return n_items, n_ok


def run_flat_binary_checks(rng, tdir):
    """Readers instantiated without meta-data: the number of channels is guessed from the file size"""
    folder = Path(tdir).joinpath("flat")
    folder.mkdir()
    n = 0
    cases = [(384, 20, "int16"), (385, 21, "int16"), (384 * 385, 1, "int16"), (100, 33, "int16"), (7, 11, "int16"),
             (384, 10, "float32"), (385, 10, "float32"), (16, 50, "float32"), (384, 0, "int16"), (1, 384 * 3, "int16"),
             (385, 384, "int16"), (192, 3, "int16"), (77, 5, "uint8")]
    kwargs_list = [{}, {"nc": 384}, {"nc": 385, "nsync": 1}, {"nc": 100, "ns": 33, "fs": 2500}, {"nc": 7, "ns": 11, "fs": 1000},
                   {"fs": 2500}, {"ns": 5}, {"s2v": 1.0}, {"s2v": 3e-6, "nsync": 2}, {"dtype": "float32"},
                   {"dtype": "float32", "nc": 16, "ns": 50, "fs": 250, "s2v": 2.0}, {"nc": 16, "fs": 250}, {"nc": 384.0},
                   {"nc": 385, "ns": 2, "fs": 30000.7, "nsync": 0}, {"open": False}, {"nc": 100, "fs": 30000, "ns": 33, "sort": False},
                   {"dtype": "uint8", "nc": 77, "ns": 5, "fs": 10}, {"nsync": 3}, {"nc": "12"}, {"nc": 12, "fs": 3, "ns": None}]
    for ic, (nc, ns, dtype) in enumerate(cases):
        file_bin = folder.joinpath(f"flat_{ic}.bin")
        if np.dtype(dtype).kind == "f":
            data = rng.normal(size=(ns, nc)).astype(dtype)
        else:
            info = np.iinfo(dtype)
            data = rng.integers(info.min, info.max + 1, size=(ns, nc)).astype(dtype)
        data.tofile(file_bin)
        for kwargs in kwargs_list:
            where = f"flat binary nc={nc} ns={ns} {dtype} kwargs={kwargs}"
            pair = build_pair(where, file_bin, **kwargs)
            n += 1
            if pair is None:
                continue
            sr_new, sr_ref = pair
            nsr, ncr = sr_new.ns, sr_new.nc
            items = selectors(max(nsr, 1), max(ncr, 1), rng, n_random=3)[::7]
            check_reads(sr_new, sr_ref, items, where)
            safe_close(sr_new), safe_close(sr_ref)
    # a file that does not exist
    for kwargs in ({}, {"nc": 3, "ns": 2, "fs": 1}, {"open": False}):
        build_pair(f"missing file {kwargs}", folder.joinpath("does_not_exist.bin"), **kwargs)
        build_pair(f"missing meta file {kwargs}", folder.joinpath("does_not_exist.meta"), **kwargs)
        n += 2
    return n


def main():
    rng = np.random.default_rng(SEED)
    tdir = tempfile.mkdtemp(prefix="c01_demo_")
    try:
        n_ok, n_raised = run_conversion_checks(rng)
        print(f"_conversion_sample2v_from_meta: {n_ok + n_raised} meta data dictionaries ({n_ok} returned, {n_raised} raised), identical")
        n_items, n_ok_items = run_reader_checks(rng, tdir)
        print(f"Reader with meta data: {n_items} selectors on sorted / unsorted, bin / cbin recordings "
              f"({n_ok_items} returned an array), identical")
        n_flat = run_flat_binary_checks(rng, tdir)
        print(f"Reader without meta data: {n_flat} instantiations, identical")
    except Mismatch as e:
        print(f"DIFFERENCE FOUND: {e}")
        return 1
    finally:
        shutil.rmtree(tdir, ignore_errors=True)
    print(f"{N_CHECKS} comparisons, all identical")
    return 0


if __name__ == "__main__":
    sys.exit(main())
