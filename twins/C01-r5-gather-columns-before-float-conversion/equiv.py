import sys, os; sys.path.insert(0, os.path.join(os.path.dirname(os.path.abspath(__file__)), "src"))
"""
Differential equivalence check for the performance clean-up of src/spikeglx.py
(Reader.__init__, Reader.read, _conversion_sample2v_from_meta).

The ORIGINAL implementations of the three functions are embedded verbatim below (section REFERENCE) and
are compared against whatever `import spikeglx` provides (patched or not) on a few thousand seeded random
and edge-case inputs: results must have the same python type, dtype, shape, bytes, contiguity flags, and
the same exception type has to be raised when one is raised.  Exit code 0: all identical, 1 otherwise.
"""
import logging
import re
import shutil
import tempfile
import time
import warnings
from pathlib import Path

import numpy as np
import mtscomp

import neuropixel
import spikeglx
from spikeglx import (  # noqa  names the verbatim reference copies rely on
    _get_companion_file, read_meta_data, geometry_from_meta, _get_max_int_from_meta,
    _get_neuropixel_version_from_meta, _get_nchannels_from_meta, _get_sync_trace_indices_from_meta,
)

logging.getLogger("ibllib").setLevel(logging.CRITICAL)
logging.getLogger("mtscomp").setLevel(logging.CRITICAL)
warnings.simplefilter("ignore")
T0 = time.time()
SEED = 20261004
HERE = Path(os.path.dirname(os.path.abspath(__file__)))
FIXTURES = HERE.joinpath("src", "tests", "fixtures")

# =====================================================================================================
# REFERENCE: verbatim copies of the original implementations (HEAD of the worktree)
# =====================================================================================================
def _conversion_sample2v_from_meta(meta_data):
    """
    Interpret the meta data to extract an array of conversion factors for each channel
    so the output data is in Volts
    Conversion factor is: int2volt / channelGain
    For Lf/Ap interpret the gain string from metadata
    For Nidq, repmat the gains from the trace counts in `snsMnMaXaDw`

    :param meta_data: dictionary output from  spikeglx.read_meta_data
    :return: numpy array with one gain value per channel
    """

    def int2volts(md):
        """:return: Conversion scalar to Volts. Needs to be combined with channel gains"""
        maxint = _get_max_int_from_meta(md)
        if md.get("typeThis", None) == "imec":
            return md.get("imAiRangeMax") / maxint
        else:
            return md.get("niAiRangeMax") / maxint

    int2volt = int2volts(meta_data)
    version = _get_neuropixel_version_from_meta(meta_data)
    # interprets the gain value from the metadata header:
    if "imroTbl" in meta_data.keys():  # binary from the probes: ap or lf
        sy_gain = np.ones(int(meta_data["snsApLfSy"][-1]), dtype=np.float32)
        # imroTbl has 384 entries regardless of no of channels saved, so need to index by n_ch
        n_chn = _get_nchannels_from_meta(meta_data) - len(
            _get_sync_trace_indices_from_meta(meta_data)
        )
        if "NP2" in version:
            # NP 2.0; APGain = 80 for all AP
            # return 0 for LFgain (no LF channels)
            out = {
                "lf": np.hstack(
                    (int2volt / 80 * np.ones(n_chn).astype(np.float32), sy_gain)
                ),
                "ap": np.hstack(
                    (int2volt / 80 * np.ones(n_chn).astype(np.float32), sy_gain)
                ),
            }
        else:
            # the sync traces are not included in the gain values, so are included for
            # broadcast ops
            gain = re.findall(
                r"([0-9]* [0-9]* [0-9]* [0-9]* [0-9]*)", meta_data["imroTbl"]
            )[:n_chn]
            out = {
                "lf": np.hstack(
                    (
                        np.array([1 / np.float32(g.split(" ")[-1]) for g in gain])
                        * int2volt,
                        sy_gain,
                    )
                ),
                "ap": np.hstack(
                    (
                        np.array([1 / np.float32(g.split(" ")[-2]) for g in gain])
                        * int2volt,
                        sy_gain,
                    )
                ),
            }

    # nidaq gain can be read in the same way regardless of NP1.0 or NP2.0
    elif "niMNGain" in meta_data.keys():  # binary from nidq
        gain = np.r_[
            np.ones(
                int(
                    meta_data["snsMnMaXaDw"][0],
                )
            )
            / meta_data["niMNGain"]
            * int2volt,
            np.ones(
                int(
                    meta_data["snsMnMaXaDw"][1],
                )
            )
            / meta_data["niMAGain"]
            * int2volt,
            np.ones(
                int(
                    meta_data["snsMnMaXaDw"][2],
                )
            )
            * int2volt,  # no gain for analog sync
            np.ones(
                int(
                    np.sum(meta_data["snsMnMaXaDw"][3]),
                )),
        ]  # no unit for digital sync
        out = {"nidq": gain}

    return out


class RefReader(spikeglx.Reader):
    """spikeglx.Reader with the original __init__ and read, everything else is inherited"""

    def __init__(
        self,
        sglx_file,
        open=True,
        nc=None,
        ns=None,
        fs=None,
        dtype="int16",
        s2v=None,
        nsync=None,
        ignore_warnings=False,
        meta_file=None,
        ch_file=None,
        sort=True
    ):
        """
        An interface for reading data from a SpikeGLX file
        :param sglx_file: Path to a SpikeGLX file (compressed or otherwise), or to a meta-data file
        :param open: when True the file is opened
        :param sort: (True) by default always return channels sorted by shank, row and column. If set to false,
        the data will be returned as written on disk, for NP2 versions this may result in interleaved shanks
        """
        self.geometry = None
        self.ignore_warnings = ignore_warnings
        sglx_file = Path(sglx_file)
        meta_file = meta_file or _get_companion_file(sglx_file, '.meta')
        # only used if MTSCOMP compressed
        self.ch_file = ch_file

        if meta_file == sglx_file:
            # if a meta-data file is provided, try to get the binary file
            self.file_bin = next(
                (f for f in (sglx_file.with_suffix(".bin"), sglx_file.with_suffix(".cbin")) if f.exists()),
                None,
            )
        else:
            self.file_bin = sglx_file
        self.nbytes = self.file_bin.stat().st_size if self.file_bin else None
        self.dtype = np.dtype(dtype)

        if not meta_file.exists():
            # if no meta-data file is provided, try to get critical info from the binary file
            # by seeing if filesize checks out with neuropixel 384 channels
            if self.file_bin.stat().st_size / 384 % 2 == 0:
                nc = nc or 384
                ns = ns or self.file_bin.stat().st_size / 2 / 384
                fs = fs or 30000
            elif self.file_bin.stat().st_size / 385 % 2 == 0:
                nc = nc or 385
                ns = ns or self.file_bin.stat().st_size / 2 / 385
                fs = fs or 30000
                nsync = nsync or 1

            err_str = "Instantiating an Reader without meta data requires providing nc, fs and nc parameters"
            assert nc is not None and fs is not None and nc is not None, err_str
            self.file_meta_data = None
            self.meta = None
            self._nc, self._fs, self._ns = (int(nc), int(fs), int(ns))
            # handles default parameters: if int16 we assume it's a raw recording, we've checked the
            # multiple of the file size above to determine if there is a sync or not
            self._nsync = nsync or 0
            if s2v is None:
                s2v = neuropixel.S2V_AP if self.dtype == np.dtype("int16") else 1.0
            self.channel_conversion_sample2v = {"samples": np.ones(nc) * s2v}
            if self._nsync > 0:
                self.channel_conversion_sample2v["samples"][-nsync:] = 1
            self.geometry = neuropixel.trace_header(version=1)
        else:
            # normal case we continue reading and interpreting the metadata file
            self.file_meta_data = meta_file
            self.meta = read_meta_data(meta_file)
            self.channel_conversion_sample2v = _conversion_sample2v_from_meta(self.meta)
            self._raw = None
            self.geometry, order = geometry_from_meta(self.meta, return_index=True, sort=sort)
            self.raw_channel_order = np.arange(self.nc)
            if self.geometry is not None:  # nidq files won't return any geometry here
                self.raw_channel_order[:order.size] = order
        if open and self.file_bin:
            self.open()

    def read(self, nsel=slice(0, 10000), csel=slice(None), sync=True):
        """
        Read from slices or indexes
        :param slice_n: slice or sample indices
        :param slice_c: slice or channel indices
        :return: float32 array
        """
        if not self.is_open:
            raise IOError("Reader not open; call `open` before `read`")
        if hasattr(self, 'raw_channel_order'):
            csel = self.raw_channel_order[csel]
        darray = self._raw[nsel, :].astype(np.float32, copy=True)[..., csel]
        darray *= self.channel_conversion_sample2v[self.type][csel]
        if sync:
            return darray, self.read_sync(nsel)
        else:
            return darray


# =====================================================================================================
# comparison helpers
# =====================================================================================================
N_CHECKS = {"conversion": 0, "init": 0, "read": 0, "raised": 0}
FAILURES = []


def fail(msg):
    FAILURES.append(msg)
    if len(FAILURES) <= 20:
        print("MISMATCH:", msg)


def call(fcn, *args, **kwargs):
    """:return: (result, None) or (None, exception)"""
    try:
        return fcn(*args, **kwargs), None
    except Exception as e:  # noqa
        return None, e


def same(a, b, ctx):
    """Exact comparison of two results, recursing into tuples, lists and dictionaries"""
    if type(a) is not type(b):
        return fail(f"{ctx}: type {type(a)} != {type(b)}")
    if isinstance(a, (tuple, list)):
        if len(a) != len(b):
            return fail(f"{ctx}: length {len(a)} != {len(b)}")
        for i, (x, y) in enumerate(zip(a, b)):
            same(x, y, f"{ctx}[{i}]")
    elif isinstance(a, dict):
        if list(a.keys()) != list(b.keys()):
            return fail(f"{ctx}: keys {list(a.keys())} != {list(b.keys())}")
        for k in a:
            same(a[k], b[k], f"{ctx}[{k!r}]")
    elif isinstance(a, (np.ndarray, np.generic)):
        a_, b_ = np.asarray(a), np.asarray(b)
        if a_.dtype != b_.dtype:
            return fail(f"{ctx}: dtype {a_.dtype} != {b_.dtype}")
        if a_.shape != b_.shape:
            return fail(f"{ctx}: shape {a_.shape} != {b_.shape}")
        if not np.array_equal(a_, b_, equal_nan=a_.dtype.kind == "f") or a_.tobytes() != b_.tobytes():
            return fail(f"{ctx}: values differ")
        fa = (a_.flags.c_contiguous, a_.flags.f_contiguous, a_.flags.writeable)
        fb = (b_.flags.c_contiguous, b_.flags.f_contiguous, b_.flags.writeable)
        if fa != fb:
            return fail(f"{ctx}: flags (c, f, writeable) {fa} != {fb}")
    elif a != b:
        return fail(f"{ctx}: {a!r} != {b!r}")


def compare_calls(ctx, kind, f_ref, f_new):
    (r_ref, e_ref), (r_new, e_new) = call(f_ref), call(f_new)
    N_CHECKS[kind] += 1
    if e_ref is not None or e_new is not None:
        N_CHECKS["raised"] += 1
        if type(e_ref) is not type(e_new):
            fail(f"{ctx}: exception {e_ref!r} != {e_new!r}")
        return
    same(r_ref, r_new, ctx)


# =====================================================================================================
# 1. _conversion_sample2v_from_meta
# =====================================================================================================
def check_conversion(rng):
    ref, new = _conversion_sample2v_from_meta, spikeglx._conversion_sample2v_from_meta
    metas = {f.name: read_meta_data(f) for f in sorted(FIXTURES.rglob("*.meta"))}
    assert len(metas) > 10
    for name, md in metas.items():
        compare_calls(f"conversion {name}", "conversion", lambda: ref(md), lambda: new(md))
    np1 = [md for md in metas.values() if md.get("imroTbl") and "NP2" not in str(_get_neuropixel_version_from_meta(md))
           and _get_neuropixel_version_from_meta(md) != "NPultra"]
    np2 = [md for md in metas.values() if md.get("imroTbl") and "NP2" in str(_get_neuropixel_version_from_meta(md))]
    nidq = [md for md in metas.values() if "niMNGain" in md]
    assert np1 and np2 and nidq
    usual = ["50", "125", "250", "500", "1000", "1500", "2000", "3000"]

    def gain_str(allow_zero):
        u = rng.random()
        if u < 0.6:
            return str(rng.choice(usual))
        if u < 0.9:
            nd = int(rng.integers(1, 24))  # long digit strings exercise the float32 rounding of the parser
            s = "".join(rng.choice(list("0123456789"), nd))
            return s if (allow_zero or int(s) != 0) else "7"
        return "0" + str(rng.integers(1, 999))  # leading zeros

    for i in range(260):
        md = dict(np1[rng.integers(len(np1))])
        six = "imDatPrb_type" in md  # 3B tables have 6 fields per entry, 3A 5
        nentries = int(rng.choice([0, 1, 2, 7, 100, 276, 384, 384, 384]))
        allow_zero = i % 13 == 0
        entries = []
        for j in range(nentries):
            f = [str(j), str(rng.integers(0, 4)), str(rng.integers(0, 2)), gain_str(allow_zero), gain_str(allow_zero)]
            entries.append("(" + " ".join(f + (["1"] if six else [])) + ")")
        md["imroTbl"] = f"({rng.integers(0, 999)},{nentries})" + "".join(entries)
        nsync = int(rng.choice([0, 1, 1, 1]))
        n_chn = int(rng.choice([0, 1, 3, 50, 276, 384, 384]))
        md["nSavedChans"] = float(n_chn + nsync) if rng.random() < 0.5 else n_chn + nsync
        ap = rng.random() < 0.5
        md["snsApLfSy"] = [float(n_chn) if ap else 0.0, 0.0 if ap else float(n_chn), float(nsync)]
        if i % 9 == 0:  # only the sync channel (or nothing at all) is saved, the acquisition type is still known
            md["snsApLfSy"] = [384.0 if ap else 0.0, 0.0 if ap else 384.0, float(nsync)]
            md["nSavedChans"] = float(nsync) if i % 18 == 0 else 0.0
        u = rng.random()
        if u < 0.2:
            md["imAiRangeMax"] = np.float64(md["imAiRangeMax"])
        elif u < 0.3:
            md["imAiRangeMax"] = 1
        elif u < 0.4:
            md["imAiRangeMax"] = np.float32(0.6)
        elif u < 0.5:
            md["imAiRangeMax"] = float(rng.choice([0.5, 0.6, 1.0, 1.2, 0.62]))
        if rng.random() < 0.2:
            md["imMaxInt"] = float(rng.choice([512, 8192, 2048]))
        if i % 37 == 0:
            md["imroTbl"] = "(0,384)( 0 0 500 250 1)(1 0 0   )"  # empty fields
        if i % 41 == 0:
            md["imroTbl"] = "no entry at all"
        if i % 43 == 0:
            md.pop("imroTbl")  # neither imroTbl nor niMNGain
        if i % 47 == 0:
            md.pop("typeEnabled", None), md.pop("imDatPrb_type", None)  # no version
        compare_calls(f"conversion NP1 variant {i}", "conversion", lambda: ref(md), lambda: new(md))

    for i in range(80):
        md = dict(np2[rng.integers(len(np2))])
        nsync = int(rng.choice([0, 1, 1, 1, 2]))
        n_chn = int(rng.choice([0, 1, 96, 384, 384]))
        md["nSavedChans"] = float(n_chn + nsync)
        md["snsApLfSy"] = [float(n_chn), 0.0, float(nsync)]
        if i % 9 == 0:  # only the sync channel (or nothing at all) is saved, the acquisition type is still known
            md["snsApLfSy"] = [384.0, 0.0, float(nsync)]
            md["nSavedChans"] = float(nsync) if i % 18 == 0 else 0.0
        u = rng.random()
        if u < 0.25:
            md["imAiRangeMax"] = np.float64(md["imAiRangeMax"])
        elif u < 0.5:
            md["imAiRangeMax"] = float(rng.choice([0.5, 0.6, 1.0, 0.62]))
        if rng.random() < 0.3:
            md["imMaxInt"] = float(rng.choice([512, 8192, 2048, 32768]))
        if i % 19 == 0:
            md.pop("imMaxInt", None)  # mandatory for NP2: KeyError
        compare_calls(f"conversion NP2 variant {i}", "conversion", lambda: ref(md), lambda: new(md))

    for i in range(60):
        md = dict(nidq[rng.integers(len(nidq))])
        md["snsMnMaXaDw"] = [float(rng.integers(0, 5)), float(rng.integers(0, 5)), float(rng.integers(0, 4)), float(rng.integers(0, 3))]
        md["nSavedChans"] = float(sum(md["snsMnMaXaDw"]))
        md["niMNGain"] = float(rng.choice([1, 200, 500]))
        md["niMAGain"] = float(rng.choice([1, 2, 10]))
        if rng.random() < 0.3:
            md["niAiRangeMax"] = np.float64(rng.choice([1, 5, 10]))
        compare_calls(f"conversion nidq variant {i}", "conversion", lambda: ref(md), lambda: new(md))


# =====================================================================================================
# 2. Reader: construction and reads
# =====================================================================================================
def write_recording(folder, stem, meta_source, ns, rng, dtype=np.int16, nc=None):
    """Writes a binary file (and a meta file when a template is given), returns the path of the binary"""
    folder.mkdir(parents=True, exist_ok=True)
    file_bin = folder.joinpath(stem + ".bin")
    if meta_source is not None:
        md = read_meta_data(meta_source)
        nc = _get_nchannels_from_meta(md)
        fs = spikeglx._get_fs_from_meta(md)
        with open(meta_source) as fid:
            lines = fid.read().splitlines()
        with open(file_bin.with_suffix(".meta"), "w") as fid:
            for line in lines:
                if line.startswith("fileSizeBytes"):
                    line = f"fileSizeBytes={ns * nc * 2}"
                if line.startswith("fileTimeSecs"):
                    line = f"fileTimeSecs={ns / fs!r}"
                fid.write(line + "\n")
    if np.dtype(dtype).kind == "i":
        info = np.iinfo(dtype)
        d = rng.integers(info.min, info.max, size=(ns, nc), dtype=dtype, endpoint=True)
        if ns > 2:
            d[0, :], d[1, :], d[2, :] = info.min, info.max, 0
    else:
        d = rng.standard_normal((ns, nc)).astype(dtype)
    d.tofile(file_bin)
    return file_bin


def sample_selectors(rng, ns, compressed):
    out = [0, -1, ns - 1, ns, -ns, -ns - 1, np.int64(3), slice(None), slice(0, 0), slice(5, 5), slice(ns, None),
           slice(0, 1), slice(ns - 1, ns), slice(0, ns), slice(-10, None), slice(None, 10), slice(None, None, 2),
           slice(None, None, 3), slice(1, None, 2), slice(None, None, -1), slice(None, None, -2), slice(ns, 0, -7),
           slice(10, 3), slice(-3, -10, -1), slice(0, 10 * ns), slice(-10 * ns, 10)]
    arrays = [[], [0], [ns - 1, 0, 5, 5], [-1, -ns], np.array([], dtype=int), np.arange(0, min(ns, 50), 7),
              rng.integers(-ns, ns, 12), rng.integers(0, ns, 30).astype(np.int32), rng.random(ns) < 0.05, [ns],
              rng.integers(0, ns, (3, 2))]
    out += arrays[:3] if compressed else arrays
    for _ in range(10 if compressed else 25):
        start, stop = (None if rng.random() < 0.2 else int(v) for v in rng.integers(-ns - 5, ns + 5, 2))
        step = None if rng.random() < 0.4 else int(rng.choice([1, 1, 2, 3, 5, 17, -1, -2, -3, -11]))
        out.append(slice(start, stop, step))
    return out


def channel_selectors(rng, nc):
    out = [0, -1, nc - 1, nc, -nc, -nc - 1, np.int64(nc // 2), np.int32(1), slice(None), slice(0, 0), slice(0, nc - 1),
           slice(nc - 1, None), slice(-1, None), slice(None, None, 2), slice(1, None, 2), slice(None, None, -1),
           slice(None, None, -3), slice(5, 2), slice(0, 10 * nc), Ellipsis, None,
           [], [0], [nc - 1], [0, 0, 1], [-1, 0], [nc], list(range(nc)), [[0, 1], [1, 0]], (0, 1),
           np.array([], dtype=int), np.array([0]), np.array([nc - 1]), np.array(3), np.arange(nc), np.arange(nc)[::-1],
           np.arange(0, nc, 2), np.arange(nc - 1), np.array([nc]), np.array([-nc - 1]), np.array([0.0, 1.0]),
           np.arange(nc).astype(np.uint8 if nc < 256 else np.uint16), np.arange(nc).astype(np.int32)[::3],
           rng.permutation(nc), rng.integers(-nc, nc, 17), rng.integers(0, nc, (2, 3)), rng.integers(0, nc, (2, 1, 2)),
           rng.random(nc) < 0.3, np.ones(nc, dtype=bool), np.zeros(nc, dtype=bool), np.ones(nc + 1, dtype=bool),
           list(rng.random(nc) < 0.5)]
    for _ in range(12):
        start, stop = (None if rng.random() < 0.2 else int(v) for v in rng.integers(-nc - 5, nc + 5, 2))
        step = None if rng.random() < 0.4 else int(rng.choice([1, 2, 3, 7, -1, -2, -5]))
        out.append(slice(start, stop, step))
    for _ in range(8):
        out.append(rng.integers(0, nc, int(rng.integers(1, nc + 1))))
    return out


def describe(sel):
    return repr(sel).replace("\n", "")[:60]


def check_reader(label, file_bin, rng, n_random, **kwargs):
    f_ref = lambda: RefReader(file_bin, **kwargs)  # noqa
    f_new = lambda: spikeglx.Reader(file_bin, **kwargs)  # noqa
    (sr_ref, e_ref), (sr_new, e_new) = call(f_ref), call(f_new)
    N_CHECKS["init"] += 1
    if e_ref is not None or e_new is not None:
        N_CHECKS["raised"] += 1
        if type(e_ref) is not type(e_new):
            fail(f"{label}: constructor exception {e_ref!r} != {e_new!r}")
        return
    try:
        for attr in ("raw_channel_order", "channel_conversion_sample2v", "geometry", "_nc", "_ns", "_fs", "_nsync", "nbytes",
                     "meta", "file_bin", "file_meta_data", "dtype"):
            if hasattr(sr_ref, attr) != hasattr(sr_new, attr):
                fail(f"{label}: attribute {attr} presence")
            elif hasattr(sr_ref, attr):
                a, b = getattr(sr_ref, attr), getattr(sr_new, attr)
                same(dict(a) if isinstance(a, dict) else a, dict(b) if isinstance(b, dict) else b, f"{label}.{attr}")
        compare_calls(f"{label}.shape", "init", lambda: sr_ref.shape, lambda: sr_new.shape)
        shape, e = call(lambda: sr_ref.shape)
        if e is not None or getattr(sr_ref, "_raw", None) is None:
            # not open: every read has to fail the same way
            compare_calls(f"{label} closed read", "read", lambda: sr_ref[0:10, :], lambda: sr_new[0:10, :])
            compare_calls(f"{label} closed read", "read", lambda: sr_ref.read(), lambda: sr_new.read())
            return
        ns, nc = shape
        nsels, csels = sample_selectors(rng, ns, sr_ref.is_mtscomp), channel_selectors(rng, nc)
        pairs = [(n, slice(None)) for n in nsels] + [(slice(3, 40), c) for c in csels] + [(7, c) for c in csels[::2]]
        pairs += [(slice(None, None, -3), c) for c in csels[1::3]] + [(slice(0, 0), c) for c in csels[2::5]]
        if not sr_ref.is_mtscomp:
            pairs += [([5, 1, 1, ns - 1], c) for c in csels[::3]]
        for _ in range(n_random):
            pairs.append((nsels[rng.integers(len(nsels))], csels[rng.integers(len(csels))]))
        for nsel, csel in pairs:
            ctx = f"{label}[{describe(nsel)}, {describe(csel)}]"
            compare_calls(ctx, "read", lambda: sr_ref[nsel, csel], lambda: sr_new[nsel, csel])
        for nsel in nsels[::4]:
            compare_calls(f"{label}[{describe(nsel)}]", "read", lambda: sr_ref[nsel], lambda: sr_new[nsel])
            compare_calls(f"{label}[({describe(nsel)},)]", "read", lambda: sr_ref[(nsel,)], lambda: sr_new[(nsel,)])
        compare_calls(f"{label}[3 indices]", "read", lambda: sr_ref[0, 0, 0], lambda: sr_new[0, 0, 0])
        # read / read_samples / sync, as used by the rest of the library
        for nsel, csel in [(slice(0, 50), slice(None)), (slice(10, 60, 2), np.arange(0, nc, 3)), (slice(0, 20), [0, nc - 1]),
                           (4, slice(None)), (slice(0, 0), np.arange(nc))]:
            ctx = f"{label}.read({describe(nsel)}, {describe(csel)})"
            compare_calls(ctx, "read", lambda: sr_ref.read(nsel, csel), lambda: sr_new.read(nsel, csel))
            compare_calls(ctx, "read", lambda: sr_ref.read(nsel, csel, sync=False), lambda: sr_new.read(nsel, csel, sync=False))
        compare_calls(f"{label}.read()", "read", lambda: sr_ref.read(), lambda: sr_new.read())
        compare_calls(f"{label}.read_samples", "read", lambda: sr_ref.read_samples(3, 77), lambda: sr_new.read_samples(3, 77))
        compare_calls(f"{label}.read_samples", "read", lambda: sr_ref.read_samples(3, 77, channels=np.array([2, 1])),
                      lambda: sr_new.read_samples(3, 77, channels=np.array([2, 1])))
        compare_calls(f"{label}.read_sync_analog", "read", lambda: sr_ref.read_sync_analog(slice(0, 99)),
                      lambda: sr_new.read_sync_analog(slice(0, 99)))
        compare_calls(f"{label}.read_sync", "read", lambda: sr_ref.read_sync(slice(0, 99)), lambda: sr_new.read_sync(slice(0, 99)))
        # the result is a private array: writing into it must not leak into a later read
        a, e = call(lambda: sr_new[0:20, np.arange(nc)])
        if e is None:
            a[:] = -1
            compare_calls(f"{label} after write", "read", lambda: sr_ref[0:20, np.arange(nc)], lambda: sr_new[0:20, np.arange(nc)])
    finally:
        for sr in (sr_ref, sr_new):
            call(sr.close)


def check_readers(rng, scratch):
    meta_files = sorted(FIXTURES.glob("*.meta")) + sorted(FIXTURES.joinpath("np2split").rglob("*.meta"))
    assert len(meta_files) > 10
    for i, meta_file in enumerate(meta_files):
        ns = int(rng.choice([300, 330, 451, 600]))
        stem = meta_file.name[:-5]
        file_bin = write_recording(scratch.joinpath(f"rec{i:02d}"), stem, meta_file, ns, rng)
        for sort in (True, False):
            check_reader(f"{stem} sort={sort}", file_bin, rng, n_random=40, sort=sort)
        # meta file given instead of the binary, explicit meta_file argument, unopened reader
        if i % 4 == 0:
            check_reader(f"{stem} from meta", file_bin.with_suffix(".meta"), rng, n_random=10)
            check_reader(f"{stem} meta_file kwarg", file_bin, rng, n_random=10, meta_file=file_bin.with_suffix(".meta"))
            check_reader(f"{stem} open=False", file_bin, rng, n_random=0, open=False)
        # compressed copy, several chunks
        if i % 2 == 0 or "NP2.4" in stem:
            md = read_meta_data(file_bin.with_suffix(".meta"))
            fs, nc = spikeglx._get_fs_from_meta(md), _get_nchannels_from_meta(md)
            mtscomp.compress(file_bin, out=file_bin.with_suffix(".cbin"), outmeta=file_bin.with_suffix(".ch"), sample_rate=fs,
                             n_channels=nc, dtype=np.int16, chunk_duration=100 / fs, n_threads=1, check_after_compress=False,
                             quiet=True)
            for sort in (True, False):
                check_reader(f"{stem} cbin sort={sort}", file_bin.with_suffix(".cbin"), rng, n_random=15, sort=sort)
        # truncated file: size does not match the meta data
        if i % 5 == 0:
            with open(file_bin, "ab") as fid:
                fid.write(b"\x01\x02\x03")
            check_reader(f"{stem} odd size", file_bin, rng, n_random=10, ignore_warnings=True)
    # meta data file on its own, no binary next to it
    lonely = scratch.joinpath("lonely", "lonely.ap.meta")
    lonely.parent.mkdir()
    shutil.copy(meta_files[0], lonely)
    check_reader("meta only", lonely, rng, n_random=0)
    check_reader("missing file", scratch.joinpath("lonely", "nothing.ap.bin"), rng, n_random=0)
    check_reader("missing meta", scratch.joinpath("lonely", "nothing.ap.meta"), rng, n_random=0)
    # flat binaries without meta data
    flat = [
        ("flat384", 384, 200, np.int16, {}),
        ("flat385", 385, 200, np.int16, {}),
        ("flat385_ambiguous", 385, 384, np.int16, {}),  # size is a multiple of both 384 and 385 channels
        ("flat385_explicit", 385, 384, np.int16, dict(nc=385, ns=384, fs=30000, nsync=1)),
        ("flat384_s2v", 384, 100, np.int16, dict(s2v=4.6875e-06, fs=2500)),
        ("flat7", 7, 333, np.int16, dict(nc=7, ns=333, fs=1000)),
        ("flat7_missing_args", 7, 333, np.int16, {}),
        ("flat7_nsync", 7, 333, np.int16, dict(nc=7, ns=333, fs=1000, nsync=2)),
        ("flat16_float32", 16, 250, np.float32, dict(nc=16, ns=250, fs=1000, dtype="float32")),
        ("flat16_float32_s2v", 16, 250, np.float32, dict(nc=16, ns=250, fs=1000, dtype="float32", s2v=0.5)),
        ("flat12_int32", 12, 250, np.int32, dict(nc=12, ns=250, fs=1000, dtype="int32")),
        ("flat384_float64", 384, 100, np.float64, dict(dtype="float64")),
        ("flat385_closed", 385, 200, np.int16, dict(open=False)),
    ]
    for stem, nc, ns, dtype, kwargs in flat:
        file_bin = write_recording(scratch.joinpath("flat"), stem, None, ns, rng, dtype=dtype, nc=nc)
        check_reader(stem, file_bin, rng, n_random=40, **kwargs)


if __name__ == "__main__":
    scratch = Path(tempfile.mkdtemp(prefix="demo_c01_r5_"))
    try:
        check_conversion(np.random.default_rng(SEED))
        check_readers(np.random.default_rng(SEED + 1), scratch)
    finally:
        shutil.rmtree(scratch, ignore_errors=True)
    print(f"checks: {N_CHECKS}, {time.time() - T0:.1f} s, implementation under test: {spikeglx.__file__}")
    if FAILURES:
        print(f"FAILED: {len(FAILURES)} mismatches between the reference and the current implementation")
        sys.exit(1)
    print("OK: reference and current implementation are identical on all inputs")
    sys.exit(0)
