import sys, os; sys.path.insert(0, os.path.join(os.path.dirname(os.path.abspath(__file__)), "src"))
"""
C01 demo: Reader returns calibrated voltages aligned with the probe geometry.

Builds small Neuropixel 2.1 recordings from scratch (meta-data text + int16 binary written with NumPy),
once with the usual trailing sync channel (384 AP + 1 SY) and once saved without it (384 AP + 0 SY,
snsApLfSy=384,0,0: a channel subset that SpikeGLX allows), reads them through spikeglx.Reader with a few
selectors, and compares with an oracle computed from the definition:
    float32(raw sample) x volts-per-bit of that channel, columns ordered by shank, row, descending column
Exits 1 and prints the discrepancies if the property is violated, 0 otherwise.
"""
import shutil
import tempfile
from pathlib import Path

import numpy as np

import spikeglx

NS, NAP, FS = 64, 384, 30000
AI_RANGE_MAX, MAX_INT, AP_GAIN = 0.5, 8192, 80


def write_recording(folder, nsync, rng):
    """NP2.1 single shank recording, two columns per row, channel ch sits on (row ch // 2, col ch % 2)"""
    nc = NAP + nsync
    shank, col, row = np.zeros(NAP, int), np.arange(NAP) % 2, np.arange(NAP) // 2
    imro = "(21,384)" + "".join(f"({ch} 1 1 {ch})" for ch in range(NAP))
    shank_map = "(1,2,640)" + "".join(f"({s}:{c}:{r}:1)" for s, c, r in zip(shank, col, row))
    meta = {
        "acqApLfSy": "384,0,1",
        "fileSizeBytes": NS * nc * 2,
        "fileTimeSecs": NS / FS,
        "imAiRangeMax": AI_RANGE_MAX,
        "imAiRangeMin": -AI_RANGE_MAX,
        "imDatPrb_port": 1,
        "imDatPrb_slot": 3,
        "imDatPrb_sn": 19011116954,
        "imDatPrb_type": 21,
        "imMaxInt": MAX_INT,
        "imSampRate": FS,
        "nSavedChans": nc,
        "snsApLfSy": f"{NAP},0,{nsync}",
        "snsSaveChanSubset": f"0:{nc - 1}",
        "typeThis": "imec",
        "~imroTbl": imro,
        "~snsShankMap": shank_map,
    }
    bin_file = Path(folder) / f"np21_sy{nsync}_g0_t0.imec0.ap.bin"
    with open(bin_file.with_suffix(".meta"), "w") as fid:
        fid.write("".join(f"{k}={v}\n" for k, v in meta.items()))
    raw = rng.integers(-MAX_INT, MAX_INT, size=(NS, nc)).astype(np.int16)
    raw.tofile(bin_file)
    # oracle, from the definition
    s2v = np.ones(nc, dtype=np.float32)
    s2v[:NAP] = np.float32(AI_RANGE_MAX / MAX_INT / AP_GAIN)
    order = np.r_[np.lexsort((-col, row, shank)), np.arange(NAP, nc)]  # shank, row, descending column, sync last
    return bin_file, raw, s2v, order, np.c_[shank, row, col]


def check(nsync, rng, folder):
    errors = []
    bin_file, raw, s2v, order, src = write_recording(folder, nsync, rng)
    for sort in (True, False):
        perm = order if sort else np.arange(raw.shape[1])
        expected_all = raw.astype(np.float32)[:, perm] * s2v[perm]
        sr = spikeglx.Reader(bin_file, sort=sort)
        try:
            geom = np.c_[sr.geometry["shank"], sr.geometry["row"], sr.geometry["col"]]
            if not np.array_equal(geom, src[perm[:NAP]]):
                errors.append(f"nsync={nsync} sort={sort}: geometry entries do not describe the returned columns")
            selectors = {
                "[:, :]": (slice(None), slice(None)),
                "[5:40:3, 10:200:7]": (slice(5, 40, 3), slice(10, 200, 7)),
                "[::-2, [3, 1, 200, 383]]": (slice(None, None, -2), [3, 1, 200, 383]),
                "[[0, 7, 63], -1]": ([0, 7, 63], -1),
                "[12, 100]": (12, 100),
            }
            for name, sel in selectors.items():
                got = sr[sel]
                expected = expected_all[sel]
                if np.shape(got) != np.shape(expected):
                    errors.append(f"nsync={nsync} sort={sort} sr{name}: shape {np.shape(got)}, expected {np.shape(expected)}")
                elif not np.allclose(got, expected, rtol=1e-6, atol=0):
                    with np.errstate(divide="ignore", invalid="ignore"):
                        ratio = np.nanmedian(np.abs(np.asarray(got, dtype=float)) / np.abs(np.asarray(expected, dtype=float)))
                    errors.append(
                        f"nsync={nsync} sort={sort} sr{name}: values are not float32(raw) * volts-per-bit "
                        f"(median returned/expected = {ratio:.6g}; reader sample2volts[:3] = {sr.sample2volts[:3]}, "
                        f"expected {s2v[:3]})"
                    )
        finally:
            sr.close()
    return errors


def main():
    rng = np.random.default_rng(20240101)
    folder = tempfile.mkdtemp(prefix="c01_demo_")
    try:
        errors = check(nsync=1, rng=rng, folder=folder) + check(nsync=0, rng=rng, folder=folder)
    finally:
        shutil.rmtree(folder, ignore_errors=True)
    if errors:
        print("C01 VIOLATED: Reader does not return calibrated voltages aligned with the geometry")
        for e in errors:
            print("  -", e)
        return 1
    print("C01 holds on the generated NP2.1 recordings (with and without sync channel)")
    return 0


if __name__ == "__main__":
    sys.exit(main())
