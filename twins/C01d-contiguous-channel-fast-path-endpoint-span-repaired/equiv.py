import sys, os; sys.path.insert(0, os.path.join(os.path.dirname(os.path.abspath(__file__)), "src"))
"""
C01 - Reader returns calibrated voltages aligned with the probe geometry.

Builds a small Neuropixel 2.1 (single shank) recording from scratch: its own meta-data file, its own
electrode selection and random int16 samples, then indexes the reader with slices and index lists and
compares every result with the definition

    expected[:, i] = float32(raw[:, order[csel][i]]) * volts_per_bit[order[csel][i]]

where `order` sorts the electrodes by shank, row and descending column (sort=True) or is the on-disk
order (sort=False).  Nothing here calls the library to compute the expectation.

exit 0: every read matches the definition, exit 1: at least one read does not.
"""
import tempfile
from pathlib import Path

import numpy as np

import spikeglx

NE, NSYNC, NS, FS = 384, 1, 40, 30000
AI_RANGE_MAX, MAX_INT, NP2_GAIN = 0.5, 8192, 80


def make_recording(folder, rng):
    """NP2.1 ap file, 384 electrodes + 1 sync, dense two-column layout with banks written out of order"""
    # electrode of channel c: channels are laid out two per row, but the 4 banks of 96 channels
    # are not written in depth order (a legitimate imro table)
    bank_start_row = np.array([96, 0, 144, 48])
    c = np.arange(NE)
    row = bank_start_row[c // 96] + (c % 96) // 2
    col = c % 2
    shank = np.zeros(NE, dtype=int)
    shank_map = "(1,2,640)" + "".join(f"({s}:{x}:{r}:1)" for s, x, r in zip(shank, col, row))
    imro = f"(21,{NE})" + "".join(f"({i} 1 1 {2 * r + x})" for i, (x, r) in enumerate(zip(col, row)))
    raw = rng.integers(-32768, 32768, size=(NS, NE + NSYNC)).astype(np.int16)
    bin_file = Path(folder) / "demo_g0_t0.imec0.ap.bin"
    raw.tofile(bin_file)
    meta = {
        "acqApLfSy": f"{NE},0,{NSYNC}",
        "fileSizeBytes": raw.nbytes,
        "fileTimeSecs": NS / FS,
        "imAiRangeMax": AI_RANGE_MAX,
        "imAiRangeMin": -AI_RANGE_MAX,
        "imDatPrb_port": 1,
        "imDatPrb_slot": 3,
        "imDatPrb_sn": 19011116954,
        "imDatPrb_type": 21,
        "imMaxInt": MAX_INT,
        "imSampRate": FS,
        "nSavedChans": NE + NSYNC,
        "snsApLfSy": f"{NE},0,{NSYNC}",
        "snsSaveChanSubset": f"0:{NE + NSYNC - 1}",
        "typeThis": "imec",
        "~imroTbl": imro,
        "~snsShankMap": shank_map,
    }
    bin_file.with_suffix(".meta").write_text("".join(f"{k}={v}\n" for k, v in meta.items()))
    return bin_file, raw, dict(shank=shank, row=row, col=col)


def describe(sel):
    if isinstance(sel, slice):
        return f"{'' if sel.start is None else sel.start}:{'' if sel.stop is None else sel.stop}" + \
            ("" if sel.step is None else f":{sel.step}")
    return repr(sel if not isinstance(sel, np.ndarray) else sel.tolist())


def main():
    rng = np.random.default_rng(20240917)
    failures = []
    nchecks = 0
    with tempfile.TemporaryDirectory(prefix="c01_demo_") as folder:
        bin_file, raw, site = make_recording(folder, rng)
        # ---- the definition -----------------------------------------------------------------------
        volts_per_bit = np.r_[np.full(NE, np.float32(AI_RANGE_MAX / MAX_INT / NP2_GAIN)),
                              np.ones(NSYNC, dtype=np.float32)].astype(np.float32)
        calibrated = raw.astype(np.float32) * volts_per_bit  # (ns, nc) in on-disk channel order
        sorted_order = np.r_[np.lexsort((-site["col"], site["row"], site["shank"])), NE + np.arange(NSYNC)]
        disk_order = np.arange(NE + NSYNC)

        channel_selectors = [slice(None), slice(None, -1), slice(0, 4), slice(1, 4), slice(3, 8), slice(95, 98),
                             slice(10, 2, -1), slice(None, None, -3), slice(7, 300, 5), 0, 3, -1,
                             [0, 1, 2], [2, 1, 0], [0, 5, 2], [0, 3, 2], [10, 40, 12], [7], [],
                             np.array([300, 302]), np.array([5, 9, 6, 8]), [383, 384], [380, 2, 383]]
        sample_selectors = [slice(None), slice(3, 17), slice(None, None, -2), 5, [4, 9, 1]]

        for sort, order in ((True, sorted_order), (False, disk_order)):
            with spikeglx.Reader(bin_file, sort=sort) as sr:
                # the geometry advertised by the reader, entry i <-> column i
                for key in ("shank", "row", "col"):
                    nchecks += 1
                    if not np.array_equal(np.asarray(sr.geometry[key]), site[key][order[:NE]]):
                        failures.append(f"sort={sort}: geometry['{key}'] is not the geometry of the expected electrodes")
                whole = calibrated[:, order]  # what the full calibrated array looks like to the user
                for nsel in sample_selectors:
                    for csel in channel_selectors:
                        expected = whole[nsel][..., csel]
                        got = sr[nsel, csel]
                        nchecks += 1
                        label = f"sort={sort}: sr[{describe(nsel)}, {describe(csel)}]"
                        if np.shape(got) != np.shape(expected):
                            failures.append(f"{label}: shape {np.shape(got)}, expected {np.shape(expected)}")
                        elif not np.allclose(got, expected, rtol=1e-6, atol=0):
                            bad = np.flatnonzero(~np.all(np.isclose(
                                np.atleast_2d(got), np.atleast_2d(expected), rtol=1e-6, atol=0), axis=0))
                            wanted = np.atleast_1d(order[csel])
                            failures.append(
                                f"{label}: columns {bad.tolist()} of the result are not the calibrated samples "
                                f"of raw channels {wanted[bad].tolist() if wanted.size == np.atleast_2d(got).shape[1] else wanted.tolist()}"
                                f" (the electrodes geometry rows {np.atleast_1d(np.arange(NE + NSYNC)[csel])[bad].tolist()} describe)")

    print(f"{nchecks} reads / geometry checks, {len(failures)} disagree with the definition")
    for f in failures[:12]:
        print("  MISMATCH", f)
    if len(failures) > 12:
        print(f"  ... and {len(failures) - 12} more")
    if failures:
        print("FAIL: Reader[...] does not return float32(raw) x volts-per-bit for the electrodes its geometry describes")
        return 1
    print("OK: every read equals float32(raw) x volts-per-bit, columns aligned with the reader geometry")
    return 0


if __name__ == "__main__":
    sys.exit(main())
