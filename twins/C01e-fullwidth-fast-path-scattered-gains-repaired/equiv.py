import sys, os; sys.path.insert(0, os.path.join(os.path.dirname(os.path.abspath(__file__)), "src"))
"""
C01 demo: the reader must return float32(raw sample) x the volts-per-bit factor of *that* channel, with column i
being the electrode described by entry i of the geometry (shank, row, descending column order).

Input: a Neuropixel 1.0 (3B2) recording where
  - the first 100 channels are connected to bank 1 (electrodes 384..483) and the others to bank 0, a usual way
    to record from two depths at once; sorting by row therefore moves channels 100..383 before channels 0..99
  - the AP gain was set per channel in the imro table (8 different values)
Oracle: plain NumPy from the definition, using the tables this script builds itself.
"""
import tempfile
import logging
from pathlib import Path

import numpy as np

import spikeglx

logging.disable(logging.CRITICAL)

NCH, NS, FS = 384, 300, 30000.0
NBANK1 = 100  # channels 0..99 are connected to bank 1
AP_GAINS = np.array([50, 125, 250, 500, 1000, 1500, 2000, 3000])

# ---- tables, per on-disk channel
ch = np.arange(NCH)
bank = (ch < NBANK1).astype(int)
electrode = ch + NCH * bank
sm_row = electrode // 2  # shank map row
sm_col = electrode % 2  # shank map column (0: left, 1: right)
ap_gain = AP_GAINS[(ch * 5 + ch // 7) % AP_GAINS.size]
lf_gain = np.full(NCH, 250)
INT2VOLT = 0.6 / 512
s2v_disk = np.r_[INT2VOLT / ap_gain, 1.0]  # sync channel is left unscaled

# ---- the order given by the definition: shank, then row, then descending geometry column.
# On NP1 the geometry column is 2 - 2 * shank_map_col + row % 2, so descending column = ascending shank map column
geom_col = 2 - 2 * sm_col + sm_row % 2
order = np.lexsort((-geom_col, sm_row, np.zeros(NCH)))
assert not np.array_equal(order, ch)
order_full = np.r_[order, NCH]  # the sync channel stays last

imro = "(0,384)" + "".join(f"({c} {bank[c]} 0 {ap_gain[c]} {lf_gain[c]} 1)" for c in ch)
shank_map = "(1,2,480)" + "".join(f"(0:{sm_col[c]}:{sm_row[c]}:1)" for c in ch)
META = f"""acqApLfSy=384,384,1
appVersion=20190327
fileSizeBytes={NS * (NCH + 1) * 2}
fileTimeSecs={NS / FS}
imAiRangeMax=0.6
imAiRangeMin=-0.6
imDatPrb_port=2
imDatPrb_slot=3
imDatPrb_sn=18005116811
imDatPrb_type=0
imSampRate={FS}
nSavedChans=385
snsApLfSy=384,0,1
snsSaveChanSubset=0:383,768
typeThis=imec
~imroTbl={imro}
~snsShankMap={shank_map}
"""


def check(label, got, expected, errors):
    got = np.asarray(got)
    if got.shape != expected.shape:
        errors.append(f"{label}: shape {got.shape}, expected {expected.shape}")
        return
    if got.dtype != np.float32:
        errors.append(f"{label}: dtype {got.dtype}, expected float32")
        return
    bad = ~np.isclose(got, expected, rtol=1e-5, atol=0)
    if np.any(bad):
        cols = np.unique(np.where(np.atleast_2d(bad))[1])
        k = np.argmax(bad.ravel())
        errors.append(
            f"{label}: {bad.sum()} of {bad.size} values are not float32(raw) * gain of the channel "
            f"({cols.size} columns affected, e.g. got {got.ravel()[k]:.6e} expected {expected.ravel()[k]:.6e}, "
            f"ratio {got.ravel()[k] / expected.ravel()[k]:.4f})")


def main():
    rng = np.random.default_rng(20240501)
    raw = rng.integers(-500, 500, size=(NS, NCH + 1)).astype(np.int16)
    raw[raw == 0] = 7  # no zeros, so that a wrong gain always shows
    errors = []
    with tempfile.TemporaryDirectory() as tdir:
        bin_file = Path(tdir) / "mixedbank_g0_t0.imec0.ap.bin"
        raw.tofile(bin_file)
        bin_file.with_suffix(".meta").write_text(META)

        for sort in (True, False):
            perm = order_full if sort else np.arange(NCH + 1)
            volts = (raw.astype(np.float32)[:, perm] * s2v_disk[perm]).astype(np.float32)  # the whole calibrated array
            with spikeglx.Reader(bin_file, sort=sort) as sr:
                tag = f"sort={sort}"
                # geometry entry i is the electrode of column i
                if not np.array_equal(sr.geometry["row"], sm_row[perm[:-1]]):
                    errors.append(f"{tag}: geometry rows are not those of the expected electrodes")
                if not np.array_equal(sr.geometry["col"], geom_col[perm[:-1]]):
                    errors.append(f"{tag}: geometry columns are not those of the expected electrodes")
                if not np.array_equal(sr.raw_channel_order, perm):
                    errors.append(f"{tag}: raw_channel_order differs from the definition")
                # full width selectors
                check(f"{tag} sr[:, :]", sr[:, :], volts, errors)
                check(f"{tag} sr[10:200]", sr[10:200], volts[10:200], errors)
                check(f"{tag} sr[250:20:-3, :]", sr[250:20:-3, :], volts[250:20:-3, :], errors)
                check(f"{tag} sr[17]", sr[17], volts[17], errors)
                check(f"{tag} sr[[5, 3, 250], :]", sr[[5, 3, 250], :], volts[[5, 3, 250], :], errors)
                check(f"{tag} sr[0:0]", sr[0:0], volts[0:0], errors)
                d, _ = sr.read(nsel=slice(0, NS))
                check(f"{tag} read(slice(0, ns))", d, volts, errors)
                d, _ = sr.read_samples(20, 120)
                check(f"{tag} read_samples(20, 120)", d, volts[20:120], errors)
                # channel subsets
                check(f"{tag} sr[:, :-1]", sr[:, :-1], volts[:, :-1], errors)
                check(f"{tag} sr[:, 0:385]", sr[:, 0:385], volts[:, 0:385], errors)
                check(f"{tag} sr[5:90, 300:20:-7]", sr[5:90, 300:20:-7], volts[5:90, 300:20:-7], errors)
                check(f"{tag} sr[:, [3, 290, 12]]", sr[:, [3, 290, 12]], volts[:, [3, 290, 12]], errors)
                check(f"{tag} sr[40:50, 77]", sr[40:50, 77], volts[40:50, 77], errors)
                # the sync channel is left unscaled
                check(f"{tag} sr[:, -1]", sr[:, -1], raw[:, -1].astype(np.float32), errors)

    if errors:
        print("C01 VIOLATED: the reader does not return float32(raw) x the gain of the channel it returns")
        for e in errors:
            print("  - " + e)
        return 1
    print("C01 holds on the mixed-bank NP1 recording with per-channel gains (sorted and unsorted)")
    return 0


if __name__ == "__main__":
    sys.exit(main())
