import sys, os; sys.path.insert(0, os.path.join(os.path.dirname(os.path.abspath(__file__)), "src"))
"""
C01: indexing a spikeglx.Reader returns float32(raw) * volts-per-bit of that channel, laid out as NumPy
indexing of the whole calibrated (and, by default, geometry-sorted) array would lay it out.

Oracle: the int16 matrix written to disk, converted with plain NumPy, columns permuted with the raw channel
index stored in the geometry of the reader ('ind'), then indexed with the very same selectors.
"""
import logging
import tempfile
from pathlib import Path

import numpy as np

import spikeglx

logging.disable(logging.CRITICAL)
FIXTURES = Path(os.path.dirname(os.path.abspath(__file__))) / "src" / "tests" / "fixtures"
NS = 48

METAS = [
    "sample3B_g0_t0.imec1.ap.meta",  # NP1: sorted on disk
    "sampleNP2.1_g0_t0.imec.ap.meta",
    "sampleNP2.4_4shanks_g0_t0.imec.ap.meta",
    "sampleNP2.4_1shank_g0_t0.imec.ap.meta",
    "sampleNPultra_g0_t0.imec0.ap.meta",
]

CHANNEL_SELECTORS = [
    slice(None), slice(0, 2), slice(0, 8), slice(2, 8), slice(3, 40, 3), slice(None, None, 2), slice(1, None, 2),
    slice(None, None, -1), slice(None, None, -2), slice(383, None, -2), slice(200, 100, -4), slice(7, None, -1),
    slice(16, 8, -1), slice(-20, None), slice(5, 5), 0, 1, 383, -1, [0, 1], [5, 3, 3, 380], np.arange(0, 384, 7),
]
SAMPLE_SELECTORS = [slice(None), slice(3, 30, 4), slice(40, 2, -3), 5, [1, 7, 2]]


def check(meta_name, sort, tmp):
    bin_file = Path(tmp) / f"{Path(meta_name).stem}_sort{int(sort)}_g0_t0.imec0.ap.bin"
    np.random.seed(1234)
    mock = spikeglx._mock_spikeglx_file(bin_file, FIXTURES / meta_name, ns=NS, nc=385, sync_depth=16, random=True)
    errors = []
    with spikeglx.Reader(bin_file, sort=sort) as sr:
        raw = np.fromfile(bin_file, dtype=np.int16).reshape(NS, 385)
        assert np.array_equal(raw, mock["D"])
        # the calibrated array in the order of the geometry: column i is raw channel geometry['ind'][i]
        columns = np.r_[sr.geometry["ind"], 384].astype(int)
        if not sort:
            assert np.array_equal(columns, np.arange(385))
        calibrated = (raw.astype(np.float32) * sr.sample2volts.astype(np.float32))[:, columns]
        assert np.all(calibrated[:, -1] == raw[:, -1])  # sync left unscaled
        for csel in CHANNEL_SELECTORS:
            for nsel in SAMPLE_SELECTORS:
                expected = calibrated[nsel, :][..., csel]
                try:
                    got = sr[nsel, csel]
                except Exception as e:  # noqa
                    errors.append(f"sr[{nsel}, {csel}] raised {type(e).__name__}: {e}")
                    continue
                if np.shape(got) != np.shape(expected):
                    errors.append(f"sr[{nsel}, {csel}] has shape {np.shape(got)}, expected {np.shape(expected)}")
                elif not np.array_equal(got, expected):
                    errors.append(f"sr[{nsel}, {csel}] values differ from float32(raw) * s2v in geometry order")
    return errors


if __name__ == "__main__":
    n_errors = 0
    with tempfile.TemporaryDirectory() as tmp:
        for meta_name in METAS:
            for sort in (True, False):
                errors = check(meta_name, sort, tmp)
                n_errors += len(errors)
                for e in errors[:6]:
                    print(f"WRONG  {meta_name} sort={sort}: {e}")
                if len(errors) > 6:
                    print(f"       ... and {len(errors) - 6} more for {meta_name} sort={sort}")
    if n_errors:
        print(f"C01 violated: {n_errors} reads do not match NumPy indexing of the calibrated, geometry-sorted array")
        sys.exit(1)
    print("C01 holds on all probed selectors")
    sys.exit(0)
