"""
Differential check for refactoring N of property C02 (spikeglx compression round trip / publication).

The ORIGINAL implementation is taken from a pristine export of HEAD (git archive) and the REFACTORED one
from the worktree /tmp/wt_C02/src when it carries modifications; when the worktree is clean the patch
refactor_N.diff is applied onto a second export so that the check can be replayed at any time.
Both implementations are driven through the same scenarios in twin directories and everything that is
observable is compared: returned values, reader attributes, values read for many selectors, exceptions
(type and message), log records, the trace of file-system level calls (mtscomp.compress / decompress,
Path.rename / unlink / exists / mkdir, shutil.move / copy) and the directory listing with sizes and SHA1.

Prints EQUIVALENT and exits 0 when no difference is found.
Set EQUIV_SELFTEST=1 to compare the original against itself (harness determinism check).
"""
import hashlib
import importlib
import itertools
import logging
import os
import pathlib
import re
import shutil
import subprocess
import sys
import traceback
from pathlib import Path

import numpy as np

N = 1
WT = Path('/tmp/wt_C02')
TMP = Path('/tmp/wt_C02_tmp')
BASE = TMP / f'equiv_{N}'
PATCH = WT / f'refactor_{N}.diff'
META_3A = WT / 'src' / 'tests' / 'fixtures' / 'sample3A_short_g0_t0.imec.ap.meta'
FS = 30000
CHUNK = 300  # samples per compression chunk with chunk_duration=0.01 at 30 kHz
CKW = dict(chunk_duration=0.01, n_threads=1)


# ----------------------------------------------------------------------------------------------------
# materialise the two implementations
# ----------------------------------------------------------------------------------------------------
def _export_head(dest):
    if dest.exists():
        shutil.rmtree(dest)
    dest.mkdir(parents=True)
    tar = subprocess.run(['git', '-C', str(WT), 'archive', 'HEAD', 'src'], check=True, capture_output=True).stdout
    subprocess.run(['tar', '-x', '-C', str(dest)], input=tar, check=True)
    return dest / 'src'


def _load(srcdir, tag):
    """Imports spikeglx (and its sibling modules) from srcdir and detaches them from sys.modules"""
    def purge():
        for k in list(sys.modules):
            if k in ('spikeglx', 'neuropixel') or k == 'ibldsp' or k.startswith('ibldsp.'):
                del sys.modules[k]
    purge()
    sys.path.insert(0, str(srcdir))
    try:
        mod = importlib.import_module('spikeglx')
        npx = importlib.import_module('neuropixel')
    finally:
        sys.path.remove(str(srcdir))
    assert Path(mod.__file__).resolve() == (srcdir / 'spikeglx.py').resolve(), (tag, mod.__file__)
    assert Path(npx.__file__).resolve() == (srcdir / 'neuropixel.py').resolve(), (tag, npx.__file__)
    assert mod.neuropixel is npx
    purge()
    print(f'{tag:>10}: spikeglx imported from {mod.__file__}')
    return mod


def load_implementations():
    BASE.mkdir(parents=True, exist_ok=True)
    orig_src = _export_head(BASE / 'impl_orig')
    if os.environ.get('EQUIV_SELFTEST'):
        ref_src = _export_head(BASE / 'impl_self')
        print('SELFTEST: comparing the original against itself')
    else:
        dirty = subprocess.run(['git', '-C', str(WT), 'diff', '--quiet', '--', 'src']).returncode != 0
        if dirty:
            ref_src = WT / 'src'
            print('refactored implementation: modified worktree')
        else:
            ref_src = _export_head(BASE / 'impl_ref')
            subprocess.run(['git', 'apply', '-p1', str(PATCH)], cwd=ref_src.parent, check=True)
            print(f'refactored implementation: clean worktree, {PATCH.name} applied on an export of HEAD')
        a = (orig_src / 'spikeglx.py').read_bytes()
        b = (ref_src / 'spikeglx.py').read_bytes()
        assert a != b, 'the refactored source is identical to the original one'
        assert b.count(b'\r\n') == b.count(b'\n'), 'CRLF line endings lost'
        for other in ('neuropixel.py',):
            assert (orig_src / other).read_bytes() == (ref_src / other).read_bytes()
    return _load(orig_src, 'original'), _load(ref_src, 'refactored')


# ----------------------------------------------------------------------------------------------------
# recording of observable behaviour
# ----------------------------------------------------------------------------------------------------
def sha(b):
    return hashlib.sha1(b).hexdigest()[:16]


def exc_rec(e):
    return ('EXC', type(e).__name__, str(e))


def listing(root):
    out = []
    for p in sorted(root.rglob('*')):
        if p.is_file():
            b = p.read_bytes()
            out.append((p.relative_to(root).as_posix(), len(b), sha(b)))
        else:
            out.append((p.relative_to(root).as_posix(), 'dir'))
    return out


def arr_rec(a):
    if isinstance(a, tuple):
        return tuple(arr_rec(x) for x in a)
    if isinstance(a, np.ndarray):
        return (a.dtype.str, a.shape, sha(np.ascontiguousarray(a).tobytes()))
    return ('scalar', type(a).__name__, repr(a))


class Recorder:
    """Traces file level calls and the library log while a scenario runs"""

    def __init__(self, root):
        self.root = root
        self.events = []
        self.logs = []
        self._undo = []
        self.fail = {}  # name -> predicate(args) raising an injected failure

    def _wrap(self, owner, name, label):
        original = getattr(owner, name)
        rec = self

        def wrapper(*args, **kwargs):
            rec.events.append((label, repr(args), repr(sorted(kwargs.items()))))
            pred = rec.fail.get(label)
            if pred is not None and pred(*args, **kwargs):
                raise OSError(f'injected failure in {label}')
            return original(*args, **kwargs)
        setattr(owner, name, wrapper)
        self._undo.append((owner, name, original))

    def __enter__(self):
        import mtscomp
        self._wrap(mtscomp, 'compress', 'mtscomp.compress')
        self._wrap(mtscomp, 'decompress', 'mtscomp.decompress')
        self._wrap(shutil, 'move', 'shutil.move')
        self._wrap(shutil, 'copy', 'shutil.copy')
        for meth in ('rename', 'unlink', 'exists', 'mkdir', 'glob'):
            self._wrap(pathlib.Path, meth, f'Path.{meth}')
        handler = logging.Handler()
        handler.emit = lambda record: self.logs.append((record.name, record.levelname, record.getMessage()))
        handler.setLevel(logging.DEBUG)
        self._loggers = []
        for name in ('ibllib',):
            lg = logging.getLogger(name)
            self._loggers.append((lg, lg.level, handler))
            lg.addHandler(handler)
            lg.setLevel(logging.DEBUG)
        return self

    def __exit__(self, *a):
        for owner, name, original in reversed(self._undo):
            setattr(owner, name, original)
        for lg, level, handler in self._loggers:
            lg.removeHandler(handler)
            lg.setLevel(level)


def normalise(obj, root):
    s = repr(obj)
    s = s.replace(str(root), '<ROOT>')
    s = re.sub(r'Decompression complete: [0-9.]+s', 'Decompression complete: <T>s', s)
    s = re.sub(r' at 0x[0-9a-f]+', ' at 0x..', s)
    return s


class ChunkFailure:
    """Makes the k-th compression / decompression chunk fail"""

    def __init__(self, what, k):
        import mtscomp
        self.cls = mtscomp.Writer if what == 'compress' else mtscomp.Reader
        self.name = '_compress_chunk' if what == 'compress' else '_decompress_chunk'
        self.k = k

    def __enter__(self):
        original = self.original = getattr(self.cls, self.name)
        k = self.k

        def failing(this, chunk_idx):
            if chunk_idx == k:
                raise IOError(f'injected failure at chunk {chunk_idx}')
            return original(this, chunk_idx)
        setattr(self.cls, self.name, failing)

    def __exit__(self, *a):
        setattr(self.cls, self.name, self.original)


NDIFF = 0
NSCEN = 0
UNCAUGHT = []


def both(name, scenario, shared=False):
    """Runs the scenario with both implementations and compares everything that was recorded"""
    global NDIFF, NSCEN
    NSCEN += 1
    outs = []
    for tag, mod in (('o', M_ORIG), ('r', M_REF)):
        root = BASE / 'runs' / name / ('s' if shared else tag)
        if not (shared and root.exists()):
            if root.exists():
                shutil.rmtree(root)
            root.mkdir(parents=True)
        np.random.seed(int(sha(name.encode()), 16) % (2 ** 31))  # same content for both implementations
        with Recorder(root) as rec:
            try:
                res = scenario(mod, root, rec)
            except BaseException as e:  # noqa
                res = ('UNCAUGHT', exc_rec(e))
                UNCAUGHT.append((name, tag, traceback.format_exc()))
        outs.append((normalise(res, root), [normalise(e, root) for e in rec.events], normalise(rec.logs, root)))
    if outs[0] != outs[1]:
        NDIFF += 1
        print(f'DIFFERENCE in scenario {name}')
        for part, a, b in zip(('result', 'trace', 'logs'), outs[0], outs[1]):
            if a != b:
                print(f'   {part}:\n      orig: {str(a)[:3000]}\n      ref : {str(b)[:3000]}')
    if os.environ.get('EQUIV_DUMP'):
        with open(BASE / 'dump.txt', 'a') as fid:
            fid.write(f'==== {name}\n' + '\n'.join(str(x) for x in outs[0]) + '\n')
    return outs[0]


# ----------------------------------------------------------------------------------------------------
# fixtures
# ----------------------------------------------------------------------------------------------------
def make_meta_recording(mod, folder, ns, stem='sample3A_short_g0_t0.imec.ap', corrupt=False):
    """385 channel recording with a meta data file; random content (np.random is seeded by the caller)"""
    folder.mkdir(parents=True, exist_ok=True)
    info = mod._mock_spikeglx_file(
        folder / f'{stem}.bin', META_3A, ns=ns, nc=385, sync_depth=16, random=True, corrupt=corrupt)
    return info['bin_file']


def make_flat_recording(folder, ns, nc, name='flat.bin', kind='random'):
    folder.mkdir(parents=True, exist_ok=True)
    if kind == 'random':
        d = np.random.randint(-32768, 32767, size=(ns, nc), dtype=np.int16)
    elif kind == 'zeros':
        d = np.zeros((ns, nc), dtype=np.int16)
    elif kind == 'extremes':
        d = np.where(np.random.rand(ns, nc) > 0.5, 32767, -32768).astype(np.int16)
    else:
        d = (np.cumsum(np.random.randint(-3, 4, size=(ns, nc)), axis=0) % 2000 - 1000).astype(np.int16)
    file = folder / name
    d.tofile(file)
    return file


def mts_compress(file_bin, nc, **kw):
    """Independent construction of .cbin / .ch companions (direct mtscomp call)"""
    import mtscomp
    kw = {**CKW, **kw}
    mtscomp.compress(file_bin, out=file_bin.with_suffix('.cbin'), outmeta=file_bin.with_suffix('.ch'),
                     sample_rate=FS, n_channels=nc, dtype=np.int16, quiet=True, **kw)
    return file_bin.with_suffix('.cbin')


def selectors(ns, nc):
    c = CHUNK
    nsels = [slice(0, 10), slice(c - 5, c + 5), slice(c - 1, c), slice(c, c + 1), slice(0, ns), slice(None),
             slice(ns - 5, ns), slice(ns - 5, ns + 5), slice(2 * c, 2 * c), slice(c - 1, 3 * c + 1),
             slice(10, ns, 97), 0, c - 1, c, ns - 1, -1, ns, [0, c, ns - 1], slice(ns // c * c, ns)]
    csels = [slice(None), 0, -1, slice(0, -1), slice(None, None, 3)]
    if nc >= 8:
        csels.append([1, 5, 7])
    return nsels, csels


def obs_reader(sr, full=True):
    o = {}
    for att in ('file_bin', 'file_meta_data', 'ch_file', 'nbytes', 'dtype', 'is_mtscomp', 'shape', 'ns', 'nc', 'fs',
                'nsync', 'type', 'version', 'is_open', 'rl'):
        try:
            o[att] = repr(getattr(sr, att))
        except Exception as e:
            o[att] = exc_rec(e)
    o['raw'] = type(getattr(sr, '_raw', 'absent')).__name__
    o['raw_shape'] = repr(getattr(getattr(sr, '_raw', None), 'shape', None))
    o['fileTimeSecs'] = repr(sr.meta.get('fileTimeSecs')) if sr.meta else None
    try:
        ns, nc = sr.shape
    except Exception:
        return o
    mm = getattr(getattr(sr, '_raw', None), '_mmap', None)
    if mm is not None and mm.closed:
        # the library leaves a closed memmap behind after an in-place decompression: reading it crashes the interpreter
        o['reads'] = 'closed memmap, not read'
        return o
    nsels, csels = selectors(ns, nc)
    if not full:
        nsels, csels = nsels[:6], csels[:2]
    reads = []
    for i, nsel in enumerate(nsels):
        for csel in (csels if i < 8 else csels[:1]):
            try:
                reads.append(arr_rec(sr[nsel, csel]))
            except Exception as e:
                reads.append(exc_rec(e))
        try:
            reads.append(arr_rec(sr[nsel]))
        except Exception as e:
            reads.append(exc_rec(e))
    for nsel in nsels[:4]:
        try:
            reads.append(arr_rec(sr.read(nsel)))
            reads.append(arr_rec(sr.read_samples(5, CHUNK + 5)))
        except Exception as e:
            reads.append(exc_rec(e))
        try:
            reads.append(arr_rec(np.asarray(sr._raw[nsel])))
        except Exception as e:
            reads.append(exc_rec(e))
    o['reads'] = sha(repr(reads).encode()) + f'/{len(reads)}'
    o['nexc'] = sum(1 for r in reads if r and r[0] == 'EXC')
    return o


def attempt(fn):
    try:
        return ('OK', fn())
    except Exception as e:
        return exc_rec(e)


def open_reader(mod, *args, **kwargs):
    try:
        return mod.Reader(*args, **kwargs)
    except Exception as e:
        return exc_rec(e)


def reopened(sr):
    """re-opens the reader on whatever file_bin now designates and observes it"""
    return (attempt(sr.open), obs_reader(sr, full=False))


def close(sr):
    try:
        sr.close()
    except Exception:
        pass


# ----------------------------------------------------------------------------------------------------
# scenarios
# ----------------------------------------------------------------------------------------------------
UUID1 = 'a1b2c3d4-0000-4aaa-8bbb-1234567890ab'
UUID2 = 'ffffffff-1111-4ccc-9ddd-ba0987654321'


def scenario_companion_lookup(mod, root, rec):
    """pure look-up: both implementations are run on the very same directory tree"""
    if not any(root.iterdir()):
        cases = {
            'plain': ['rec_g0_t0.imec0.ap.bin', 'rec_g0_t0.imec0.ap.meta', 'rec_g0_t0.imec0.ap.ch', 'rec_g0_t0.imec0.ap.cbin'],
            'nometa': ['rec_g0_t0.imec0.ap.bin'],
            'uuid_all': [f'rec_g0_t0.imec0.ap.{UUID1}.cbin', f'rec_g0_t0.imec0.ap.{UUID2}.ch', f'rec_g0_t0.imec0.ap.{UUID1}.meta'],
            'uuid_meta_only': [f'rec_g0_t0.imec0.ap.{UUID1}.cbin', f'rec_g0_t0.imec0.ap.{UUID2}.meta'],
            'uuid_bin_plain_meta': [f'rec_g0_t0.imec0.ap.{UUID1}.cbin', 'rec_g0_t0.imec0.ap.meta', 'rec_g0_t0.imec0.ap.ch'],
            'plain_bin_uuid_meta': ['rec_g0_t0.imec0.ap.cbin', f'rec_g0_t0.imec0.ap.{UUID2}.meta'],
            'lf_and_ap': ['rec_g0_t0.imec0.ap.cbin', 'rec_g0_t0.imec0.lf.meta', 'rec_g0_t0.imec0.lf.ch'],
            'prefix': ['rec_g0_t0.imec0.ap.cbin', 'rec_g0_t0.imec0.ap_extra.meta'],
            'empty': [],
            'directory_named': ['rec_g0_t0.imec0.ap.cbin'],
        }
        for case, files in cases.items():
            root.joinpath(case).mkdir()
            for f in files:
                root.joinpath(case, f).write_bytes(b'x')
        root.joinpath('directory_named', 'rec_g0_t0.imec0.ap.meta').mkdir()
    rec.events.clear()
    out = []
    for case in sorted(p for p in root.iterdir() if p.is_dir()):
        names = sorted(f.name for f in case.iterdir()) + [
            'rec_g0_t0.imec0.ap.bin', 'rec_g0_t0.imec0.ap.cbin', 'rec_g0_t0.imec0.ap.meta', 'nothing.bin',
            f'rec_g0_t0.imec0.ap.{UUID2}.cbin', 'noext', '.hidden']
        for nm, pattern, as_str in itertools.product(names, ('.meta', '.ch', '.cbin', '.bin', '.xyz', '', 'meta'), (False, True)):
            f = case / nm
            f = str(f) if as_str else f
            out.append((case.name, nm, pattern, as_str, attempt(lambda: mod._get_companion_file(f, pattern))))
        out.append((case.name, 'default', attempt(lambda: mod._get_companion_file(case / 'rec_g0_t0.imec0.ap.cbin'))))
    out.append(attempt(lambda: mod._get_companion_file(None)))
    out.append(attempt(lambda: mod._get_companion_file('')))
    out.append(attempt(lambda: mod._get_companion_file(root / 'plain' / 'rec_g0_t0.imec0.ap.bin', pattern=None)))
    return out


def make_entry_point_scenario(present, ns, uuid=False):
    def scenario(mod, root, rec):
        """which companion files exist x which path is handed to the reader (read only -> shared directory)"""
        stem = 'sample3A_short_g0_t0.imec.ap'
        d = root / 'data'
        if not d.exists():
            file_bin = make_meta_recording(mod, d, ns)
            if 'cbin' in present:
                mts_compress(file_bin, 385)
            if 'bin' not in present:
                file_bin.unlink()
            if 'meta' not in present:
                file_bin.with_suffix('.meta').unlink()
            if uuid:
                for f in list(d.iterdir()):
                    u = UUID1 if f.suffix in ('.cbin', '.bin') else UUID2
                    f.rename(f.with_suffix(f'.{u}{f.suffix}'))
        rec.events.clear()
        out = []
        files = sorted(d.iterdir())
        handed = files + [d / f'{stem}.{s}' for s in ('bin', 'cbin', 'meta', 'ch')]
        for f in handed:
            for kw in ({}, {'open': False}, {'ignore_warnings': True}, {'sort': False}):
                for conv in (Path, str):
                    sr = open_reader(mod, conv(f), **kw)
                    if isinstance(sr, tuple):
                        out.append((f.name, kw, conv.__name__, sr))
                        continue
                    o1 = obs_reader(sr, full=(kw == {} and conv is Path))
                    o2 = None
                    if kw.get('open') is False:
                        o2 = attempt(lambda: sr.open())
                        o2 = (o2, obs_reader(sr, full=False))
                    o3 = None
                    if kw == {}:  # context manager protocol
                        def ctx():
                            with sr as s:
                                return arr_rec(s[0:5, :])
                        o3 = attempt(ctx)
                    out.append((f.name, kw, conv.__name__, o1, o2, o3))
                    close(sr)
        # explicit companions
        for f in files:
            if f.suffix in ('.cbin', '.bin'):
                for kw in ({'meta_file': next((x for x in files if x.suffix == '.meta'), d / 'no.meta')},
                           {'ch_file': next((x for x in files if x.suffix == '.ch'), d / 'no.ch')},
                           {'ch_file': d / 'missing.ch'}):
                    sr = open_reader(mod, f, **kw)
                    out.append((f.name, kw, sr if isinstance(sr, tuple) else obs_reader(sr, full=False)))
                    close(sr)
                # flat-binary arguments
                sr = open_reader(mod, f, nc=385, ns=ns, fs=FS, meta_file=d / 'no.meta')
                out.append((f.name, 'flat', sr if isinstance(sr, tuple) else obs_reader(sr, full=False)))
                close(sr)
        return out
    return scenario


def make_open_failure_scenario():
    def scenario(mod, root, rec):
        """state of the reader after a failing open (missing / broken .ch companion)"""
        d = root / 'data'
        file_bin = make_meta_recording(mod, d, 1000)
        file_cbin = mts_compress(file_bin, 385)
        file_bin.unlink()
        out = []
        sr = mod.Reader(file_cbin, open=False)
        out.append(obs_reader(sr, full=False))
        file_cbin.with_suffix('.ch').rename(d / 'moved.away')
        out.append(attempt(sr.open))
        out.append((type(sr._raw).__name__, attempt(lambda: sr.is_open), attempt(lambda: arr_rec(sr[0:3]))))
        sr2 = mod.Reader(file_cbin, open=False, ch_file=d / 'moved.away')
        out.append(attempt(sr2.open))
        out.append(obs_reader(sr2))
        close(sr2)
        (d / 'broken.ch').write_text('{not json')
        sr3 = mod.Reader(file_cbin, open=False, ch_file=d / 'broken.ch')
        out.append(attempt(sr3.open))
        out.append((type(sr3._raw).__name__, attempt(lambda: sr3.is_open)))
        out.append(attempt(sr3.close))
        # re-open after repair
        (d / 'moved.away').rename(file_cbin.with_suffix('.ch'))
        out.append(attempt(sr.open))
        out.append(obs_reader(sr, full=False))
        close(sr)
        out.append(listing(root))
        return out
    return scenario


def make_corrupt_scenario(compressed, ignore):
    def scenario(mod, root, rec):
        """meta data and content disagree: warning + fudge"""
        d = root / 'data'
        file_bin = make_meta_recording(mod, d, 1234, corrupt=True)
        f = file_bin
        if compressed:
            f = mts_compress(file_bin, 385)
            file_bin.unlink()
        out = []
        for handed in (f, f.with_suffix('.meta')):
            sr = open_reader(mod, handed, ignore_warnings=ignore)
            out.append(sr if isinstance(sr, tuple) else obs_reader(sr))
            if not isinstance(sr, tuple) and not compressed:
                out.append(attempt(lambda: sr.compress_file(keep_original=False, **CKW)))
                out.append(obs_reader(sr, full=False))
                out.append(listing(root))
                out.append(attempt(lambda: sr.decompress_file(keep_original=False)))
                out.append(obs_reader(sr, full=False))
                out.append(reopened(sr))
            close(sr)
        # truncated binary: incomplete last frame
        if not compressed:
            with open(file_bin, 'ab') as fid:
                fid.write(b'\x01\x02\x03')
            sr = open_reader(mod, file_bin, ignore_warnings=ignore)
            out.append(sr if isinstance(sr, tuple) else obs_reader(sr, full=False))
            close(sr)
        out.append(listing(root))
        return out
    return scenario


def make_roundtrip_scenario(ns, nc, keep, flat, kind='random', ckw=None, via='bin'):
    ckw = CKW if ckw is None else ckw

    def scenario(mod, root, rec):
        """compress -> read both -> decompress -> read -> byte identity, with the directory observed at each step"""
        d = root / 'data'
        out = []
        if flat:
            file_bin = make_flat_recording(d, ns, nc, kind=kind)
            rkw = dict(nc=nc, ns=ns, fs=FS)
        else:
            file_bin = make_meta_recording(mod, d, ns)
            rkw = {}
        raw_sha = sha(file_bin.read_bytes())
        handed = file_bin if via == 'bin' else file_bin.with_suffix('.meta')
        sr = mod.Reader(handed, **rkw)
        out.append(('before', obs_reader(sr), listing(root)))
        res = attempt(lambda: sr.compress_file(keep_original=keep, **ckw))
        out.append(('compress', res, obs_reader(sr, full=False), listing(root), reopened(sr)))
        close(sr)
        file_cbin = file_bin.with_suffix('.cbin')
        for handed in [file_cbin] + ([] if flat else [file_cbin.with_suffix('.meta')]) + ([file_bin] if keep else []):
            s2 = open_reader(mod, handed, **rkw)
            out.append(('reopen', handed.name, s2 if isinstance(s2, tuple) else obs_reader(s2)))
            close(s2)
        sc = mod.Reader(file_cbin, **rkw)
        for dkw in (dict(), dict(overwrite=True), dict(out=d / 'elsewhere' / 'copy.bin'), dict(out=d / 'other.bin'),
                    dict(out=str(d / 'string.bin'), check_after_decompress=False), dict(write_output=False),
                    dict(out=None), dict(out=d / 'flat.cbin'), dict(cmeta=None)):
            r = attempt(lambda: sc.decompress_file(keep_original=True, **dkw))
            out.append(('decompress keep', sorted(dkw), r, repr(sc.file_bin), listing(root)))
        res = attempt(lambda: sc.decompress_file(keep_original=False, overwrite=True))
        out.append(('decompress inplace', res, obs_reader(sc), listing(root), reopened(sc)))
        out.append(('bytes identical', file_bin.exists() and sha(file_bin.read_bytes()) == raw_sha))
        res = attempt(lambda: sc.decompress_file(keep_original=False))
        out.append(('decompress again', res, listing(root)))
        res = attempt(lambda: sc.compress_file(keep_original=False, **ckw))
        out.append(('compress inplace', res, obs_reader(sc, full=False), listing(root), reopened(sc)))
        res = attempt(lambda: sc.compress_file(keep_original=False, **ckw))
        out.append(('compress again', res, listing(root)))
        close(sc)
        return out
    return scenario


def make_scratch_scenario(where, prior):
    def scenario(mod, root, rec):
        d = root / 'data'
        file_bin = make_meta_recording(mod, d, 1000)
        raw = file_bin.read_bytes()
        file_cbin = mts_compress(file_bin, 385)
        file_bin.unlink()
        scratch = {'none': None, 'dir': root / 'scratch' / 'deep', 'same': d, 'str': str(root / 'scratch_str')}[where]
        target_dir = d if where in ('none', 'same') else Path(scratch)
        if prior == 'bin':
            target_dir.mkdir(parents=True, exist_ok=True)
            (target_dir / file_bin.name).write_bytes(b'previous content')
        elif prior == 'temp':
            target_dir.mkdir(parents=True, exist_ok=True)
            (target_dir / file_bin.name).with_suffix('.bin_temp').write_bytes(b'stale partial file')
        elif prior == 'nometa':
            file_cbin.with_suffix('.meta').rename(d / 'meta.aside')
        out = []
        for handed in (file_cbin, file_cbin.with_suffix('.meta')):
            sr = open_reader(mod, handed)
            if isinstance(sr, tuple):
                out.append(sr)
                continue
            args = () if where == 'none' else (scratch,)
            r = attempt(lambda: sr.decompress_to_scratch(*args))
            out.append((handed.name, r, obs_reader(sr, full=False), listing(root)))
            if r[0] == 'OK' and Path(r[1]).exists():
                out.append(('identical', Path(r[1]).read_bytes() == raw))
                s2 = open_reader(mod, r[1])
                out.append(s2 if isinstance(s2, tuple) else obs_reader(s2, full=False))
                close(s2)
            r = attempt(lambda: sr.decompress_to_scratch(scratch_dir=scratch))
            out.append(('second call', r, listing(root)))
            close(sr)
        # on a reader of an uncompressed file
        fb = next(iter(sorted(root.rglob('*.bin'))), None)
        if fb is not None and fb.with_suffix('.meta').exists():
            sb = open_reader(mod, fb)
            if not isinstance(sb, tuple):
                out.append(('on bin', attempt(lambda: sb.decompress_to_scratch()),
                            attempt(lambda: sb.decompress_to_scratch(root / 'scratch2')), listing(root)))
                close(sb)
        return out
    return scenario


def make_compress_failure_scenario(k, keep, ns=1000):
    def scenario(mod, root, rec):
        d = root / 'data'
        file_bin = make_meta_recording(mod, d, ns)
        out = [listing(root)]
        sr = mod.Reader(file_bin)
        with ChunkFailure('compress', k):
            out.append(attempt(lambda: sr.compress_file(keep_original=keep, **CKW)))
        out.append((obs_reader(sr, full=False), listing(root)))
        # and a later successful attempt on top of the left-overs
        out.append(attempt(lambda: sr.compress_file(keep_original=keep, **CKW)))
        out.append((obs_reader(sr, full=False), listing(root)))
        close(sr)
        return out
    return scenario


def make_decompress_failure_scenario(k, mode, ns=1000):
    def scenario(mod, root, rec):
        d = root / 'data'
        file_bin = make_meta_recording(mod, d, ns)
        file_cbin = mts_compress(file_bin, 385)
        file_bin.unlink()
        out = [listing(root)]
        sr = mod.Reader(file_cbin)
        calls = {
            'inplace': lambda: sr.decompress_file(keep_original=False),
            'keep': lambda: sr.decompress_file(keep_original=True, overwrite=True),
            'scratch_none': lambda: sr.decompress_to_scratch(),
            'scratch_dir': lambda: sr.decompress_to_scratch(root / 'scratch'),
        }
        with ChunkFailure('decompress', k):
            out.append(attempt(calls[mode]))
        out.append((obs_reader(sr, full=False), listing(root)))
        out.append(attempt(calls[mode]))
        out.append((obs_reader(sr, full=False), listing(root)))
        close(sr)
        return out
    return scenario


def make_oserror_scenario(label, mode, keep):
    def scenario(mod, root, rec):
        """failure of the publication step itself (rename / move / unlink / copy)"""
        d = root / 'data'
        file_bin = make_meta_recording(mod, d, 700)
        if mode != 'compress':
            mts_compress(file_bin, 385)
            file_bin.unlink()
            sr = mod.Reader(file_bin.with_suffix('.cbin'))
        else:
            sr = mod.Reader(file_bin)
        rec.events.clear()
        count = {'n': 0}

        def pred(*args, **kwargs):
            count['n'] += 1
            return str(root) in repr(args)
        rec.fail[label] = pred
        call = {
            'compress': lambda: sr.compress_file(keep_original=keep, **CKW),
            'decompress': lambda: sr.decompress_file(keep_original=keep),
            'scratch': lambda: sr.decompress_to_scratch(None if keep else root / 'scratch'),
        }[mode]
        out = [attempt(call)]
        rec.fail.clear()
        out.append((count['n'], obs_reader(sr, full=False), listing(root)))
        close(sr)
        return out
    return scenario


def scenario_misuse(mod, root, rec):
    d = root / 'data'
    file_bin = make_meta_recording(mod, d, 900)
    out = []
    sr = mod.Reader(file_bin)
    out.append(('decompress on bin', attempt(lambda: sr.decompress_file()), attempt(lambda: sr.decompress_file(out=d / 'x.bin')),
                attempt(lambda: sr.decompress_file(keep_original=False)), listing(root)))
    out.append(('scratch on bin', attempt(lambda: sr.decompress_to_scratch()), listing(root)))
    for bad in (dict(out=d / 'mine.cbin'), dict(outmeta=d / 'mine.ch'), dict(sample_rate=1), dict(n_channels=3), dict(dtype='f4'),
                dict(unknown_option=3), dict(chunk_duration=-1), dict(algorithm='lzma')):
        out.append(('compress kwargs', sorted(bad), attempt(lambda: sr.compress_file(**bad)), listing(root)))
    for keep in (0, 1, '', 'no', None, [], [0], np.array([1, 2]), np.bool_(False)):
        s = mod.Reader(file_bin)
        out.append(('keep truthiness', repr(keep), attempt(lambda: s.compress_file(keep_original=keep, **CKW)),
                    repr(s.file_bin), listing(root)))
        close(s)
        if not file_bin.exists():
            s = mod.Reader(file_bin.with_suffix('.cbin'))
            out.append(('keep truthiness back', repr(keep), attempt(lambda: s.decompress_file(keep_original=keep)),
                        repr(s.file_bin), listing(root)))
            close(s)
    out.append(('positional', attempt(lambda: sr.compress_file(True)), attempt(lambda: sr.compress_file(True, 3)), listing(root)))
    close(sr)
    sc = mod.Reader(file_bin.with_suffix('.cbin'))
    out.append(('compress on cbin', attempt(lambda: sc.compress_file()), attempt(lambda: sc.compress_file(keep_original=False)),
                listing(root)))
    for keep in (0, 1, '', None, np.array([1, 2])):
        out.append(('keep truthiness d', repr(keep), attempt(lambda: sc.decompress_file(keep_original=keep, overwrite=True)),
                    repr(sc.file_bin), listing(root)))
        if not sc.is_mtscomp:
            out.append(attempt(lambda: sc.compress_file(keep_original=False, **CKW)))
    out.append(('positional d', attempt(lambda: sc.decompress_file(True, 1)), listing(root)))
    out.append(('scratch args', attempt(lambda: sc.decompress_to_scratch('relative_scratch_string')),
                attempt(lambda: sc.decompress_to_scratch(scratch_dir=3)), listing(root)))
    # closed reader / reader never opened
    sc.close()
    out.append(('closed', attempt(lambda: sc.decompress_file(keep_original=True, overwrite=True)), listing(root)))
    s0 = mod.Reader(file_bin.with_suffix('.cbin'), open=False)
    out.append(('never opened', attempt(lambda: s0.decompress_file(keep_original=False, overwrite=True)),
                obs_reader(s0, full=False), listing(root)))
    s0 = mod.Reader(file_bin, open=False)
    out.append(('never opened c', attempt(lambda: s0.compress_file(keep_original=False, **CKW)),
                obs_reader(s0, full=False), listing(root)))
    # only the meta data file left
    for f in list(d.iterdir()):
        if f.suffix != '.meta':
            f.unlink()
    sm = open_reader(mod, file_bin.with_suffix('.meta'))
    out.append(('meta only', sm if isinstance(sm, tuple) else (
        repr(sm.file_bin), repr(sm.nbytes), attempt(lambda: sm.is_open), attempt(lambda: sm.compress_file()),
        attempt(lambda: sm.decompress_file()), attempt(lambda: sm.decompress_file(out=d / 'o.bin')),
        attempt(lambda: sm.decompress_to_scratch()), attempt(lambda: sm.decompress_to_scratch(root / 's')),
        attempt(lambda: sm.open()), attempt(lambda: arr_rec(sm[0:4])))))
    out.append(listing(root))
    return out


def scenario_stale_targets(mod, root, rec):
    """final names already taken before the call"""
    d = root / 'data'
    file_bin = make_meta_recording(mod, d, 800)
    out = []
    file_bin.with_suffix('.cbin').write_bytes(b'old cbin')
    file_bin.with_suffix('.ch').write_text('old ch')
    file_bin.with_suffix('.cbin_tmp').write_bytes(b'old tmp')
    sr = mod.Reader(file_bin)
    out.append((attempt(lambda: sr.compress_file(**CKW)), listing(root)))
    out.append((attempt(lambda: sr.compress_file(keep_original=False, **CKW)), listing(root), obs_reader(sr)))
    file_bin.write_bytes(b'old bin')
    out.append((attempt(lambda: sr.decompress_file()), listing(root)))
    out.append((attempt(lambda: sr.decompress_file(overwrite=False)), listing(root)))
    out.append((attempt(lambda: sr.decompress_to_scratch()), listing(root)))
    out.append((attempt(lambda: sr.decompress_file(keep_original=False, overwrite=True)), listing(root), obs_reader(sr)))
    close(sr)
    return out


def scenario_online_reader(mod, root, rec):
    d = root / 'data'
    file_bin = make_meta_recording(mod, d, 600)
    out = []
    sr = mod.OnlineReader(file_bin)
    out.append(obs_reader(sr, full=False))
    out.append((attempt(lambda: sr.compress_file(keep_original=False, **CKW)), obs_reader(sr, full=False), listing(root)))
    out.append((attempt(lambda: sr.decompress_to_scratch(root / 'sc')), listing(root)))
    out.append((attempt(lambda: sr.decompress_file(keep_original=False)), obs_reader(sr, full=False), listing(root)))
    close(sr)
    out.append(attempt(lambda: arr_rec(mod.read(file_bin, 0, 100))))
    return out


def main():
    global M_ORIG, M_REF
    M_ORIG, M_REF = load_implementations()
    shutil.rmtree(BASE / 'runs', ignore_errors=True)

    both('companion_lookup', scenario_companion_lookup, shared=True)
    for present in (('bin', 'meta'), ('cbin', 'meta'), ('bin', 'cbin', 'meta'), ('meta',), ('bin',), ('cbin',), ('bin', 'cbin')):
        both('entry_' + '_'.join(present), make_entry_point_scenario(present, 1000), shared=True)
    both('entry_uuid_cbin', make_entry_point_scenario(('cbin', 'meta'), 650, uuid=True), shared=True)
    both('entry_uuid_both', make_entry_point_scenario(('bin', 'cbin', 'meta'), 650, uuid=True), shared=True)
    both('open_failure', make_open_failure_scenario())
    for compressed, ignore in itertools.product((False, True), (False, True)):
        both(f'corrupt_{compressed}_{ignore}', make_corrupt_scenario(compressed, ignore))

    # round trips: meta based (385 channels) for sample counts around the chunk size
    for ns in (17, CHUNK - 1, CHUNK, CHUNK + 1, 3 * CHUNK, 1000):
        for keep in (True, False):
            both(f'roundtrip_meta_{ns}_{keep}', make_roundtrip_scenario(ns, 385, keep, flat=False))
    both('roundtrip_meta_via_meta', make_roundtrip_scenario(777, 385, False, flat=False, via='meta'))
    both('roundtrip_meta_default_chunks', make_roundtrip_scenario(30000 + 17, 385, False, flat=False, ckw={}))
    both('roundtrip_meta_threads', make_roundtrip_scenario(2000, 385, True, flat=False, ckw=dict(chunk_duration=0.01, n_threads=3)))
    both('roundtrip_meta_nocheck', make_roundtrip_scenario(
        1000, 385, False, flat=False, ckw=dict(chunk_duration=0.02, n_threads=1, check_after_compress=False, do_spatial_diff=True)))
    # flat binaries: 1..385 channels, several contents
    rng = np.random.RandomState(20260102)
    shapes = [(1, 1), (CHUNK, 1), (CHUNK + 1, 2), (2 * CHUNK - 1, 7), (901, 16), (650, 64), (333, 384), (1001, 385), (5, 385)]
    shapes += [(int(rng.randint(1, 1500)), int(rng.randint(1, 386))) for _ in range(8)]
    for i, (ns, nc) in enumerate(shapes):
        kind = ('random', 'zeros', 'extremes', 'walk')[i % 4]
        both(f'roundtrip_flat_{ns}_{nc}_{kind}', make_roundtrip_scenario(ns, nc, bool(i % 2), flat=True, kind=kind))

    for where in ('none', 'dir', 'same', 'str'):
        for prior in ('nothing', 'bin', 'temp', 'nometa'):
            both(f'scratch_{where}_{prior}', make_scratch_scenario(where, prior))

    nchunks = int(np.ceil(1000 / CHUNK))
    for k in range(nchunks):
        for keep in (True, False):
            both(f'fail_compress_{k}_{keep}', make_compress_failure_scenario(k, keep))
        for mode in ('inplace', 'keep', 'scratch_none', 'scratch_dir'):
            both(f'fail_decompress_{k}_{mode}', make_decompress_failure_scenario(k, mode))
    for label, mode in (('Path.rename', 'compress'), ('Path.unlink', 'compress'), ('mtscomp.compress', 'compress'),
                        ('Path.unlink', 'decompress'), ('mtscomp.decompress', 'decompress'),
                        ('shutil.move', 'scratch'), ('shutil.copy', 'scratch'), ('mtscomp.decompress', 'scratch'),
                        ('Path.mkdir', 'scratch'), ('Path.exists', 'scratch'), ('Path.exists', 'compress')):
        for keep in (True, False):
            both(f'oserror_{label}_{mode}_{keep}', make_oserror_scenario(label, mode, keep))

    both('misuse', scenario_misuse)
    both('stale_targets', scenario_stale_targets)
    both('online_reader', scenario_online_reader)

    for name, tag, tb in UNCAUGHT:
        print(f'note: scenario {name} ({tag}) ended with an uncaught exception\n{tb}')
    print(f'{NSCEN} scenarios run, {NDIFF} with differences')
    if NDIFF:
        print('NOT EQUIVALENT')
        return 1
    shutil.rmtree(BASE / 'runs', ignore_errors=True)
    print('EQUIVALENT')
    return 0


if __name__ == '__main__':
    sys.exit(main())
