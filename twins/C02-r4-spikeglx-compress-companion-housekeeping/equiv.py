import sys, os; sys.path.insert(0, os.path.join(os.path.dirname(os.path.abspath(__file__)), "src"))
"""
Differential equivalence check for the house-keeping refactoring of the compression / companion-file
code of spikeglx.py (property C02: compression is transparent, lossless and atomically published).

The ORIGINAL implementations of every function touched by the patch are copied verbatim below
(`_get_companion_file`, `Reader.__init__`, `Reader.open`, `Reader.compress_file`, `Reader.decompress_file`,
`Reader.decompress_to_scratch`) as `_get_companion_file` and the methods of `RefReader`.  The module imported
from ./src is exercised side by side with the reference on several hundreds of seeded scenarios, each one played in
two identical scratch directories; everything observable is compared exactly: returned values and their types,
array values / dtypes / shapes for many selectors, reader attributes, exception types, log records and the
names and contents of all files left on disk (also after failures injected at each compression chunk).

Exits 0 if everything is identical, 1 with a message otherwise.
"""
import hashlib
import logging
import re
import shutil
import tempfile
import time
import traceback
import uuid
from pathlib import Path

import numpy as np

import mtscomp
import one.alf.path

import neuropixel
import spikeglx
from spikeglx import (  # noqa  names used by the verbatim reference code below
    read_meta_data,
    _conversion_sample2v_from_meta,
    geometry_from_meta,
    _logger,
)

HERE = Path(__file__).resolve().parent
FIXTURES = HERE.joinpath("src", "tests", "fixtures")
# no progress bars: same pass-through for the reference and the refactored code
mtscomp.tqdm = lambda it, **kwargs: it


# ----------------------------------------------------------------------------------------------
# Reference: verbatim copies of the original implementations
# ----------------------------------------------------------------------------------------------
def _get_companion_file(sglx_file, pattern='.meta'):
    # on SDSC there is a possibility that there is an UUID string in the filename
    sglx_file = Path(sglx_file)
    companion_file = sglx_file.with_suffix(pattern)
    if not companion_file.exists():
        search_pattern = f"{one.alf.path.remove_uuid_string(sglx_file).stem}*{pattern}"
        companion_file = next(sglx_file.parent.glob(search_pattern), companion_file)
    return companion_file


class RefReader(spikeglx.Reader):
    """The original methods, on top of whatever the module in ./src provides for the rest of the reader"""

    def __init__(
        self,
        sglx_file,
        open=True,
        nc=None,
        ns=None,
        fs=None,
        dtype="int16",
        s2v=None,
        nsync=None,
        ignore_warnings=False,
        meta_file=None,
        ch_file=None,
        sort=True
    ):
        """
        An interface for reading data from a SpikeGLX file
        :param sglx_file: Path to a SpikeGLX file (compressed or otherwise), or to a meta-data file
        :param open: when True the file is opened
        :param sort: (True) by default always return channels sorted by shank, row and column. If set to false,
        the data will be returned as written on disk, for NP2 versions this may result in interleaved shanks
        """
        self.geometry = None
        self.ignore_warnings = ignore_warnings
        sglx_file = Path(sglx_file)
        meta_file = meta_file or _get_companion_file(sglx_file, '.meta')
        # only used if MTSCOMP compressed
        self.ch_file = ch_file

        if meta_file == sglx_file:
            # if a meta-data file is provided, try to get the binary file
            self.file_bin = next(
                (f for f in (sglx_file.with_suffix(".bin"), sglx_file.with_suffix(".cbin")) if f.exists()),
                None,
            )
        else:
            self.file_bin = sglx_file
        self.nbytes = self.file_bin.stat().st_size if self.file_bin else None
        self.dtype = np.dtype(dtype)

        if not meta_file.exists():
            # if no meta-data file is provided, try to get critical info from the binary file
            # by seeing if filesize checks out with neuropixel 384 channels
            if self.file_bin.stat().st_size / 384 % 2 == 0:
                nc = nc or 384
                ns = ns or self.file_bin.stat().st_size / 2 / 384
                fs = fs or 30000
            elif self.file_bin.stat().st_size / 385 % 2 == 0:
                nc = nc or 385
                ns = ns or self.file_bin.stat().st_size / 2 / 385
                fs = fs or 30000
                nsync = nsync or 1

            err_str = "Instantiating an Reader without meta data requires providing nc, fs and nc parameters"
            assert nc is not None and fs is not None and nc is not None, err_str
            self.file_meta_data = None
            self.meta = None
            self._nc, self._fs, self._ns = (int(nc), int(fs), int(ns))
            # handles default parameters: if int16 we assume it's a raw recording, we've checked the
            # multiple of the file size above to determine if there is a sync or not
            self._nsync = nsync or 0
            if s2v is None:
                s2v = neuropixel.S2V_AP if self.dtype == np.dtype("int16") else 1.0
            self.channel_conversion_sample2v = {"samples": np.ones(nc) * s2v}
            if self._nsync > 0:
                self.channel_conversion_sample2v["samples"][-nsync:] = 1
            self.geometry = neuropixel.trace_header(version=1)
        else:
            # normal case we continue reading and interpreting the metadata file
            self.file_meta_data = meta_file
            self.meta = read_meta_data(meta_file)
            self.channel_conversion_sample2v = _conversion_sample2v_from_meta(self.meta)
            self._raw = None
            self.geometry, order = geometry_from_meta(self.meta, return_index=True, sort=sort)
            self.raw_channel_order = np.arange(self.nc)
            if self.geometry is not None:  # nidq files won't return any geometry here
                self.raw_channel_order[:order.size] = order
        if open and self.file_bin:
            self.open()

    def open(self):
        # if we are not looking at a compressed file, use a memmap, otherwise instantiate mtscomp
        sglx_file = str(self.file_bin)
        if self.is_mtscomp:
            self._raw = mtscomp.Reader()
            ch_file = self.ch_file or _get_companion_file(sglx_file, '.ch')
            self._raw.open(self.file_bin, ch_file)
            if self._raw.shape != (self.ns, self.nc):
                ftsec = self._raw.shape[0] / self.fs
                if not self.ignore_warnings:  # avoid the checks for streaming data
                    _logger.warning(
                        f"{sglx_file} : meta data and compressed chunks dont checkout\n"
                        f"File duration: expected {self.meta['fileTimeSecs']},"
                        f" actual {ftsec}\n"
                        f"Will attempt to fudge the meta-data information."
                    )
                self.meta["fileTimeSecs"] = ftsec
        else:
            if self.nc * self.ns * self.dtype.itemsize != self.nbytes:
                # only the complete sample frames present in the file are exposed
                ftsec = (
                    self.file_bin.stat().st_size // (self.dtype.itemsize * self.nc)
                ) / self.fs
                if self.meta is not None:
                    if not self.ignore_warnings:
                        _logger.warning(
                            f"{sglx_file} : meta data and filesize do not checkout\n"
                            f"File size: expected {self.meta['fileSizeBytes']},"
                            f" actual {self.file_bin.stat().st_size}\n"
                            f"File duration: expected {self.meta['fileTimeSecs']},"
                            f" actual {ftsec}\n"
                            f"Will attempt to fudge the meta-data information."
                        )
                    self.meta["fileTimeSecs"] = ftsec
            self._raw = np.memmap(
                sglx_file, dtype=self.dtype, mode="r", shape=(self.ns, self.nc)
            )

    def compress_file(self, keep_original=True, **kwargs):
        """
        Compresses
        :param keep_original: defaults True. If False, the original uncompressed file is deleted
         and the current spikeglx.Reader object is modified in place
        :param kwargs:
        :return: pathlib.Path of the compressed *.cbin file
        """
        file_tmp = self.file_bin.with_suffix(".cbin_tmp")
        assert not self.is_mtscomp
        mtscomp.compress(
            self.file_bin,
            out=file_tmp,
            outmeta=self.file_bin.with_suffix(".ch"),
            sample_rate=self.fs,
            n_channels=self.nc,
            dtype=self.dtype,
            **kwargs,
        )
        file_out = file_tmp.with_suffix(".cbin")
        file_tmp.rename(file_out)
        if not keep_original:
            self.file_bin.unlink()
            self.file_bin = file_out
        return file_out

    def decompress_file(self, keep_original=True, **kwargs):
        """
        Decompresses a mtscomp file
        :param keep_original: defaults True. If False, the original compressed file (input)
        is deleted and the current spikeglx.Reader object is modified in place
        NB: This is not equivalent to overwrite (which replaces the output file)
        :return: pathlib.Path of the decompressed *.bin file
        """
        if "out" not in kwargs:
            kwargs["out"] = self.file_bin.with_suffix(".bin")
        assert self.is_mtscomp
        r = mtscomp.decompress(
            self.file_bin, self.file_bin.with_suffix(".ch"), **kwargs
        )
        r.close()
        if not keep_original:
            self.close()
            self.file_bin.unlink()
            self.file_bin.with_suffix(".ch").unlink()
            self.file_bin = kwargs["out"]
        return kwargs["out"]

    def decompress_to_scratch(self, scratch_dir=None):
        """
        Decompresses the file to a temporary directory
        Copy over the metadata file
        """
        if scratch_dir is None:
            bin_file = Path(self.file_bin).with_suffix('.bin')
        else:
            scratch_dir.mkdir(exist_ok=True, parents=True)
            bin_file = Path(scratch_dir).joinpath(self.file_bin.name).with_suffix('.bin')
            shutil.copy(self.file_meta_data, bin_file.with_suffix('.meta'))
        if not bin_file.exists():
            t0 = time.time()
            _logger.info('File is compressed, decompressing to a temporary file...')
            self.decompress_file(
                keep_original=True, out=bin_file.with_suffix('.bin_temp'), check_after_decompress=False, overwrite=True
            )
            shutil.move(bin_file.with_suffix('.bin_temp'), bin_file)
            _logger.info(f"Decompression complete: {time.time() - t0:.2f}s")
        return bin_file


# ----------------------------------------------------------------------------------------------
# Harness
# ----------------------------------------------------------------------------------------------
IMPLEMENTATIONS = {
    "ref": (RefReader, _get_companion_file),
    "new": (spikeglx.Reader, spikeglx._get_companion_file),
}
TEMPLATES = [  # (meta-data fixture, stem of the mock recording)
    ("sample3A_g0_t0.imec.ap.meta", "rec3A_g0_t0.imec.ap"),
    ("sample3A_376_channels.ap.meta", "rec376_g0_t0.imec.ap"),
    ("sample3A_g0_t0.imec.lf.meta", "rec3A_g0_t0.imec.lf"),
    ("sample3B2_exported.imec0.ap.meta", "rec3B2_g0_t0.imec0.ap"),
    ("sample3B_g0_t0.imec1.ap.meta", "rec3B_g0_t0.imec1.ap"),
    ("sample3B_g0_t0.nidq.meta", "rec3B_g0_t0.nidq"),
    ("sampleNP2.4_4shanks_g0_t0.imec.ap.meta", "recNP24_g0_t0.imec.ap"),
    ("sampleNP2.1_g0_t0.imec.ap.meta", "recNP21_g0_t0.imec.ap"),
]
_TEMPLATE_CACHE = {}


class InjectedFailure(OSError):
    pass


class LogCapture(logging.Handler):
    def __init__(self):
        super().__init__(level=logging.DEBUG)
        self.records = []

    def emit(self, record):
        self.records.append((record.levelname, record.getMessage()))


class fail_at:
    """Makes mtscomp fail at the chunk k of the compression ('compress') or of the decompression ('decompress')"""

    def __init__(self, what=None, k=None):
        self.what, self.k, self.objects = what, k, []

    def __enter__(self):
        if self.what == "compress":
            self.target, self.name = mtscomp.Writer, "_compress_chunk"
        elif self.what == "decompress":
            self.target, self.name = mtscomp.Reader, "_decompress_chunk"
        else:
            return self
        original = self.original = getattr(self.target, self.name)
        ctx = self

        def wrapper(obj, chunk_idx):
            ctx.objects.append(obj)
            if chunk_idx == ctx.k:
                raise InjectedFailure(f"injected failure at chunk {chunk_idx}")
            return original(obj, chunk_idx)

        setattr(self.target, self.name, wrapper)
        return self

    def __exit__(self, *args):
        if self.what is None:
            return False
        setattr(self.target, self.name, self.original)
        for obj in self.objects:  # release the thread pools left behind by the failure
            pool = getattr(obj, "pool", None)
            if pool is not None:
                try:
                    pool.terminate()
                except Exception:
                    pass
        return False


def attempt(fun):
    try:
        return ("ok", fun())
    except Exception as e:  # noqa
        return ("exception", type(e).__name__)


def normalise(x, wd):
    """Makes an observation independent of the scratch directory it was made in"""
    if isinstance(x, Path):
        return ("<%s>" % type(x).__name__, str(x).replace(str(wd), "<WD>"))
    if isinstance(x, str):
        x = x.replace(str(wd), "<WD>")
        return re.sub(r"Decompression complete: [0-9.]+s", "Decompression complete: <T>s", x)
    if isinstance(x, (list, tuple)):
        return type(x)(normalise(i, wd) for i in x)
    if isinstance(x, dict):
        return {k: normalise(v, wd) for k, v in x.items()}
    if isinstance(x, np.memmap):
        return ("<memmap>", np.array(x))
    if isinstance(x, spikeglx.Reader):
        return normalise(observe_reader(x), wd)
    return x


def same(a, b):
    if type(a) is not type(b):
        return False
    if isinstance(a, np.ndarray):
        if a.dtype != b.dtype or a.shape != b.shape:
            return False
        if a.dtype.kind in "fc":
            return bool(np.array_equal(a, b, equal_nan=True))
        return bool(np.array_equal(a, b))
    if isinstance(a, (list, tuple)):
        return len(a) == len(b) and all(same(i, j) for i, j in zip(a, b))
    if isinstance(a, dict):
        return list(a.keys()) == list(b.keys()) and all(same(a[k], b[k]) for k in a)
    if isinstance(a, float) and a != a:
        return b != b
    return bool(a == b)


def first_difference(a, b, path="obs"):
    if type(a) is type(b) and isinstance(a, (list, tuple)) and len(a) == len(b):
        for n, (i, j) in enumerate(zip(a, b)):
            if not same(i, j):
                return first_difference(i, j, f"{path}[{n}]")
    if type(a) is type(b) and isinstance(a, dict) and list(a) == list(b):
        for k in a:
            if not same(a[k], b[k]):
                return first_difference(a[k], b[k], f"{path}[{k!r}]")
    return f"{path}: reference {a!r:.400} != refactored {b!r:.400}"


def snapshot(wd):
    """names and contents of all the files in the scratch directory"""
    return [
        (p.relative_to(wd).as_posix(), hashlib.sha1(p.read_bytes()).hexdigest())
        for p in sorted(wd.rglob("*")) if p.is_file()
    ]


def template(name):
    if name not in _TEMPLATE_CACHE:
        file_meta = FIXTURES.joinpath(name)
        md = read_meta_data(file_meta)
        _TEMPLATE_CACHE[name] = (
            file_meta.read_text().splitlines(), int(md["nSavedChans"]), spikeglx._get_fs_from_meta(md))
    return _TEMPLATE_CACHE[name]


def make_uuid(rng, valid=True):
    """an UUID string that the ALF specification recognises (version 4), or one it does not (version 1)"""
    return str(uuid.UUID(bytes=rng.bytes(16), version=4 if valid else 1))


def make_data(rng, ns, nc, dtype=np.int16):
    kind = rng.integers(0, 4)
    if kind == 0:  # white noise on the full range
        data = rng.integers(-32768, 32767, size=(ns, nc), endpoint=True)
    elif kind == 1:  # random walk, compressible
        data = np.cumsum(rng.integers(-3, 3, size=(ns, nc), endpoint=True), axis=0)
    elif kind == 2:  # constant with saturated samples
        data = np.full((ns, nc), int(rng.integers(-100, 100)))
        data[rng.random((ns, nc)) < 0.01] = 32767
        data[rng.random((ns, nc)) < 0.01] = -32768
    else:  # each channel its own value, sync-like last channel
        data = np.tile(np.arange(nc) * 7 - 1200, (ns, 1))
        data[:, -1] = rng.integers(0, 2 ** 15, size=ns)
    return data.astype(dtype)


def write_recording(wd, name, stem, ns, rng, ns_meta=None, extra_bytes=0, cut_bytes=0):
    """writes stem.bin and stem.meta in wd, from a meta-data fixture"""
    lines, nc, fs = template(name)
    ns_meta = ns if ns_meta is None else ns_meta
    out = []
    for line in lines:
        if line.startswith("fileSizeBytes"):
            line = f"fileSizeBytes={ns_meta * nc * 2}"
        if line.startswith("fileTimeSecs"):
            line = f"fileTimeSecs={ns_meta / fs}"
        out.append(line)
    wd.joinpath(stem + ".meta").write_text("\n".join(out) + "\n")
    data = make_data(rng, ns, nc)
    raw = data.tobytes() + bytes(rng.integers(0, 255, size=extra_bytes, dtype=np.uint8))
    wd.joinpath(stem + ".bin").write_bytes(raw[:len(raw) - cut_bytes] if cut_bytes else raw)
    return nc, fs


def make_selectors(rng, ns, nc, csamp):
    """sample / channel selectors, in particular slices positioned around the chunk boundaries"""
    sels = [(slice(None), slice(None)), (slice(0, ns), slice(0, nc)), (0, slice(None)), (-1, slice(None)),
            (slice(None), -1), (slice(None), 0), (ns - 1, nc - 1), (slice(ns, ns + 5), slice(None)),
            (slice(-3, None), slice(None, -1))]
    bounds = list(range(0, ns, csamp)) + [ns]
    for _ in range(8):
        b = int(rng.choice(bounds))
        first = int(np.clip(b + rng.integers(-3, 3), 0, ns))
        last = int(np.clip(first + rng.choice([0, 1, 2, csamp - 1, csamp, csamp + 1, 2 * csamp + 3, ns]), 0, ns + 2))
        c0 = int(rng.integers(0, nc))
        csel = [slice(None), slice(c0, None), slice(None, c0 + 1), c0, slice(None, None, 3),
                np.sort(rng.choice(nc, size=min(nc, 5), replace=False)), [c0]][int(rng.integers(0, 7))]
        sels.append((slice(first, last), csel))
    for _ in range(3):
        sels.append((slice(int(rng.integers(0, ns)), None, int(rng.integers(1, 4))), slice(None)))
        sels.append((int(rng.integers(-ns, ns)), int(rng.integers(-nc, nc))))
        sels.append((np.sort(rng.choice(ns, size=min(ns, 6), replace=False)), slice(None)))
    sels.append((slice(-5, 10 ** 9), slice(None)))
    sels.append((ns + 3, 0))
    sels.append((0, nc))
    return sels


def observe_reader(r):
    """everything the reader exposes about the recording it resolved to"""
    obs = {"attributes": sorted(vars(r).keys())}
    for k in ("file_bin", "file_meta_data", "ch_file", "nbytes", "dtype", "ignore_warnings", "_nc", "_fs", "_ns",
              "_nsync", "raw_channel_order"):
        obs[k] = getattr(r, k, "<missing>")
    obs["raw_type"] = type(getattr(r, "_raw", "<missing>")).__name__
    obs["raw_shape"] = attempt(lambda: tuple(r._raw.shape))
    obs["raw_dtype"] = attempt(lambda: r._raw.dtype)
    for k in ("shape", "is_mtscomp", "is_open", "ns", "nc", "fs", "nsync", "type", "version", "major_version", "rl",
              "sample2volts", "range_volts"):
        obs[k] = attempt(lambda: getattr(r, k))
    obs["meta"] = None if r.meta is None else dict(r.meta)
    obs["s2v"] = dict(r.channel_conversion_sample2v)
    obs["geometry"] = None if r.geometry is None else {k: np.asarray(v) for k, v in r.geometry.items()}
    return obs


def observe_opened(make, sels):
    """instantiates a reader, enters its context, reads: whatever happens on the way is the observation"""
    obs = [attempt(make)]
    if obs[0][0] != "ok":
        return obs
    r = obs[0][1]
    obs[0] = observe_reader(r)
    res = attempt(r.__enter__)
    obs.append(res if res[0] != "ok" else "entered")
    if res[0] == "ok":
        obs.append(observe_reader(r))
        obs.append(observe_reads(r, sels))
        obs.append(attempt(lambda: r.__exit__(None, None, None)))
        obs.append(attempt(lambda: r.is_open))
    return obs


def observe_reads(r, sels, sync=True):
    obs = []
    for nsel, csel in sels:
        obs.append(attempt(lambda: r[nsel, csel]))
        obs.append(attempt(lambda: np.array(r._raw[nsel])))
    obs.append(attempt(lambda: r[3]))
    obs.append(attempt(lambda: r[2:7]))
    obs.append(attempt(lambda: r[(slice(1, 4),)]))
    obs.append(attempt(lambda: r[1, 2, 3]))
    if sync:
        for nsel, csel in sels[1:12:5]:
            obs.append(attempt(lambda: r.read(nsel=nsel, csel=csel, sync=True)))
        obs.append(attempt(lambda: r.read_samples(0, 20)))
        obs.append(attempt(lambda: r.read_sync(slice(0, 30))))
    return obs


# ----------------------------------------------------------------------------------------------
# Scenarios: each one is played with the reference and with the refactored code in identical directories
# ----------------------------------------------------------------------------------------------
def scenario_lifecycle(cls, companion, wd, seed):
    """mock recording with meta-data -> read -> compress (possibly failing) -> read through every path ->
    decompress to scratch (possibly failing) -> decompress"""
    rng = np.random.default_rng(seed)
    obs = []
    name, stem = TEMPLATES[int(rng.integers(0, len(TEMPLATES)))]
    csamp = int(rng.choice([37, 64, 100, 256, 300]))
    ns = int(rng.integers(1, 6 * csamp))
    if rng.random() < 0.2:
        ns = csamp * int(rng.integers(1, 5))  # exact multiple of the compression chunk
    if rng.random() < 0.25:  # SDSC flavour: an UUID in the name of the data file only, or of all files
        stem_bin = f"{stem}.{make_uuid(rng)}"
    else:
        stem_bin = stem
    nc, fs = write_recording(wd, name, stem, ns, rng)
    if stem_bin != stem:
        wd.joinpath(stem + ".bin").rename(wd.joinpath(stem_bin + ".bin"))
        if rng.random() < 0.5:
            wd.joinpath(stem + ".meta").rename(wd.joinpath(stem_bin + ".meta"))
    file_bin = wd.joinpath(stem_bin + ".bin")
    file_meta = companion(file_bin, ".meta")
    obs.append(("meta", file_meta, type(file_meta).__name__))
    sels = make_selectors(rng, ns, nc, csamp)
    nchunks = int(np.ceil(ns / csamp))
    sort = bool(rng.random() < 0.7)

    # --- the uncompressed original, through the binary or the meta-data file
    handed = [file_bin, file_meta, str(file_bin)][int(rng.integers(0, 3))]
    r = cls(handed, open=bool(rng.random() < 0.8), sort=sort)
    obs.append(observe_reader(r))
    if r.file_bin is None:  # the meta-data file was handed, the data file carries an UUID: nothing to open
        obs.append((attempt(r.open), attempt(r.compress_file), attempt(r.decompress_file)))
        r = cls(file_bin, sort=sort)
    if not r.is_open:
        r.open()
    obs.append(observe_reader(r))
    obs.append(observe_reads(r, sels))

    # --- compression
    keep_original = bool(rng.random() < 0.5)
    inject = rng.random() < 0.35
    kwargs = dict(chunk_duration=csamp / fs, n_threads=1, check_after_compress=bool(rng.random() < 0.5))
    if rng.random() < 0.3:
        kwargs["do_spatial_diff"] = True
    if rng.random() < 0.2:  # left-overs of a previous run
        file_bin.with_suffix(".cbin_tmp").write_bytes(b"left-over")
    with fail_at("compress" if inject else None, int(rng.integers(0, nchunks))):
        res = attempt(lambda: r.compress_file(keep_original=keep_original, **kwargs))
    obs.append(("compress_file", res, snapshot(wd), observe_reader(r)))
    if res[0] != "ok":
        # the source is untouched and still readable, no file with the final name
        r.close()
        r = cls(file_bin, sort=sort)
        obs.append((observe_reader(r), observe_reads(r, sels[:6])))
        with fail_at():  # compression works the second time round
            res = attempt(lambda: r.compress_file(keep_original=keep_original, **kwargs))
        obs.append(("compress_file again", res, snapshot(wd), observe_reader(r)))
    r.close()
    file_cbin = res[1]

    # --- the compressed recording, through every companion
    paths = [file_cbin, file_meta] + ([file_bin] if keep_original else [])
    if rng.random() < 0.3 and keep_original:
        file_bin.unlink()  # bin and cbin were both there, now only the cbin
        paths = [file_cbin, file_meta]
    for p in paths:
        ignore_warnings = bool(rng.random() < 0.5)
        obs.append(observe_opened(lambda: cls(p, sort=sort, ignore_warnings=ignore_warnings), sels))
    rc = cls(file_cbin, sort=sort)
    if rc.is_mtscomp and rng.random() < 0.3:  # explicit compression header, away from the recording
        wd.joinpath("headers").mkdir()
        ch_file = shutil.copy(file_cbin.with_suffix(".ch"), wd.joinpath("headers", "header.ch"))
        with cls(file_cbin, sort=sort, ch_file=ch_file) as rh:
            obs.append((observe_reader(rh), observe_reads(rh, sels[:8])))

    # --- decompression to scratch
    mode = ["none", "path", "nested", "str"][int(rng.integers(0, 4))]
    scratch = {"none": None, "path": wd.joinpath("scratch"), "nested": wd.joinpath("a", "b", "scratch"),
               "str": str(wd.joinpath("scratch_str"))}[mode]
    if mode == "path" and rng.random() < 0.3:
        scratch.mkdir()
        if rng.random() < 0.5:  # the decompressed file is already there
            scratch.joinpath(file_cbin.with_suffix(".bin").name).write_bytes(b"already there")
    inject = rng.random() < 0.4
    logs = LogCapture()
    _logger.addHandler(logs)
    level = _logger.level
    _logger.setLevel(logging.DEBUG)
    try:
        with fail_at("decompress" if inject else None, int(rng.integers(0, nchunks))):
            res = attempt(lambda: rc.decompress_to_scratch(scratch_dir=scratch))
        obs.append(("decompress_to_scratch", res, snapshot(wd), observe_reader(rc), list(logs.records)))
        if res[0] != "ok":
            res = attempt(lambda: rc.decompress_to_scratch(scratch_dir=scratch))
            obs.append(("decompress_to_scratch again", res, snapshot(wd), observe_reader(rc), list(logs.records)))
    finally:
        _logger.removeHandler(logs)
        _logger.setLevel(level)
    if res[0] == "ok" and res[1].stat().st_size == ns * nc * 2:
        with cls(res[1], sort=sort) as rs:
            obs.append((observe_reader(rs), observe_reads(rs, sels[:10])))
    obs.append(observe_reads(rc, sels[:10]))

    # --- decompression
    kwargs = {}
    out_mode = int(rng.integers(0, 4))
    if out_mode == 1:
        kwargs["out"] = wd.joinpath("elsewhere", file_cbin.with_suffix(".bin").name)
        kwargs["out"].parent.mkdir()
    elif out_mode == 2:
        kwargs["out"] = str(wd.joinpath("decompressed.bin"))
    if rng.random() < 0.8:
        kwargs["overwrite"] = True
    if rng.random() < 0.5:
        kwargs["check_after_decompress"] = bool(rng.random() < 0.5)
    keep_original = bool(rng.random() < 0.5)
    inject = rng.random() < 0.3
    with fail_at("decompress" if inject else None, int(rng.integers(0, nchunks))):
        res = attempt(lambda: rc.decompress_file(keep_original=keep_original, **kwargs))
    obs.append(("decompress_file", res, snapshot(wd), observe_reader(rc), kwargs))
    obs.append(attempt(lambda: rc[0:5]))  # whatever the state of the reader is, it is the same state
    obs.append(attempt(lambda: rc.close()))
    if res[0] == "ok":
        obs.append(observe_opened(lambda: cls(res[1], sort=sort, meta_file=file_meta), sels))
        obs.append(observe_opened(lambda: cls(res[1], sort=sort), sels[:4]))
        if not keep_original:  # and back again, in place
            res = attempt(lambda: rc.compress_file(keep_original=False, chunk_duration=csamp / fs, n_threads=1))
            obs.append(("compress_file in place", res, snapshot(wd), observe_reader(rc)))
            rc.close()
    return obs


def scenario_flat(cls, companion, wd, seed):
    """flat binary file without meta-data: 384 / 385 channels detection, then any number of channels 1..385"""
    rng = np.random.default_rng(seed)
    obs = []
    kind = ["384", "385", "both", "any", "any", "any"][int(rng.integers(0, 6))]
    dtype = np.int16 if rng.random() < 0.85 else np.float32
    if kind == "384":
        nc, ns = 384, int(rng.integers(1, 40))
    elif kind == "385":
        nc, ns = 385, int(rng.integers(1, 40))
    elif kind == "both":
        nc, ns = int(rng.choice([384, 385])), int(rng.choice([384, 385])) * int(rng.integers(1, 3))
    else:
        nc, ns = int(rng.integers(1, 386)), int(rng.integers(1, 400))
    csamp = int(rng.choice([16, 50, 128]))
    file_bin = wd.joinpath("flat_g0_t0.imec0.ap.bin")
    file_bin.write_bytes(make_data(rng, ns, nc, dtype).tobytes())
    if rng.random() < 0.15:  # a meta-data file that belongs to something else, passed explicitly below
        other_meta = wd.joinpath("nothing_here.meta")
    else:
        other_meta = None
    kwargs = dict(
        nc=[None, nc, nc][int(rng.integers(0, 3))],
        ns=[None, ns, ns, max(ns - 1, 1)][int(rng.integers(0, 4))],
        fs=[None, 30000, 2500., 30000][int(rng.integers(0, 4))],
        nsync=[None, None, 0, 1, 2][int(rng.integers(0, 5))],
        s2v=[None, None, 1e-6][int(rng.integers(0, 3))],
        dtype=[dtype, np.dtype(dtype).name][int(rng.integers(0, 2))],
        ignore_warnings=bool(rng.random() < 0.5),
        open=bool(rng.random() < 0.8),
    )
    if other_meta is not None:
        kwargs["meta_file"] = other_meta
    if kind == "any" and rng.random() < 0.8:
        kwargs.update(nc=nc, ns=ns, fs=kwargs["fs"] or 30000)
    res = attempt(lambda: cls([file_bin, str(file_bin)][int(rng.integers(0, 2))], **kwargs))
    obs.append(("init", res[0], res[1] if res[0] != "ok" else observe_reader(res[1])))
    if res[0] != "ok":
        return obs
    r = res[1]
    sels = make_selectors(rng, ns, nc, csamp)
    if not kwargs["open"]:
        obs.append(attempt(lambda: r.open()))
        obs.append(observe_reader(r))
    obs.append(observe_reads(r, sels, sync=False))
    keep_original = bool(rng.random() < 0.5)
    inject = rng.random() < 0.3
    nchunks = int(np.ceil(ns / csamp))
    with fail_at("compress" if inject else None, int(rng.integers(0, nchunks))):
        res = attempt(lambda: r.compress_file(
            keep_original=keep_original, chunk_duration=csamp / r.fs, n_threads=1, check_after_compress=False))
    obs.append(("compress_file", res, snapshot(wd), observe_reader(r)))
    attempt(lambda: r.close())
    if res[0] != "ok":
        return obs
    res = attempt(lambda: cls(res[1], nc=r.nc, ns=r.ns, fs=r.fs, dtype=dtype, nsync=kwargs["nsync"]))
    obs.append(("cbin", res[0], res[1] if res[0] != "ok" else observe_reader(res[1])))
    if res[0] != "ok":
        return obs
    rc = res[1]
    obs.append(observe_reads(rc, sels, sync=False))
    scratch = [None, wd.joinpath("scratch")][int(rng.integers(0, 2))]
    res = attempt(lambda: rc.decompress_to_scratch(scratch))  # no meta-data file to copy over
    obs.append(("decompress_to_scratch", res, snapshot(wd), observe_reader(rc)))
    res = attempt(lambda: rc.decompress_file(keep_original=bool(rng.random() < 0.5), overwrite=True))
    obs.append(("decompress_file", res, snapshot(wd), observe_reader(rc)))
    attempt(lambda: rc.close())
    return obs


def scenario_mismatch(cls, companion, wd, seed):
    """meta-data that do not match the size of the flat file / the compressed chunks, missing companions"""
    rng = np.random.default_rng(seed)
    obs = []
    name, stem = TEMPLATES[int(rng.integers(0, len(TEMPLATES)))]
    csamp = int(rng.choice([64, 100, 300]))
    ns = int(rng.integers(5, 4 * csamp))
    kind = ["longer meta", "shorter meta", "partial frame", "extra bytes", "cbin", "orphan meta", "meta elsewhere"][
        int(rng.integers(0, 7))]
    obs.append(kind)
    ns_meta, extra, cut = ns, 0, 0
    if kind == "longer meta":
        ns_meta = ns + int(rng.integers(1, 50))
    elif kind == "shorter meta":
        ns_meta = ns - int(rng.integers(1, 5))
    elif kind == "partial frame":
        cut = int(rng.integers(1, 2 * template(name)[1]))
    elif kind == "extra bytes":
        extra = int(rng.integers(1, 5 * template(name)[1]))
    nc, fs = write_recording(wd, name, stem, ns, rng, ns_meta=ns_meta, extra_bytes=extra, cut_bytes=cut)
    file_bin, file_meta = wd.joinpath(stem + ".bin"), wd.joinpath(stem + ".meta")
    sels = make_selectors(rng, ns, nc, csamp)
    ignore_warnings = bool(rng.random() < 0.4)
    logs = LogCapture()
    _logger.addHandler(logs)
    try:
        if kind == "orphan meta":
            file_bin.unlink()
            res = attempt(lambda: cls(file_meta))
            obs.append((res[0], res[1] if res[0] != "ok" else observe_reader(res[1])))
            if res[0] == "ok":
                obs.append(attempt(lambda: res[1].compress_file()))
                obs.append(attempt(lambda: res[1].decompress_file()))
                obs.append(attempt(lambda: res[1].decompress_to_scratch()))
                obs.append(attempt(lambda: res[1].open()))
            obs.append(attempt(lambda: cls(file_bin)))  # nothing there at all
            obs.append(attempt(lambda: cls(file_bin.with_suffix(".cbin"))))
        elif kind == "meta elsewhere":
            wd.joinpath("elsewhere").mkdir()
            meta_file = Path(shutil.move(file_meta, wd.joinpath("elsewhere", "other_name.meta")))
            for mf in (meta_file, str(meta_file)):
                res = attempt(lambda: cls(file_bin, meta_file=mf))
                obs.append((res[0], res[1] if res[0] != "ok" else observe_reader(res[1])))
                if res[0] == "ok":
                    obs.append(observe_reads(res[1], sels[:8]))
                    res[1].close()
            res = attempt(lambda: cls(file_bin))  # falls back to the file size to guess the layout
            obs.append((res[0], res[1] if res[0] != "ok" else observe_reader(res[1])))
        elif kind == "cbin":
            with cls(file_bin) as r:
                file_cbin = r.compress_file(keep_original=False, chunk_duration=csamp / fs, n_threads=1)
            lines = file_meta.read_text().splitlines()
            ns_other = ns + int(rng.choice([-3, -1, 1, 7]))
            lines = [f"fileTimeSecs={ns_other / fs}" if line.startswith("fileTimeSecs") else line for line in lines]
            file_meta.write_text("\n".join(lines) + "\n")
            for p in (file_cbin, file_meta):
                res = attempt(lambda: cls(p, ignore_warnings=ignore_warnings))
                obs.append((res[0], res[1] if res[0] != "ok" else observe_reader(res[1])))
                if res[0] == "ok":
                    obs.append(observe_reads(res[1], sels))
                    obs.append(attempt(lambda: res[1].decompress_to_scratch(wd.joinpath("scratch"))))
                    res[1].close()
            file_cbin.with_suffix(".ch").unlink()  # no compression header
            res = attempt(lambda: cls(file_cbin, ignore_warnings=ignore_warnings, open=False))
            obs.append((res[0], res[1] if res[0] != "ok" else observe_reader(res[1])))
            if res[0] == "ok":
                obs.append(attempt(lambda: res[1].open()))
                obs.append(observe_reader(res[1]))
                obs.append(attempt(lambda: res[1].decompress_file()))
                obs.append(attempt(lambda: res[1].close()))
        else:
            for p in (file_bin, file_meta):
                res = attempt(lambda: cls(p, ignore_warnings=ignore_warnings))
                obs.append((res[0], res[1] if res[0] != "ok" else observe_reader(res[1])))
                if res[0] != "ok":
                    continue
                r = res[1]
                obs.append(observe_reads(r, sels))
                res = attempt(lambda: r.compress_file(
                    keep_original=True, chunk_duration=csamp / fs, n_threads=1, check_after_compress=False))
                obs.append(("compress_file", res, snapshot(wd), observe_reader(r)))
                r.close()
                if res[0] == "ok":
                    with cls(res[1], ignore_warnings=ignore_warnings) as rc:
                        obs.append((observe_reader(rc), observe_reads(rc, sels)))
                    res[1].unlink()
                    res[1].with_suffix(".ch").unlink()
    finally:
        _logger.removeHandler(logs)
    obs.append(list(logs.records))
    obs.append(snapshot(wd))
    return obs


def scenario_companion(cls, companion, wd, seed):
    """companion lookup on its own: which of the .meta / .ch / .cbin / .bin files exist, UUID in the names"""
    rng = np.random.default_rng(seed)
    obs = []
    stem = ["_spikeglx_ephysData_g0_t0.imec0.ap", "rec_g1_t0.nidq", "plain", "a.b.c.lf"][int(rng.integers(0, 4))]
    uid = make_uuid(rng, valid=bool(rng.random() < 0.8))
    names = []
    for suffix in (".bin", ".cbin", ".meta", ".ch"):
        flavour = int(rng.integers(0, 4))  # absent, plain, with UUID, other stem sharing the prefix
        if flavour == 1:
            names.append(stem + suffix)
        elif flavour == 2:
            names.append(f"{stem}.{uid}{suffix}")
        elif flavour == 3:
            names.append(f"{stem}_extra{suffix}")
    for n in names:
        wd.joinpath(n).write_bytes(b"")
    obs.append(names)
    for handed in (stem + ".bin", f"{stem}.{uid}.cbin", f"{stem}.{uid}.meta", stem + ".ch", stem):
        for pattern in (".meta", ".ch", ".cbin", ".bin", ".nope"):
            for cast in (Path, str):
                res = attempt(lambda: companion(cast(wd.joinpath(handed)), pattern))
                obs.append((handed, pattern, res, type(res[1]).__name__))
        obs.append(attempt(lambda: companion(wd.joinpath(handed))))
    obs.append(attempt(lambda: companion(None)))
    obs.append(attempt(lambda: companion(wd.joinpath(stem + ".bin"), "meta")))
    # the reader resolves to the same recording whichever existing file is handed
    for n in names:
        res = attempt(lambda: cls(wd.joinpath(n), open=False))
        obs.append((n, res[0], res[1] if res[0] != "ok" else observe_reader(res[1])))
    return obs


SCENARIOS = [
    (scenario_lifecycle, 230),
    (scenario_flat, 130),
    (scenario_mismatch, 110),
    (scenario_companion, 80),
]


def main():
    t0 = time.time()
    logging.getLogger("ibllib").setLevel(logging.CRITICAL + 1)  # the records are captured where they matter
    logging.getLogger("ibllib").propagate = False
    logging.getLogger("mtscomp").setLevel(logging.CRITICAL + 1)
    base = Path(tempfile.mkdtemp(prefix="demo_c02_"))
    n_cases = n_fail = 0
    kinds = {}
    try:
        for scenario, count in SCENARIOS:
            for seed in range(count):
                observations = {}
                for label, (cls, companion) in IMPLEMENTATIONS.items():
                    wd = base.joinpath(label, f"{scenario.__name__}_{seed:04d}")
                    wd.mkdir(parents=True)
                    try:
                        observations[label] = normalise(attempt(lambda: scenario(cls, companion, wd, seed)), wd)
                    except Exception:  # the harness itself
                        traceback.print_exc()
                        observations[label] = ("harness failure", label)
                    shutil.rmtree(wd, ignore_errors=True)
                n_cases += 1
                outcome = observations["ref"][0]
                if outcome != "ok":
                    kinds.setdefault((scenario.__name__, observations["ref"][1]), []).append(seed)
                if not same(observations["ref"], observations["new"]):
                    n_fail += 1
                    print(f"DIFFERENCE {scenario.__name__} seed={seed}: "
                          + first_difference(observations["ref"], observations["new"]))
    finally:
        shutil.rmtree(base, ignore_errors=True)
    for (name, exc), seeds in kinds.items():
        print(f"note: {name} ended with {exc} for both implementations on {len(seeds)} seeds, e.g. {seeds[:5]}")
    print(f"{n_cases} scenarios compared in {time.time() - t0:.0f}s, {n_fail} with differences")
    if n_fail:
        print("FAIL: the refactored code is not equivalent to the reference")
        return 1
    print("OK: identical results, exceptions, logs and files for every scenario")
    return 0


if __name__ == "__main__":
    sys.exit(main())
