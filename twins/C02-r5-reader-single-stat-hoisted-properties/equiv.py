import sys, os; sys.path.insert(0, os.path.join(os.path.dirname(os.path.abspath(__file__)), "src"))
"""
Differential equivalence check for the performance clean-up of spikeglx.Reader
(__init__, open, compress_file, decompress_file, decompress_to_scratch).

The class RefReader below carries VERBATIM copies of the original implementation of every method that the
patch touches; everything else is inherited from the spikeglx module found in ./src.  Each generated case
(seeded random + edge cases) is played twice in the same scratch directory, once with the reference methods
and once with the methods of ./src/spikeglx.py, and every observable is compared exactly: attributes, types,
dtypes, shapes, array values, meta-data dictionaries, log records, exception types and messages, the list of
files present in the directory and the SHA1 of their contents (also after a failure injected at a given
compression / decompression chunk).  Exit code 0 if everything is identical, 1 with a message otherwise.
"""
os.environ.setdefault("TQDM_DISABLE", "1")
import hashlib  # noqa: E402
import json  # noqa: E402,F401
import logging  # noqa: E402
from pathlib import Path  # noqa: E402
import re  # noqa: E402
import shutil  # noqa: E402
import tempfile  # noqa: E402
import time  # noqa: E402
import warnings  # noqa: E402

import numpy as np  # noqa: E402

import mtscomp  # noqa: E402
import neuropixel  # noqa: E402,F401
import spikeglx  # noqa: E402
from spikeglx import (  # noqa: E402,F401  names used by the verbatim reference copies
    _get_companion_file, read_meta_data, _conversion_sample2v_from_meta, geometry_from_meta,
)

_logger = logging.getLogger("ibllib")  # same logger as the spikeglx module


# ------------------------------------------------------------------------------------------------------
# Reference: verbatim copies of the ORIGINAL methods (src/spikeglx.py at HEAD)
# ------------------------------------------------------------------------------------------------------
class RefReader(spikeglx.Reader):
    def __init__(
        self,
        sglx_file,
        open=True,
        nc=None,
        ns=None,
        fs=None,
        dtype="int16",
        s2v=None,
        nsync=None,
        ignore_warnings=False,
        meta_file=None,
        ch_file=None,
        sort=True
    ):
        """
        An interface for reading data from a SpikeGLX file
        :param sglx_file: Path to a SpikeGLX file (compressed or otherwise), or to a meta-data file
        :param open: when True the file is opened
        :param sort: (True) by default always return channels sorted by shank, row and column. If set to false,
        the data will be returned as written on disk, for NP2 versions this may result in interleaved shanks
        """
        self.geometry = None
        self.ignore_warnings = ignore_warnings
        sglx_file = Path(sglx_file)
        meta_file = meta_file or _get_companion_file(sglx_file, '.meta')
        # only used if MTSCOMP compressed
        self.ch_file = ch_file

        if meta_file == sglx_file:
            # if a meta-data file is provided, try to get the binary file
            self.file_bin = next(
                (f for f in (sglx_file.with_suffix(".bin"), sglx_file.with_suffix(".cbin")) if f.exists()),
                None,
            )
        else:
            self.file_bin = sglx_file
        self.nbytes = self.file_bin.stat().st_size if self.file_bin else None
        self.dtype = np.dtype(dtype)

        if not meta_file.exists():
            # if no meta-data file is provided, try to get critical info from the binary file
            # by seeing if filesize checks out with neuropixel 384 channels
            if self.file_bin.stat().st_size / 384 % 2 == 0:
                nc = nc or 384
                ns = ns or self.file_bin.stat().st_size / 2 / 384
                fs = fs or 30000
            elif self.file_bin.stat().st_size / 385 % 2 == 0:
                nc = nc or 385
                ns = ns or self.file_bin.stat().st_size / 2 / 385
                fs = fs or 30000
                nsync = nsync or 1

            err_str = "Instantiating an Reader without meta data requires providing nc, fs and nc parameters"
            assert nc is not None and fs is not None and nc is not None, err_str
            self.file_meta_data = None
            self.meta = None
            self._nc, self._fs, self._ns = (int(nc), int(fs), int(ns))
            # handles default parameters: if int16 we assume it's a raw recording, we've checked the
            # multiple of the file size above to determine if there is a sync or not
            self._nsync = nsync or 0
            if s2v is None:
                s2v = neuropixel.S2V_AP if self.dtype == np.dtype("int16") else 1.0
            self.channel_conversion_sample2v = {"samples": np.ones(nc) * s2v}
            if self._nsync > 0:
                self.channel_conversion_sample2v["samples"][-nsync:] = 1
            self.geometry = neuropixel.trace_header(version=1)
        else:
            # normal case we continue reading and interpreting the metadata file
            self.file_meta_data = meta_file
            self.meta = read_meta_data(meta_file)
            self.channel_conversion_sample2v = _conversion_sample2v_from_meta(self.meta)
            self._raw = None
            self.geometry, order = geometry_from_meta(self.meta, return_index=True, sort=sort)
            self.raw_channel_order = np.arange(self.nc)
            if self.geometry is not None:  # nidq files won't return any geometry here
                self.raw_channel_order[:order.size] = order
        if open and self.file_bin:
            self.open()

    def open(self):
        # if we are not looking at a compressed file, use a memmap, otherwise instantiate mtscomp
        sglx_file = str(self.file_bin)
        if self.is_mtscomp:
            self._raw = mtscomp.Reader()
            ch_file = self.ch_file or _get_companion_file(sglx_file, '.ch')
            self._raw.open(self.file_bin, ch_file)
            if self._raw.shape != (self.ns, self.nc):
                ftsec = self._raw.shape[0] / self.fs
                if not self.ignore_warnings:  # avoid the checks for streaming data
                    _logger.warning(
                        f"{sglx_file} : meta data and compressed chunks dont checkout\n"
                        f"File duration: expected {self.meta['fileTimeSecs']},"
                        f" actual {ftsec}\n"
                        f"Will attempt to fudge the meta-data information."
                    )
                self.meta["fileTimeSecs"] = ftsec
        else:
            if self.nc * self.ns * self.dtype.itemsize != self.nbytes:
                # only the complete sample frames present in the file are exposed
                ftsec = (
                    self.file_bin.stat().st_size // (self.dtype.itemsize * self.nc)
                ) / self.fs
                if self.meta is not None:
                    if not self.ignore_warnings:
                        _logger.warning(
                            f"{sglx_file} : meta data and filesize do not checkout\n"
                            f"File size: expected {self.meta['fileSizeBytes']},"
                            f" actual {self.file_bin.stat().st_size}\n"
                            f"File duration: expected {self.meta['fileTimeSecs']},"
                            f" actual {ftsec}\n"
                            f"Will attempt to fudge the meta-data information."
                        )
                    self.meta["fileTimeSecs"] = ftsec
            self._raw = np.memmap(
                sglx_file, dtype=self.dtype, mode="r", shape=(self.ns, self.nc)
            )

    def compress_file(self, keep_original=True, **kwargs):
        """
        Compresses
        :param keep_original: defaults True. If False, the original uncompressed file is deleted
         and the current spikeglx.Reader object is modified in place
        :param kwargs:
        :return: pathlib.Path of the compressed *.cbin file
        """
        file_tmp = self.file_bin.with_suffix(".cbin_tmp")
        assert not self.is_mtscomp
        mtscomp.compress(
            self.file_bin,
            out=file_tmp,
            outmeta=self.file_bin.with_suffix(".ch"),
            sample_rate=self.fs,
            n_channels=self.nc,
            dtype=self.dtype,
            **kwargs,
        )
        file_out = file_tmp.with_suffix(".cbin")
        file_tmp.rename(file_out)
        if not keep_original:
            self.file_bin.unlink()
            self.file_bin = file_out
        return file_out

    def decompress_file(self, keep_original=True, **kwargs):
        """
        Decompresses a mtscomp file
        :param keep_original: defaults True. If False, the original compressed file (input)
        is deleted and the current spikeglx.Reader object is modified in place
        NB: This is not equivalent to overwrite (which replaces the output file)
        :return: pathlib.Path of the decompressed *.bin file
        """
        if "out" not in kwargs:
            kwargs["out"] = self.file_bin.with_suffix(".bin")
        assert self.is_mtscomp
        r = mtscomp.decompress(
            self.file_bin, self.file_bin.with_suffix(".ch"), **kwargs
        )
        r.close()
        if not keep_original:
            self.close()
            self.file_bin.unlink()
            self.file_bin.with_suffix(".ch").unlink()
            self.file_bin = kwargs["out"]
        return kwargs["out"]

    def decompress_to_scratch(self, scratch_dir=None):
        """
        Decompresses the file to a temporary directory
        Copy over the metadata file
        """
        if scratch_dir is None:
            bin_file = Path(self.file_bin).with_suffix('.bin')
        else:
            scratch_dir.mkdir(exist_ok=True, parents=True)
            bin_file = Path(scratch_dir).joinpath(self.file_bin.name).with_suffix('.bin')
            shutil.copy(self.file_meta_data, bin_file.with_suffix('.meta'))
        if not bin_file.exists():
            t0 = time.time()
            _logger.info('File is compressed, decompressing to a temporary file...')
            self.decompress_file(
                keep_original=True, out=bin_file.with_suffix('.bin_temp'), check_after_decompress=False, overwrite=True
            )
            shutil.move(bin_file.with_suffix('.bin_temp'), bin_file)
            _logger.info(f"Decompression complete: {time.time() - t0:.2f}s")
        return bin_file


RefReader.__name__ = RefReader.__qualname__ = "Reader"  # same text in the AttributeError messages


class RefOnlineReader(RefReader):
    @property
    def ns(self):
        return int(self.file_bin.stat().st_size / self.dtype.itemsize / self.nc)


RefOnlineReader.__name__ = RefOnlineReader.__qualname__ = "OnlineReader"

IMPLS = {
    "reference": (RefReader, RefOnlineReader),
    "refactored": (spikeglx.Reader, spikeglx.OnlineReader),
}

# ------------------------------------------------------------------------------------------------------
# Harness
# ------------------------------------------------------------------------------------------------------
# fewer threads than the default cpu_count: identical code path (n_threads >= 2), faster pool start-up
mtscomp.DEFAULT_CONFIG = [(k, (2 if k == "n_threads" else v)) for k, v in mtscomp.DEFAULT_CONFIG]
mtscomp.tqdm = lambda it, **kwargs: it  # no progress bars

FIXTURES = Path(__file__).resolve().parent.joinpath("src", "tests", "fixtures")
META_FIXTURES = [
    "sample3A_g0_t0.imec.ap.meta", "sample3A_g0_t0.imec.lf.meta", "sample3A_376_channels.ap.meta",
    "sample3B_g0_t0.imec1.ap.meta", "sample3B_g0_t0.imec1.lf.meta", "sample3B2_exported.imec0.ap.meta",
    "sample3B_g0_t0.nidq.meta", "sampleNP2.1_g0_t0.imec.ap.meta", "sampleNP2.4_4shanks_g0_t0.imec.ap.meta",
    "sampleNP2.4_1shank_g0_t0.imec.ap.meta", "sampleNPultra_g0_t0.imec0.ap.meta", "sample3B_catgt.ap.meta",
]
UUID = "a1b2c3d4-0000-4111-8222-0123456789ab"
UUID2 = "ffffffff-1111-4222-8333-ba9876543210"

_INJECT = {"compress": None, "decompress": None}
_orig_compress_chunk = mtscomp.Writer._compress_chunk
_orig_decompress_chunk = mtscomp.Reader._decompress_chunk


def _compress_chunk(self, chunk_idx):
    if _INJECT["compress"] is not None and chunk_idx == _INJECT["compress"]:
        raise RuntimeError(f"injected failure at compression chunk {chunk_idx}")
    return _orig_compress_chunk(self, chunk_idx)


def _decompress_chunk(self, chunk_idx):
    if _INJECT["decompress"] is not None and chunk_idx == _INJECT["decompress"]:
        raise RuntimeError(f"injected failure at decompression chunk {chunk_idx}")
    return _orig_decompress_chunk(self, chunk_idx)


mtscomp.Writer._compress_chunk = _compress_chunk
mtscomp.Reader._decompress_chunk = _decompress_chunk


class _Capture(logging.Handler):
    def __init__(self):
        super().__init__(level=logging.DEBUG)
        self.records = []

    def emit(self, record):
        msg = re.sub(r"Decompression complete: [0-9.]+s", "Decompression complete: <t>s", record.getMessage())
        self.records.append((record.name, record.levelname, msg))


CAPTURE = _Capture()
for _name in ("ibllib", "mtscomp"):
    _lg = logging.getLogger(_name)
    _lg.addHandler(CAPTURE)
    _lg.setLevel(logging.INFO)
    _lg.propagate = False


def snapshot(root):
    """Sorted list of (relative path, size, sha1) of everything below root"""
    out = []
    for p in sorted(Path(root).rglob("*")):
        if p.is_dir():
            out.append((str(p.relative_to(root)), "dir", ""))
        else:
            out.append((str(p.relative_to(root)), p.stat().st_size, hashlib.sha1(p.read_bytes()).hexdigest()))
    return out


def attempt(fun, *args, **kwargs):
    """Returns ('ok', value) or ('exc', type name, message)"""
    try:
        return ("ok", fun(*args, **kwargs))
    except Exception as e:  # noqa
        return ("exc", type(e).__name__, str(e))


MISSING = "<missing attribute>"


def observe(sr):
    o = {}
    for k in ("file_bin", "nbytes", "dtype", "file_meta_data", "ch_file", "ignore_warnings", "geometry", "meta",
              "channel_conversion_sample2v", "raw_channel_order", "_nc", "_fs", "_ns", "_nsync"):
        o[k] = getattr(sr, k, MISSING)
    raw = getattr(sr, "_raw", MISSING)
    o["_raw.type"] = type(raw).__name__
    if isinstance(raw, np.memmap):
        o["_raw.desc"] = (raw.shape, raw.dtype, raw.filename, raw.mode, raw.offset, raw.flags["C_CONTIGUOUS"])
    elif isinstance(raw, mtscomp.Reader):
        o["_raw.desc"] = (raw.shape, raw.dtype, dict(raw.cmeta), raw.cdata.name, raw.cdata.closed)
    for k in ("shape", "ns", "nc", "fs", "nsync", "type", "is_open", "is_mtscomp", "version", "major_version", "rl",
              "sample2volts", "range_volts"):
        o["prop." + k] = attempt(getattr, sr, k)
    return o


def selectors(rng, ns, nc, chunk):
    """Sample / channel selectors: positions relative to chunk boundaries, negative, out of range, steps, scalars"""
    sels = [
        (slice(None), slice(None)), (slice(0, ns), slice(None)), (slice(0, 0), slice(None)),
        (slice(ns - 1, ns + 7), slice(None)), (slice(-3, None), slice(None)), (slice(ns + 2, ns + 9), slice(None)),
        (slice(None, None, 2), slice(None)), (0, slice(None)), (-1, slice(None)), (ns - 1, 0), (ns, slice(None)),
        (slice(max(chunk - 1, 0), chunk + 1), slice(None)), (slice(chunk, 2 * chunk), slice(0, 1)),
        (slice(0, chunk), slice(-1, None)), (slice(None), -1), (slice(None), nc - 1),
    ]
    for _ in range(6):
        a, b = sorted(int(i) for i in rng.integers(-ns - 2, ns + 3, 2))
        step = [None, None, 1, 2, 3, -1][int(rng.integers(0, 6))]
        kind = int(rng.integers(0, 5))
        if kind == 0:
            csel = slice(None)
        elif kind == 1:
            c0, c1 = sorted(int(i) for i in rng.integers(-nc, nc + 1, 2))
            csel = slice(c0, c1)
        elif kind == 2:
            csel = rng.integers(0, nc, int(rng.integers(1, 5)))
        elif kind == 3:
            csel = int(rng.integers(-nc, nc))
        else:
            csel = [int(i) for i in rng.integers(0, nc, 3)]
        sels.append((slice(a, b, step), csel))
    return sels


def reads(sr, sels):
    out = []
    for nsel, csel in sels:
        out.append(attempt(sr.read, nsel, csel, False))
        out.append(attempt(lambda: sr[nsel, csel]))
    out.append(attempt(sr.read, slice(0, 20)))  # with sync
    out.append(attempt(lambda: sr[5:12]))
    out.append(attempt(sr.read_samples, 1, 9))
    return out


def same(a, b, path="obs"):
    """Exact comparison: types, dtypes, shapes and values. Returns None or the path of the first difference"""
    if type(a) is not type(b):
        return f"{path}: type {type(a).__name__} != {type(b).__name__}"
    if isinstance(a, np.ndarray):
        if a.dtype != b.dtype or a.shape != b.shape:
            return f"{path}: {a.dtype}{a.shape} != {b.dtype}{b.shape}"
        equal_nan = a.dtype.kind in "fc"
        return None if np.array_equal(a, b, equal_nan=equal_nan) else f"{path}: array values differ"
    if isinstance(a, dict):
        if list(a.keys()) != list(b.keys()):
            return f"{path}: keys {list(a.keys())} != {list(b.keys())}"
        for k in a:
            d = same(a[k], b[k], f"{path}[{k!r}]")
            if d:
                return d
        return None
    if isinstance(a, (list, tuple)):
        if len(a) != len(b):
            return f"{path}: len {len(a)} != {len(b)}"
        for i, (x, y) in enumerate(zip(a, b)):
            d = same(x, y, f"{path}[{i}]")
            if d:
                return d
        return None
    if isinstance(a, (float, np.floating)):
        return None if (a == b or (a != a and b != b)) else f"{path}: {a!r} != {b!r}"
    return None if a == b else f"{path}: {a!r} != {b!r}"


def tally(x, n_ok=0, n_exc=0):
    """Counts the ('ok', value) and ('exc', type, message) outcomes in a nested log"""
    if isinstance(x, tuple) and len(x) >= 2 and isinstance(x[0], str) and x[0] in ("ok", "exc"):
        n_ok, n_exc = n_ok + (x[0] == "ok"), n_exc + (x[0] == "exc")
    if isinstance(x, (list, tuple)):
        for y in x:
            n_ok, n_exc = tally(y, n_ok, n_exc)
    elif isinstance(x, dict):
        for y in x.values():
            n_ok, n_exc = tally(y, n_ok, n_exc)
    return n_ok, n_exc


# ------------------------------------------------------------------------------------------------------
# Case generation
# ------------------------------------------------------------------------------------------------------
def make_meta(rng, fixture, ns_meta, nbytes_meta, nidq_counts=None):
    txt = FIXTURES.joinpath(fixture).read_text()
    md = read_meta_data(FIXTURES.joinpath(fixture))
    fs = spikeglx._get_fs_from_meta(md)
    nc = int(md["nSavedChans"])
    if nidq_counts is not None:
        nc = int(sum(nidq_counts))
        txt = re.sub(r"nSavedChans=.*", f"nSavedChans={nc}", txt)
        txt = re.sub(r"snsMnMaXaDw=.*", "snsMnMaXaDw=" + ",".join(str(i) for i in nidq_counts), txt)
    txt = re.sub(r"fileTimeSecs=.*", f"fileTimeSecs={ns_meta / fs}", txt)
    txt = re.sub(r"fileSizeBytes=.*", f"fileSizeBytes={nbytes_meta(nc)}", txt)
    return txt, nc, fs


MISMATCH = ["none"] * 5 + ["meta_longer", "meta_shorter"] * 2 + ["truncated", "extra_bytes"]
DECOMPRESS = ["file", "scratch_none", "scratch_dir", "file_out"] * 2 + ["scratch_dir_str", "scratch_existing"]


def gen_cases(n_random=288):
    cases = []
    rng = np.random.default_rng(20240502)
    for i in range(n_random):
        kind = ["meta", "meta", "meta", "flat", "flat", "online", "metaonly", "uuid"][i % 8]
        c = dict(
            seed=int(rng.integers(0, 2 ** 31)), kind=kind,
            fixture=META_FIXTURES[int(rng.integers(0, len(META_FIXTURES)))],
            ns=int(rng.integers(1, 260)), open_via=["bin", "meta", "bin"][int(rng.integers(0, 3))],
            open=bool(rng.integers(0, 5) > 0), ignore_warnings=bool(rng.integers(0, 2)), sort=bool(rng.integers(0, 4) > 0),
            keep_compress=bool(rng.integers(0, 2)), keep_decompress=bool(rng.integers(0, 2)),
            mismatch=MISMATCH[int(rng.integers(0, len(MISMATCH)))],
            fail_compress=bool(rng.integers(0, 3) == 0), fail_decompress=bool(rng.integers(0, 3) == 0),
            decompress=DECOMPRESS[int(rng.integers(0, len(DECOMPRESS)))],
            n_threads=[None, 1, 2, 3][int(rng.integers(0, 4))], check_after_compress=bool(rng.integers(0, 4) > 0),
        )
        c["chunk"] = int(rng.integers(1, c["ns"] + 6))  # samples per compression chunk: rarely a divisor of ns
        if c["fixture"].endswith("nidq.meta") and rng.integers(0, 3) > 0:
            c["nidq_counts"] = [int(k) for k in rng.integers(0, 9, 3)] + [int(rng.integers(1, 3))]
        if kind == "flat":
            c["nc"] = [1, 2, 3, 17, 383, 384, 385, int(rng.integers(1, 386))][int(rng.integers(0, 8))]
            c["dtype"] = ["int16", "int16", "int16", "float32", "uint8", "int32"][int(rng.integers(0, 6))]
            c["give"] = ["all", "all", "all", "none", "nc_only", "no_ns", "nsync", "s2v"][int(rng.integers(0, 8))]
            if c["give"] == "none":  # size heuristics: multiples of 384 / 385 int16 frames (or neither)
                c["nc"] = [384, 385, 385 * 384, 7][int(rng.integers(0, 4))]
                c["dtype"] = "int16"
                c["ns"] = int(rng.integers(1, 5)) if c["nc"] > 385 else int(rng.integers(1, 120))
                c["chunk"] = int(rng.integers(1, c["ns"] + 3))
        cases.append(c)
    # exhaustive failure position: a failure at each compression / decompression chunk
    for k in range(6):
        base = dict(seed=1000 + k, kind="meta", fixture="sample3B_g0_t0.imec1.ap.meta", ns=103, chunk=20, open_via="bin",
                    open=True, ignore_warnings=False, sort=True, mismatch="none", n_threads=[1, 2][k % 2],
                    check_after_compress=True, fail_compress=True, fail_compress_at=k, fail_decompress=False,
                    decompress="file")
        for keep in (True, False):
            cases.append(dict(base, keep_compress=keep, keep_decompress=True))
            cases.append(dict(base, keep_compress=True, keep_decompress=keep, fail_compress=False, fail_decompress=True,
                              fail_decompress_at=k, decompress=["scratch_dir", "file"][int(keep)]))
            cases.append(dict(base, keep_compress=keep, keep_decompress=keep, fail_compress=False, fail_decompress=True,
                              fail_decompress_at=k, decompress="scratch_none"))
    return cases


# ------------------------------------------------------------------------------------------------------
# One case, one implementation
# ------------------------------------------------------------------------------------------------------
def play(case, impl, root):
    Reader, OnlineReader = IMPLS[impl]
    rng = np.random.default_rng(case["seed"])
    log = []  # everything that is compared
    CAPTURE.records = log_records = []
    _INJECT.update(compress=None, decompress=None)
    root = Path(root)
    root.mkdir(parents=True)
    kind, ns, chunk = case["kind"], case["ns"], case["chunk"]
    kw_reader = dict(open=case["open"], ignore_warnings=case["ignore_warnings"], sort=case["sort"])
    stem = "_spikeglx_ephysData_g0_t0.imec0.ap"
    readers = []

    def new_reader(cls, *args, **kwargs):
        r = attempt(cls, *args, **kwargs)
        if r[0] == "ok":
            readers.append(r[1])
            return r[1], ("ok", observe(r[1]))
        return None, r

    # ---------------- files
    if kind == "flat":
        nc, dtype = case["nc"], np.dtype(case["dtype"])
        fs = 30000 if case["give"] == "none" else [30000, 2500, 1000.5][int(rng.integers(0, 3))]
        data = rng.integers(0, 120, (ns, nc)).astype(dtype)
        bin_file = root.joinpath("flat_recording.bin")
        data.tofile(bin_file)
        give = case["give"]
        kw = dict(kw_reader, dtype=case["dtype"])
        if give in ("all", "nsync", "s2v"):
            kw.update(nc=nc, ns=ns, fs=fs)
        if give == "nc_only":
            kw.update(nc=nc)
        if give == "no_ns":
            kw.update(nc=nc, fs=fs)
        if give == "nsync":
            kw.update(nsync=min(nc, 2))
        if give == "s2v":
            kw.update(s2v=0.5)
        meta_file = None
    else:
        mismatch = case["mismatch"]
        ns_meta = {"meta_longer": ns + 37, "meta_shorter": max(ns - 11, 1)}.get(mismatch, ns)
        txt, nc, fs = make_meta(rng, case["fixture"], ns_meta, lambda nc_: ns_meta * nc_ * 2, case.get("nidq_counts"))
        if kind == "uuid":
            bin_file = root.joinpath(f"{stem}.{UUID}.bin")
            meta_file = root.joinpath(f"{stem}.{[UUID, UUID2][case['seed'] % 2]}.meta" if case["seed"] % 3 else f"{stem}.meta")
        else:
            bin_file = root.joinpath(f"{stem}.bin")
            meta_file = bin_file.with_suffix(".meta")
        meta_file.write_text(txt)
        data = rng.integers(-2000, 2000, (ns, nc)).astype(np.int16)
        data[:, -1] = rng.integers(0, 2 ** 15, ns)
        raw = data.tobytes()
        if mismatch == "truncated":
            raw = raw[: max(len(raw) - int(rng.integers(1, 2 * nc)), 1)]
        elif mismatch == "extra_bytes":
            raw = raw + bytes(int(rng.integers(1, 2 * nc)))
        if kind != "metaonly" or case["seed"] % 4:
            bin_file.write_bytes(raw)
        kw = dict(kw_reader)
    log.append(("files", snapshot(root)))
    sels = selectors(rng, ns, nc, chunk)

    # ---------------- 1. open the uncompressed recording
    cls = OnlineReader if kind == "online" else Reader
    path = meta_file if (meta_file is not None and (case["open_via"] == "meta" or kind == "metaonly")) else bin_file
    sr, o = new_reader(cls, path, **kw)
    log.append(("reader", o))
    if sr is not None:
        if kind == "online" and case["seed"] % 2:  # the file grows while the reader lives
            with open(bin_file, "ab") as fid:
                fid.write(bytes(2 * nc * 3 + 1))
            log.append(("grown", observe(sr)))
            log.append(("reopen", attempt(sr.open)))
            log.append(("reopened", observe(sr)))
        if not case["open"]:
            log.append(("reads_closed", reads(sr, sels[:2])))
            log.append(("enter", attempt(lambda: sr.__enter__() is sr)))
        log.append(("reads", reads(sr, sels)))
        log.append(("observe_after_reads", observe(sr)))

    # ---------------- 2. compress
    kwc = dict(chunk_duration=chunk / fs, quiet=True, check_after_compress=case["check_after_compress"])
    if case["n_threads"]:
        kwc["n_threads"] = case["n_threads"]
    n_chunks = int(np.ceil(ns / chunk))
    if sr is not None:
        if case["fail_compress"]:
            _INJECT["compress"] = case.get("fail_compress_at", int(rng.integers(0, n_chunks + 1)))  # n_chunks: no failure
        log.append(("compress", attempt(sr.compress_file, keep_original=case["keep_compress"], **kwc)))
        _INJECT["compress"] = None
        log.append(("after_compress.files", snapshot(root)))
        log.append(("after_compress.reader", observe(sr)))
        log.append(("after_compress.reads", reads(sr, sels[:6])))
        if case["seed"] % 3 == 0:
            log.append(("compress_again", attempt(sr.compress_file, keep_original=True, **kwc)))
        log.append(("close", attempt(sr.close)))

    # ---------------- 3. open through the compressed file, the meta-data file and the binary file
    if kind == "uuid" and case["seed"] % 5 == 0 and bin_file.with_suffix(".ch").exists():
        # the compression header carries another UUID than the compressed file
        bin_file.with_suffix(".ch").rename(root.joinpath(f"{stem}.{UUID2}.ch"))
    src = None
    for via in ("cbin", "meta", "bin", "ch_file"):
        if (via == "meta" and meta_file is None) or (via == "ch_file" and case["seed"] % 2):
            continue
        cbin_file = bin_file.with_suffix(".cbin")
        p = {"cbin": cbin_file, "meta": meta_file, "bin": bin_file, "ch_file": cbin_file}[via]
        kw2 = dict(kw, open=True)
        if via == "ch_file":
            kw2["ch_file"] = next(root.glob("*.ch"), root.joinpath("nothing.ch"))
        r, o = new_reader(Reader, p, **kw2)
        log.append((f"via_{via}", o))
        if r is not None:
            log.append((f"via_{via}.reads", reads(r, sels if via == "cbin" else sels[8:])))
            log.append((f"via_{via}.after", observe(r)))
            if via == "cbin":
                src = r
            else:
                log.append((f"via_{via}.close", attempt(r.close)))

    # ---------------- 4. decompress
    if src is not None:
        how = case["decompress"]
        if case["fail_decompress"]:
            _INJECT["decompress"] = case.get("fail_decompress_at", int(rng.integers(0, n_chunks + 1)))
        if how == "file":
            res = attempt(src.decompress_file, keep_original=case["keep_decompress"], overwrite=True, quiet=True)
        elif how == "file_out":
            out = root.joinpath("elsewhere", "decompressed.bin")
            out.parent.mkdir()
            out = str(out) if case["seed"] % 3 == 0 else out  # the object handed over is returned / stored as it is
            res = attempt(src.decompress_file, keep_original=case["keep_decompress"], out=out, quiet=True,
                          check_after_decompress=bool(case["seed"] % 2))
        elif how == "scratch_none":
            if case["keep_decompress"] and bin_file.exists():
                bin_file.unlink()
            res = attempt(src.decompress_to_scratch)
        elif how in ("scratch_dir", "scratch_dir_str", "scratch_existing"):
            scratch = root.joinpath("scratch", "deep")
            if how == "scratch_existing":
                scratch.mkdir(parents=True)
                scratch.joinpath(bin_file.name).with_suffix(".bin").write_bytes(b"already there")
            res = attempt(src.decompress_to_scratch, scratch_dir=str(scratch) if how == "scratch_dir_str" else scratch)
        _INJECT["decompress"] = None
        log.append(("decompress", res))
        log.append(("after_decompress.files", snapshot(root)))
        log.append(("after_decompress.reader", observe(src)))
        log.append(("after_decompress.reads", reads(src, sels[:6])))
        if res[0] == "ok" and res[1] is not None and Path(res[1]).exists():
            r, o = new_reader(Reader, res[1], **dict(kw, open=True))
            log.append(("roundtrip", o))
            if r is not None:
                log.append(("roundtrip.reads", reads(r, sels[:8])))
        log.append(("decompress_again", attempt(src.decompress_to_scratch)))
        log.append(("final.files", snapshot(root)))
    for r in readers:
        attempt(r.close)
    log.append(("logs", list(log_records)))
    return log


def main():
    t0 = time.time()
    warnings.simplefilter("ignore")
    if not FIXTURES.exists():
        print(f"FAIL: fixtures not found in {FIXTURES}")
        return 1
    cases = gen_cases()
    work = Path(tempfile.mkdtemp(prefix="demo_C02_r5_"))
    n_ok, n_exc, n_diff = 0, 0, 0
    try:
        for ic, case in enumerate(cases):
            results = {}
            for impl in IMPLS:
                root = work.joinpath("case")  # the same directory for both: identical paths in every message
                shutil.rmtree(root, ignore_errors=True)
                results[impl] = play(case, impl, root)
            shutil.rmtree(work.joinpath("case"), ignore_errors=True)
            diff = same(results["reference"], results["refactored"], "case")
            n_ok, n_exc = tally(results["reference"], n_ok, n_exc)
            if diff:
                n_diff += 1
                print(f"DIFFERENCE in case {ic} {case}:\n    {diff}")
                if n_diff >= 5:
                    break
    finally:
        shutil.rmtree(work, ignore_errors=True)
    print(f"{len(cases)} cases, {n_ok + n_exc} compared call outcomes ({n_ok} results, {n_exc} exceptions), "
          f"{n_diff} cases with a difference, {time.time() - t0:.1f}s")
    if n_diff:
        print("FAIL: the refactored code does not behave like the reference")
        return 1
    print("OK: reference and refactored implementations are indistinguishable")
    return 0


if __name__ == "__main__":
    sys.exit(main())
