import sys, os; sys.path.insert(0, os.path.join(os.path.dirname(os.path.abspath(__file__)), "src"))
"""
C02 - a compressed recording and its uncompressed original must be indistinguishable through the
reader, for every sample selector and every position of the selection relative to the chunk
boundaries of the compressed file.

Builds a small random 385 channel recording, compresses it with short chunks (so that the file
has several full chunks and a short last one) and reads the same selections through
  - the reader of the .bin file,
  - the reader of the .cbin file,
and compares both with the oracle: the int16 array that was written to disk, sliced by plain
NumPy and scaled by the sample to volts factors.

exit 0: all selections agree, exit 1: at least one selection differs (details are printed)
"""
import logging
import tempfile
from pathlib import Path

import numpy as np

import spikeglx

logging.disable(logging.CRITICAL)

HERE = Path(os.path.dirname(os.path.abspath(__file__)))
META = HERE / "src" / "tests" / "fixtures" / "sample3A_short_g0_t0.imec.ap.meta"
NS, NC = 10_500, 385  # with 0.1 s chunks at 30 kHz: chunks of 3000 samples, the last one of 1500
CHUNK = 3000


def selections():
    """Sample selectors: contiguous and strided, aligned or not with the chunk boundaries"""
    sels = [
        slice(0, NS), slice(None), slice(5, 500), slice(2990, 3010), slice(3000, 6000), slice(2999, 6001),
        slice(8999, NS), slice(9000, None), slice(-1600, None), slice(1200, 9100), slice(4000, 2000),
        slice(NS, NS + 10), slice(NS - 3, NS + 10),
        0, 2999, 3000, NS - 1, -1,
    ]
    for step in (2, 3, 4, 7, 11, 64, 3000, 3001):
        for start in (0, 1, 5, 2999, 3000, 3001):
            for stop in (3000, 3001, 6002, 9000, NS, None):
                sels.append(slice(start, stop, step))
    return sels


def main():
    failures = []
    with tempfile.TemporaryDirectory() as tdir:
        mock = spikeglx._mock_spikeglx_file(
            Path(tdir) / "sample3A_short_g0_t0.imec.ap.bin", META, ns=NS, nc=NC, sync_depth=16, random=True)
        data = mock["D"]  # what was written to disk: the oracle
        file_bin = mock["bin_file"]
        sr_bin = spikeglx.Reader(file_bin)
        file_cbin = sr_bin.compress_file(keep_original=True, chunk_duration=CHUNK / 30000)
        sr_cbin = spikeglx.Reader(file_cbin)
        assert sr_cbin.is_mtscomp and not sr_bin.is_mtscomp
        assert list(sr_cbin._raw.chunk_bounds) == [0, 3000, 6000, 9000, NS], sr_cbin._raw.chunk_bounds
        if sr_bin.shape != sr_cbin.shape or sr_bin.shape != data.shape:
            failures.append(f"shapes differ: bin {sr_bin.shape}, cbin {sr_cbin.shape}, written {data.shape}")
        s2v = sr_bin.sample2volts
        order = sr_bin.raw_channel_order
        for sel in selections():
            expected = data[sel][..., order].astype(np.float32) * s2v.astype(np.float32)
            for label, sr in (("bin", sr_bin), ("cbin", sr_cbin)):
                try:
                    got = sr[sel]
                except Exception as e:  # noqa
                    failures.append(f"{label:>4} reader, selection {sel}: raised {type(e).__name__}: {e}")
                    continue
                if got.shape != expected.shape:
                    failures.append(f"{label:>4} reader, selection {sel}: shape {got.shape}, expected {expected.shape}")
                elif not np.allclose(got, expected, rtol=1e-6, atol=0):
                    nbad = int(np.sum(np.any(~np.isclose(got, expected, rtol=1e-6, atol=0), axis=-1)))
                    failures.append(
                        f"{label:>4} reader, selection {sel}: {nbad} of {np.atleast_2d(expected).shape[0]} "
                        f"samples differ from the data written to disk")
        # the sync trace goes through the same selectors
        for sel in (slice(0, 64), slice(2990, 3010, 3), slice(5, 9000, 7)):
            s_bin, s_cbin = sr_bin.read_sync(sel), sr_cbin.read_sync(sel)
            if s_bin.shape != s_cbin.shape or not np.array_equal(s_bin, s_cbin):
                failures.append(f"sync, selection {sel}: compressed and uncompressed readers differ")
        # compress then decompress is the identity on bytes
        file_back = Path(tdir) / "roundtrip" / file_bin.name
        file_back.parent.mkdir()
        sr_cbin.decompress_file(keep_original=True, out=file_back)
        if file_back.read_bytes() != file_bin.read_bytes():
            failures.append("compress followed by decompress does not reproduce the binary file")
        sr_bin.close()
        sr_cbin.close()
    if failures:
        print(f"C02 violated: {len(failures)} selections read differently from the compressed file / the original")
        for f in failures[:25]:
            print("  " + f)
        if len(failures) > 25:
            print(f"  ... and {len(failures) - 25} more")
        return 1
    print("C02 holds: compressed and uncompressed readers return the data written to disk for all selections")
    return 0


if __name__ == "__main__":
    sys.exit(main())
