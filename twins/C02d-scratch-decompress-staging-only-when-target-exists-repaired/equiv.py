import sys, os; sys.path.insert(0, os.path.join(os.path.dirname(os.path.abspath(__file__)), "src"))
"""
C02 - decompression to scratch must publish the final *.bin atomically.

A compressed recording is decompressed to scratch while a failure is injected at each compression
chunk in turn (the k-th chunk cannot be inflated, as with a truncated / corrupted .cbin or a full disk).
Oracle (the definition of the property, plain NumPy / file system):
  * after a failed decompress_to_scratch no file carrying the final name (<scratch>/<name>.bin)
    exists, unless it is byte for byte the original binary;
  * the compressed source (.cbin / .ch / .meta) is untouched;
  * once the failure is gone, decompress_to_scratch returns a file that is byte for byte the original.
"""
import hashlib
import logging
import shutil
import tempfile
import zlib
from pathlib import Path

import numpy as np

import mtscomp
import spikeglx

logging.disable(logging.CRITICAL)
# one chunk per batch (same as n_threads=1 in ~/.mtscomp), so that a failure at chunk k happens after k chunks were written
mtscomp.DEFAULT_CONFIG = [(k, 1 if k == "n_threads" else v) for k, v in mtscomp.DEFAULT_CONFIG]
HERE = Path(__file__).resolve().parent
META = HERE.joinpath("src", "tests", "fixtures", "sample3A_g0_t0.imec.lf.meta")
NS, NC = 2500 * 3 + 700, 385  # lf band, 2500 Hz: three full one-second chunks and a short last one


def sha(path):
    return hashlib.sha1(Path(path).read_bytes()).hexdigest()


class FailingInflate:
    """stands in for zlib inside mtscomp: the chunk with compressed payload `poison` cannot be inflated"""

    def __init__(self, poison):
        self.poison = poison

    def decompress(self, buffer, *args, **kwargs):
        if self.poison is not None and bytes(buffer) == self.poison:
            raise zlib.error("injected failure while decompressing")
        return zlib.decompress(buffer, *args, **kwargs)

    def __getattr__(self, name):
        return getattr(zlib, name)


def main():
    problems = []
    workdir = Path(tempfile.mkdtemp(prefix="c02_demo_"))
    try:
        rec = workdir.joinpath("rec")
        rec.mkdir()
        mock = spikeglx._mock_spikeglx_file(
            rec.joinpath("demo_g0_t0.imec.lf.bin"), META, ns=NS, nc=NC, sync_depth=16, random=True)
        original = mock["D"].tobytes()
        assert Path(mock["bin_file"]).read_bytes() == original
        with spikeglx.Reader(mock["bin_file"]) as sr:
            cbin = sr.compress_file(keep_original=False)
        source = {f.name: sha(f) for f in sorted(rec.iterdir())}
        assert set(source) == {cbin.name, cbin.with_suffix(".ch").name, cbin.with_suffix(".meta").name}, source

        # compressed payload of each chunk, to aim the failure at one chunk at a time
        ch = mtscomp.Reader()
        ch.open(cbin, cbin.with_suffix(".ch"))
        offsets = ch.chunk_offsets
        ch.close()
        blob = cbin.read_bytes()
        payloads = [blob[a:b] for a, b in zip(offsets[:-1], offsets[1:])]
        assert len(payloads) == 4 and len(set(payloads)) == 4

        for scratch_name in ("scratch", None):  # a scratch directory, and next to the compressed file
            for k, payload in enumerate(payloads):
                scratch = workdir.joinpath(f"{scratch_name}_{k}") if scratch_name else None
                final = (scratch or rec).joinpath(cbin.with_suffix(".bin").name)
                where = f"scratch_dir={'<dir>' if scratch else None}, failure at chunk {k}"
                mtscomp.zlib = FailingInflate(payload)
                try:
                    sr = spikeglx.Reader(cbin)
                    try:
                        sr.decompress_to_scratch(scratch_dir=scratch)
                        problems.append(f"{where}: the injected failure was not reported")
                    except Exception:
                        pass
                    finally:
                        sr.close()
                finally:
                    mtscomp.zlib = zlib
                # 1. nothing incomplete under the final name
                if final.exists() and final.read_bytes() != original:
                    problems.append(
                        f"{where}: {final.name} exists under its final name with {final.stat().st_size} bytes "
                        f"of the {len(original)} bytes of the recording")
                    # 2. ... and the next, undisturbed, call hands it over as the decompressed recording
                    with spikeglx.Reader(cbin) as sr:
                        again = sr.decompress_to_scratch(scratch_dir=scratch)
                    if again.read_bytes() != original:
                        problems.append(
                            f"{where}: the next decompress_to_scratch returns that file "
                            f"({again.stat().st_size} bytes) instead of the recording")
                # 3. the source is untouched
                now = {f.name: sha(f) for f in sorted(rec.iterdir()) if f.name in source}
                if now != source:
                    problems.append(f"{where}: the compressed source was modified {now} != {source}")
                # clean slate for the next injection
                for f in rec.iterdir():
                    if f.name not in source:
                        f.unlink()

        # sanity: without failure the scratch copy is the recording, byte for byte
        with spikeglx.Reader(cbin) as sr:
            good = sr.decompress_to_scratch(scratch_dir=workdir.joinpath("scratch_ok"))
        if good.read_bytes() != original:
            problems.append("undisturbed decompress_to_scratch does not reproduce the binary")
        with spikeglx.Reader(good) as s0, spikeglx.Reader(cbin) as s1:
            if s0.shape != s1.shape or not np.array_equal(s0[2400:2600, :], s1[2400:2600, :]):
                problems.append("scratch copy and compressed file differ through the reader")
    finally:
        shutil.rmtree(workdir, ignore_errors=True)

    if problems:
        print("C02 VIOLATED: decompression to scratch is not atomically published")
        for p in problems:
            print(" -", p)
        return 1
    print("C02 holds: a failed decompression to scratch never leaves an incomplete file under the final name")
    return 0


if __name__ == "__main__":
    sys.exit(main())
