import sys, os; sys.path.insert(0, os.path.join(os.path.dirname(os.path.abspath(__file__)), "src"))
"""
C02 - a compressed recording and its uncompressed original are indistinguishable through the reader:
same shape and same values for every sample selector, wherever the slice sits relative to the
compression chunks.

A small LFP-like recording (2500 Hz, hence compression chunks of 2500 samples, last chunk short) is
written with random content, compressed, and read back through spikeglx.Reader with a grid of sample
slices (start / stop on, before and after chunk boundaries; steps 1..11) and a few channel selections.
The oracle is plain NumPy slicing of the int16 array that was written to disk, scaled by the
sample-to-volt factors.

exit 0: every selector returns the oracle through both the .bin and the .cbin
exit 1: some selector returns something else (shape or values), the offending selectors are printed
"""
import logging
import shutil
import tempfile
from pathlib import Path

import numpy as np

import spikeglx

logging.disable(logging.CRITICAL)
HERE = Path(os.path.dirname(os.path.abspath(__file__)))
META = HERE / "src" / "tests" / "fixtures" / "sample3A_g0_t0.imec.lf.meta"

CHUNK = 2500  # one second of LFP at 2500 Hz: mtscomp default chunk duration
NS = 3 * CHUNK + 777  # 4 chunks, the last one is short
NC = 385


def main():
    tdir = Path(tempfile.mkdtemp(prefix="c02_demo_"))
    errors = []
    try:
        mock = spikeglx._mock_spikeglx_file(
            tdir / "demo_g0_t0.imec.lf.bin", META, ns=NS, nc=NC, sync_depth=16, random=True)
        # the oracle: what is on disk, read with plain numpy
        D = np.fromfile(mock["bin_file"], dtype=np.int16).reshape(NS, NC)
        assert np.array_equal(D, mock["D"])

        sr = spikeglx.Reader(mock["bin_file"])
        file_cbin = sr.compress_file(keep_original=True)
        sc = spikeglx.Reader(file_cbin)
        assert sc.is_mtscomp and not sr.is_mtscomp
        assert list(sc._raw.chunk_bounds) == [0, CHUNK, 2 * CHUNK, 3 * CHUNK, NS], sc._raw.chunk_bounds
        if sc.shape != sr.shape or sc.shape != (NS, NC):
            errors.append(f"shape: bin {sr.shape}, cbin {sc.shape}, on disk {(NS, NC)}")

        order = sr.raw_channel_order
        s2v = sr.channel_conversion_sample2v[sr.type].astype(np.float32)

        def oracle(nsel, csel):
            d = D[nsel].astype(np.float32)[..., order[csel]]
            return d * s2v[order[csel]]

        starts = [0, 1, 5, CHUNK - 1, CHUNK, CHUNK + 3, 2 * CHUNK - 7, -4000, None]
        stops = [CHUNK - 1, CHUNK, CHUNK + 1, 2 * CHUNK + 11, 3 * CHUNK, NS - 1, NS, -3, None]
        steps = [None, 1, 2, 3, 4, 5, 7, 10, 11]
        csels = [slice(None), slice(3, 40, 5), 384, np.array([0, 17, 200, 383])]
        ntested = 0
        for start in starts:
            for stop in stops:
                for step in steps:
                    nsel = slice(start, stop, step)
                    for ic, csel in enumerate(csels):
                        if ic > 0 and (step in (3, 4, 10)):
                            continue  # keep the run short
                        expected = oracle(nsel, csel)
                        ntested += 1
                        for name, reader in (("bin", sr), ("cbin", sc)):
                            got = reader.read(nsel=nsel, csel=csel, sync=False)
                            if got.shape != expected.shape:
                                errors.append(f"{name}[{nsel}, {csel}]: shape {got.shape}, expected {expected.shape}")
                            elif not np.array_equal(got, expected):
                                ibad = np.flatnonzero(np.any(np.atleast_2d(got.T != expected.T), axis=0))
                                errors.append(
                                    f"{name}[{nsel}, {csel}]: {ibad.size} of {expected.shape[0]} rows differ from "
                                    f"numpy, first wrong output row {ibad[0]} "
                                    f"(sample {range(*nsel.indices(NS))[ibad[0]]})")
        # same thing through the indexing syntax
        for item in [(slice(5, None, 7), slice(None)), (slice(CHUNK - 2, CHUNK + 9, 3), 12), slice(0, NS, 11)]:
            a, b = sr[item], sc[item]
            ntested += 1
            if a.shape != b.shape or not np.array_equal(a, b):
                errors.append(f"sr[{item}] : bin and cbin readers disagree (shapes {a.shape} / {b.shape})")
        sr.close()
        sc.close()
    finally:
        shutil.rmtree(tdir, ignore_errors=True)

    if errors:
        print(f"C02 VIOLATED: {len(errors)} of {ntested} selectors read differently from the data on disk")
        for e in errors[:12]:
            print("  " + e)
        if len(errors) > 12:
            print(f"  ... and {len(errors) - 12} more")
        only_cbin = all(e.startswith("cbin") or e.startswith("sr[") for e in errors)
        print(f"  only the compressed reader is affected: {only_cbin}")
        return 1
    print(f"C02 holds: {ntested} selectors read identically through .bin, .cbin and numpy")
    return 0


if __name__ == "__main__":
    sys.exit(main())
