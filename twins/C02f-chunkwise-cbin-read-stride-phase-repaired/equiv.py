import sys, os; sys.path.insert(0, os.path.join(os.path.dirname(os.path.abspath(__file__)), "src"))
"""
C02: a compressed recording and its uncompressed original must be indistinguishable through the
reader, for every selector.  Builds a small 3-chunk recording (2 full chunks and a short one),
compresses it, and compares reads of the .cbin with the definition (raw int16 samples as written,
times the sample2volt factor) for sample slices placed around the chunk boundaries, with and
without a stride.
"""
import logging
import shutil
import tempfile
from pathlib import Path

import numpy as np

import spikeglx

logging.disable(logging.CRITICAL)
META = Path(spikeglx.__file__).parent.joinpath(
    "tests", "unit", "fixtures", "sample3A_short_g0_t0.imec.ap.meta")
if not META.exists():
    META = next(Path(spikeglx.__file__).parent.joinpath("tests").rglob("sample3A_short_g0_t0.imec.ap.meta"))

NS, NC = 2500, 385  # with chunk_duration such that the chunks are 1000 samples: 1000, 1000, 500
FS = 30000.


def main():
    problems = []
    tdir = Path(tempfile.mkdtemp(prefix="c02_demo_"))
    try:
        np.random.seed(42)
        mock = spikeglx._mock_spikeglx_file(
            tdir.joinpath("demo_g0_t0.imec.ap.bin"), META, ns=NS, nc=NC, sync_depth=16, random=True)
        D = mock["D"]  # int16 array as written on disk: the oracle
        with spikeglx.Reader(mock["bin_file"]) as sr:
            assert sr.shape == (NS, NC), sr.shape
            s2v = np.array(sr.channel_conversion_sample2v[sr.type])
            order = np.array(getattr(sr, "raw_channel_order", np.arange(NC)))
            file_cbin = sr.compress_file(keep_original=True, chunk_duration=1000 / FS, n_threads=1)
        bin_bytes = mock["bin_file"].read_bytes()

        def expected(nsel, csel):
            # definition: raw samples in reader channel order, cast to float32, scaled
            c = order[csel]
            out = D[nsel, :].astype(np.float32)[..., c]
            out *= s2v[c]
            return out

        selectors = [
            (slice(0, NS), slice(None)),
            (slice(990, 1010), slice(None)),        # straddles a chunk boundary
            (slice(1000, 2000), slice(0, 5)),       # exactly one chunk
            (slice(500, 2000), 3),                  # ends on a chunk boundary
            (slice(1999, 2500), [0, 5, 16]),        # into the short last chunk
            (slice(-700, None), slice(None, -1)),   # negative start
            (slice(0, NS, 10), slice(None)),        # stride dividing the chunk size
            (slice(0, NS, 7), slice(None)),         # stride not dividing the chunk size
            (slice(3, 2400, 7), slice(2, 9)),
            (slice(995, 1500, 3), 4),
            (slice(100, 2300, 999), slice(None)),
        ]
        for name, file in (("bin", mock["bin_file"]), ("cbin", file_cbin)):
            with spikeglx.Reader(file) as sr:
                if sr.is_mtscomp != (name == "cbin"):
                    problems.append(f"{name}: reader did not open the expected file")
                if sr.shape != (NS, NC):
                    problems.append(f"{name}: shape {sr.shape} instead of {(NS, NC)}")
                for nsel, csel in selectors:
                    want = expected(nsel, csel)
                    try:
                        got = sr.read(nsel=nsel, csel=csel, sync=False)
                    except Exception as e:  # noqa
                        problems.append(f"{name}: read({nsel}, {csel}) raised {type(e).__name__}: {e}")
                        continue
                    if got.shape != want.shape:
                        problems.append(f"{name}: read({nsel}, {csel}) has shape {got.shape}, expected {want.shape}")
                    elif not np.array_equal(got, want):
                        bad = np.flatnonzero(np.any((got != want).reshape(got.shape[0], -1), axis=1))
                        samples = np.arange(NS)[nsel][bad]
                        problems.append(
                            f"{name}: read({nsel}, {csel}) returns wrong values for {bad.size} of {got.shape[0]} rows,"
                            f" first wrong row {bad[0]} (sample {samples[0]})")
        # round trip: decompress reproduces the binary byte for byte
        out = tdir.joinpath("roundtrip", "demo_g0_t0.imec.ap.bin")
        out.parent.mkdir()
        with spikeglx.Reader(file_cbin) as sc:
            sc.decompress_file(keep_original=True, out=out)
        if out.read_bytes() != bin_bytes:
            problems.append("compress then decompress does not reproduce the binary file")
    finally:
        shutil.rmtree(tdir, ignore_errors=True)

    if problems:
        print("C02 broken: the compressed file is not transparent through the reader")
        for p in problems:
            print("  - " + p)
        return 1
    print("C02 holds: compressed and uncompressed reads agree with the definition for all selectors")
    return 0


if __name__ == "__main__":
    sys.exit(main())
