"""
Differential check for refactoring N of property C03 (NP2.4 shank splitting / reconstruction).

The ORIGINAL implementation is taken from a pristine export of HEAD (/tmp/wt_C03_tmp/orig/src) and
the REFACTORED one from the worktree (/tmp/wt_C03/src). Because both trees define the same module
names (neuropixel, spikeglx, ibldsp), each implementation runs in its own child process; every child
asserts from which path the modules were imported and dumps a dictionary {observation: digest}.
The parent compares the two dictionaries key by key, prints EQUIVALENT and exits 0 when identical.
"""
import hashlib
import json
import re
import shutil
import subprocess
import sys
from pathlib import Path

WHICH = 2  # refactoring number (only used to name scratch files and in messages)
WT = Path("/tmp/wt_C03")
TMP = Path("/tmp/wt_C03_tmp")
SRC = {"orig": TMP / "orig" / "src", "new": WT / "src"}
FIXTURE_META = Path("tests/fixtures/np2split/NP24_meta/_spikeglx_ephysData_g0_t0.imec0.ap.meta")
BIN_NAME = "_spikeglx_ephysData_g0_t0.imec0.ap.bin"
FS = 29999.757983
# (imAiRangeMax, imMaxInt, imDatPrb_type)
GAINS = [("0.5", "8192", "24"), ("0.62", "2048", "2013"), ("0.6", "512", "24"), ("0.62", "8192", "2013")]


def sha(b):
    return hashlib.sha1(bytes(b)).hexdigest()


def arr_digest(a):
    import numpy as np

    a = np.asarray(a)
    return f"{a.dtype}|{a.shape}|{sha(np.ascontiguousarray(a).tobytes())}"


def outcome(fun):
    """runs fun and returns either its (digestable) result or a description of the exception"""
    try:
        return fun()
    except BaseException as e:  # noqa
        msg = re.sub(r"/tmp/wt_C03_tmp/equiv\d_(orig|new)", "<root>", str(e))
        return f"EXC {type(e).__name__}: {msg}"


# ----------------------------------------------------------------------------------------------
# child
# ----------------------------------------------------------------------------------------------
def child(which, out_json):
    src = SRC[which]
    sys.path.insert(0, str(src))
    import numpy as np
    import neuropixel
    import spikeglx
    import ibldsp.utils

    for mod in (neuropixel, spikeglx, ibldsp.utils):
        assert Path(mod.__file__).resolve().is_relative_to(src.resolve()), (which, mod.__file__)
    import logging

    logging.disable(logging.CRITICAL)

    res = {}
    root = TMP / f"equiv{WHICH}_{which}"
    if root.exists():
        shutil.rmtree(root)
    root.mkdir(parents=True)
    meta_template = src.joinpath(FIXTURE_META).read_text()

    def make_meta(ns, gain, shank_of_channel):
        rng_max, max_int, prb_type = gain
        lines = []
        for line in meta_template.splitlines():
            k, v = line.split("=", maxsplit=1)
            if k == "imAiRangeMax":
                v = rng_max
            elif k == "imAiRangeMin":
                v = "-" + rng_max
            elif k == "imMaxInt":
                v = max_int
            elif k == "imDatPrb_type":
                v = prb_type
            elif k == "fileSizeBytes":
                v = str(ns * 385 * 2)
            elif k == "fileTimeSecs":
                v = repr(ns / FS)
            elif k in ("~snsShankMap", "snsShankMap") and shank_of_channel is not None:
                v = "(4,2,640)" + "".join(
                    f"({int(s)}:{c % 2}:{c // 2}:1)" for c, s in enumerate(shank_of_channel)
                )
            lines.append(f"{k}={v}")
        return "\n".join(lines) + "\n"

    def make_data(rng, ns, kind):
        n = ns * 385
        if kind == "allvalues":  # every int16 value, many times, in scrambled order
            dat = (np.arange(n, dtype=np.int64) % 65536 - 32768).astype(np.int16)
            dat = rng.permutation(dat)
        elif kind == "random":
            dat = rng.integers(-32768, 32768, size=n).astype(np.int16)
        elif kind == "extremes":
            dat = rng.choice(np.array([-32768, -32767, -1, 0, 1, 32766, 32767], dtype=np.int16), size=n)
        else:  # smallish, realistic amplitudes
            dat = np.clip(np.round(rng.normal(0, 300, size=n)), -32768, 32767).astype(np.int16)
        dat = dat.reshape(ns, 385)
        dat[:, 384] = rng.integers(0, 2, size=ns) * 64
        return dat

    def shank_map(rng, kind):
        if kind == "fixture":
            return None
        if kind == "blocks4":
            return np.repeat(np.arange(4), 96)
        if kind == "blocks_uneven":
            return np.r_[np.zeros(10), np.ones(200), 2 * np.ones(1), 3 * np.ones(173)]
        if kind == "interleaved":
            return np.arange(384) % 4
        if kind == "random4":
            return rng.integers(0, 4, size=384)
        if kind == "random3":
            return rng.integers(0, 3, size=384)
        if kind == "two_02":  # shanks 0 and 2 only
            return rng.choice([0, 2], size=384)
        if kind == "single":
            return np.zeros(384)
        if kind == "last_alone":  # channel 383 alone on its shank (single-element group before the sync)
            return np.r_[np.arange(383) % 3, 3]
        raise ValueError(kind)

    def hash_tree(folder):
        out = {}
        for f in sorted(Path(folder).rglob("*")):
            if f.is_file():
                out[str(f.relative_to(folder))] = sha(f.read_bytes())
        return out

    # ------------------------------------------------------------------------------------------
    # 1. end to end: split then reconstruct, all produced bytes are hashed
    # ------------------------------------------------------------------------------------------
    scenarios = []
    rng = np.random.default_rng(20241)
    smaps = ["fixture", "blocks4", "blocks_uneven", "interleaved", "random4", "random3", "two_02", "single",
             "last_alone"]
    kinds = ["allvalues", "random", "extremes", "small"]
    windows = [1200, 2400, 3000, 6000, 60000, 1212]
    lengths = [5000, 7213, 2400, 3601, 9001, 1500]
    i = 0
    for gain in GAINS:
        for smap in smaps:
            scenarios.append(dict(gain=gain, smap=smap, kind=kinds[i % 4], nwindow=windows[i % 6],
                                  ns=lengths[(i * 5 + i // 6) % 6], post_check=(i % 3 == 0)))
            i += 1
    # a few degenerate ones: window shorter than what the taper needs / float window / ns override
    scenarios.append(dict(gain=GAINS[1], smap="random4", kind="random", nwindow=0.1 * 30000, ns=4000, post_check=False))
    scenarios.append(dict(gain=GAINS[2], smap="blocks4", kind="random", nwindow=600, ns=2000, post_check=False))
    scenarios.append(dict(gain=GAINS[0], smap="fixture", kind="allvalues", nwindow=None, ns=3000, post_check=True))
    scenarios.append(dict(gain=GAINS[3], smap="interleaved", kind="random", nwindow=2400, ns=6000, post_check=False,
                          nsamples=4100))
    scenarios.append(dict(gain=GAINS[1], smap="random4", kind="random", nwindow=2400, ns=5000, post_check=False,
                          nshank=[0, 2]))

    for isc, sc in enumerate(scenarios):
        tag = f"e2e{isc:02d}"
        sroot = root / tag
        pdir = sroot / "probe00"
        pdir.mkdir(parents=True)
        rng = np.random.default_rng(1000 + isc)
        dat = make_data(rng, sc["ns"], sc["kind"])
        dat.tofile(pdir / BIN_NAME)
        (pdir / BIN_NAME).with_suffix(".meta").write_text(make_meta(sc["ns"], sc["gain"], shank_map(rng, sc["smap"])))
        orig_sha = sha((pdir / BIN_NAME).read_bytes())
        state = {}

        def split():
            conv = neuropixel.NP2Converter(pdir / BIN_NAME, post_check=sc["post_check"], compress=False)
            state["conv"] = conv
            conv.init_params(nwindow=sc["nwindow"], nsamples=sc.get("nsamples"), nshank=sc.get("nshank"))
            status = conv.process()
            info = {k: {kk: (arr_digest(vv) if kk == "chns" else str(Path(vv).relative_to(sroot)))
                        for kk, vv in v.items()} for k, v in conv.shank_info.items()}
            return dict(status=status, info=info, check_completed=conv.check_completed,
                        already_exists=conv.already_exists)

        res[f"{tag}/split"] = outcome(split)
        # second run without and with overwrite (exercises the already-exists branch of _prepare_files_NP24)
        if isc % 7 == 0 and "conv" in state:
            res[f"{tag}/split_again"] = outcome(lambda: state["conv"].process())
            res[f"{tag}/tree_after_again"] = hash_tree(sroot)
            res[f"{tag}/split_overwrite"] = outcome(lambda: state["conv"].process(overwrite=True))
        if "conv" in state:
            outcome(lambda: state["conv"].sr.close())
            for v in getattr(state["conv"], "shank_info", {}).values():  # files left open after an exception
                for k in ("ap_open_file", "lf_open_file"):
                    if k in v:
                        v[k].close()
        res[f"{tag}/tree_split"] = hash_tree(sroot)

        # is each shank file exactly the column subset of the original ? (informative, must agree between impls)
        def lossless():
            out = {}
            chn = spikeglx._map_channels_from_meta(spikeglx.read_meta_data((pdir / BIN_NAME).with_suffix(".meta")))
            for f in sorted(sroot.glob("probe00?/*.ap.bin")):
                sh = ord(f.parent.name[-1]) - 97
                cols = np.r_[np.where(chn["shank"] == sh)[0], 384]
                got = np.fromfile(f, dtype=np.int16)
                out[f.parent.name] = bool(got.size == dat[:, cols].size and np.all(got.reshape(-1, cols.size) == dat[:, cols]))
            return out

        res[f"{tag}/lossless"] = outcome(lossless)

        # reconstruction
        shutil.rmtree(pdir)

        def recon():
            rec = neuropixel.NP2Reconstructor(sroot, pname="probe00", compress=False)
            state["rec"] = rec
            status = rec.process()
            return dict(status=status, save_file=str(getattr(rec, "save_file", Path(sroot)).relative_to(sroot)),
                        nch=int(getattr(rec, "nch", -1)), ns=int(getattr(rec, "nsamples", -1)))

        res[f"{tag}/recon"] = outcome(recon)
        res[f"{tag}/tree_recon"] = hash_tree(sroot)
        res[f"{tag}/recon_identical_to_orig"] = outcome(lambda: sha((pdir / BIN_NAME).read_bytes()) == orig_sha)
        if isc % 5 == 0:  # second pass: meta file already present with the right size -> not rewritten
            res[f"{tag}/recon_again"] = outcome(lambda: neuropixel.NP2Reconstructor(
                sroot, pname="probe00", compress=False).process())
            res[f"{tag}/tree_recon_again"] = hash_tree(sroot)
        shutil.rmtree(sroot)

    # ------------------------------------------------------------------------------------------
    # 2. NP2Converter._ind2save called directly
    # ------------------------------------------------------------------------------------------
    class WG:  # minimal stand-in for the window generator
        def __init__(self, iw, nwin):
            self.iw, self.nwin = iw, nwin

    rng = np.random.default_rng(7)
    for ig, gain in enumerate(GAINS):
        md = {"typeThis": "imec", "imAiRangeMax": float(gain[0]), "imMaxInt": float(gain[1]),
              "imDatPrb_type": float(gain[2]), "imroTbl": "x", "snsApLfSy": [384.0, 0.0, 1.0], "nSavedChans": 385.0}
        s2v = spikeglx._conversion_sample2v_from_meta(md)
        for iw_case, (samples_window, samples_taper) in enumerate([(1200, 144), (2400, 144), (600, 144), (1212, 36),
                                                                    (0.1 * 30000, 144)]):
            nswin = int(samples_window)
            raw = make_data(rng, nswin, "allvalues" if iw_case < 2 else "random")
            conv = object.__new__(neuropixel.NP2Converter)
            conv.samples_window, conv.samples_taper, conv.napch, conv.idxsyncch = samples_window, samples_taper, 384, 384
            conv.sr = type("SR", (), {})()
            conv.sr.channel_conversion_sample2v = s2v
            volts = raw.astype(np.float32, copy=True) * s2v["ap"]
            for (iw, nwin) in [(0, 1), (0, 5), (2, 5), (4, 5)]:
                for ratio, etype in [(1, "ap"), (12, "lf"), (1, "lf"), (3, "ap")]:
                    for short in (0, 77):  # last windows are usually shorter than samples_window
                        v = volts[:nswin - short if short else nswin:ratio]
                        chunk, chunk_sync = v[:, :384].T, v[:, 384:].T
                        for dt in (np.float32, np.float64):
                            key = f"ind2save/g{ig}/w{iw_case}/iw{iw}of{nwin}/r{ratio}{etype}/s{short}/{np.dtype(dt).name}"
                            c_in, s_in = chunk.astype(dt), chunk_sync.astype(dt)
                            c_copy, s_copy = c_in.copy(), s_in.copy()
                            res[key] = outcome(lambda: arr_digest(conv._ind2save(c_in, s_in, WG(iw, nwin), ratio=ratio,
                                                                                 etype=etype)))
                            res[key + "/inputs_untouched"] = bool(np.array_equal(c_in, c_copy) and np.array_equal(s_in, s_copy))
            # defaults + error paths
            chunk, chunk_sync = volts[:, :384].T, volts[:, 384:].T
            res[f"ind2save/g{ig}/w{iw_case}/defaults"] = outcome(lambda: arr_digest(conv._ind2save(chunk, chunk_sync, WG(1, 3))))
            res[f"ind2save/g{ig}/w{iw_case}/bad_etype"] = outcome(lambda: conv._ind2save(chunk, chunk_sync, WG(1, 3), etype="xx"))
            res[f"ind2save/g{ig}/w{iw_case}/bad_etype_bad_chunk"] = outcome(lambda: conv._ind2save(chunk[0], chunk_sync, WG(1, 3), etype="xx"))
            res[f"ind2save/g{ig}/w{iw_case}/bad_chunk"] = outcome(lambda: conv._ind2save(chunk[0], chunk_sync, WG(1, 3)))
            res[f"ind2save/g{ig}/w{iw_case}/bad_sync"] = outcome(lambda: conv._ind2save(chunk, chunk_sync[0], WG(1, 3)))
            res[f"ind2save/g{ig}/w{iw_case}/mismatch"] = outcome(lambda: conv._ind2save(chunk, chunk_sync[:, :-5], WG(1, 3)))
            res[f"ind2save/g{ig}/w{iw_case}/ratio0"] = outcome(lambda: conv._ind2save(chunk, chunk_sync, WG(1, 3), ratio=0))
            res[f"ind2save/g{ig}/w{iw_case}/nan"] = outcome(lambda: arr_digest(conv._ind2save(chunk * np.nan, chunk_sync, WG(1, 3))))

    # ------------------------------------------------------------------------------------------
    # 3. NP2Converter._split2shanks / _closefiles / _writemetadata_ap called directly
    # ------------------------------------------------------------------------------------------
    rng = np.random.default_rng(11)
    for icase in range(12):
        d = root / f"split{icase}"
        d.mkdir()
        nsh = int(rng.integers(1, 5))
        smap = rng.integers(0, nsh, size=384)
        conv = object.__new__(neuropixel.NP2Converter)
        conv.np_version = "NP2.4"
        conv.fs_lf = 2500
        conv.sr = type("SR", (), {})()
        conv.sr.meta = spikeglx.read_meta_data(src.joinpath(FIXTURE_META))
        conv.shank_info = {}
        for sh in (range(nsh) if icase % 2 else reversed(range(nsh))):
            conv.shank_info[f"shank{sh}"] = {
                "chns": np.r_[np.where(smap == sh)[0], 384],
                "ap_file": d / f"sh{sh}.ap.bin", "ap_open_file": open(d / f"sh{sh}.ap.bin", "wb"),
                "lf_file": d / f"sh{sh}.lf.bin", "lf_open_file": open(d / f"sh{sh}.lf.bin", "wb"),
            }
        for _ in range(3):
            chunk = rng.integers(-32768, 32768, size=(int(rng.integers(1, 50)), 385)).astype(np.int16)
            res[f"split2shanks/{icase}/ret{_}"] = outcome(lambda: repr(conv._split2shanks(chunk, etype="ap")))
            res[f"split2shanks/{icase}/retlf{_}"] = outcome(lambda: repr(conv._split2shanks(chunk[::2].astype(np.float64), etype="lf")))
        res[f"split2shanks/{icase}/default_etype"] = outcome(lambda: repr(conv._split2shanks(chunk)))
        res[f"split2shanks/{icase}/bad_etype"] = outcome(lambda: conv._split2shanks(chunk, etype="zz"))
        res[f"split2shanks/{icase}/bad_chunk"] = outcome(lambda: conv._split2shanks(chunk[:, :100], etype="ap"))
        res[f"split2shanks/{icase}/close_ap"] = outcome(lambda: repr(conv._closefiles(etype="ap")))
        res[f"split2shanks/{icase}/close_lf"] = outcome(lambda: repr(conv._closefiles(etype="lf")))
        res[f"split2shanks/{icase}/close_twice"] = outcome(lambda: conv._closefiles(etype="lf"))
        res[f"split2shanks/{icase}/keys_left"] = {k: sorted(v.keys()) for k, v in conv.shank_info.items()}
        res[f"split2shanks/{icase}/meta"] = outcome(lambda: repr(conv._writemetadata_ap()))
        res[f"split2shanks/{icase}/meta_lf"] = outcome(lambda: repr(conv._writemetadata_lf()))
        res[f"split2shanks/{icase}/tree"] = hash_tree(d)
        res[f"split2shanks/{icase}/order"] = list(conv.shank_info.keys())
        res[f"split2shanks/{icase}/srmeta_untouched"] = sha(repr(sorted(conv.sr.meta.items())).encode())
        shutil.rmtree(d)

    # ------------------------------------------------------------------------------------------
    # 4. channel subset string: spikeglx._get_savedChans_subset and its parser NP2Reconstructor._get_chans
    # ------------------------------------------------------------------------------------------
    rng = np.random.default_rng(13)
    rec = object.__new__(neuropixel.NP2Reconstructor)
    chan_sets = [np.r_[np.arange(96), 384], np.r_[np.arange(0, 384, 4), 384], np.r_[383, 384], np.r_[0, 384],
                 np.array([384]), np.array([5]), np.array([], dtype=int), np.arange(385), np.r_[0, 2, 3, 4, 10, 383, 384],
                 np.r_[1, 3, 5], np.r_[1, 2, 3], [1, 2, 3, 7], (4, 5, 9), np.r_[10, 9, 8], np.r_[3, 3, 4],
                 np.arange(6).reshape(2, 3), np.array(5), np.r_[0.0, 1.0, 5.0], np.arange(5, dtype=np.int16)]
    for _ in range(200):
        n = int(rng.integers(1, 384))
        chan_sets.append(np.r_[np.sort(rng.choice(384, size=n, replace=False)), 384])
    for _ in range(50):  # long runs with a few holes
        keep = np.ones(384, dtype=bool)
        keep[rng.choice(384, size=int(rng.integers(0, 8)), replace=False)] = False
        chan_sets.append(np.r_[np.where(keep)[0], 384])
    strings = []
    for ic, chns in enumerate(chan_sets):
        s = outcome(lambda: spikeglx._get_savedChans_subset(chns))
        res[f"subset/{ic}"] = repr(s)
        if isinstance(s, str) and not s.startswith("EXC"):
            strings.append(s)
    strings += ["5", "0:3", "3:3", "5:2", "1,2,3", "0:95,384", "7,0:3", "384", "", "a:b", "1:2:3", "1,,2", " 4 , 5:6",
                "0:383,384", "1.5", "-3:4", "3:", ":3", "2:4,9"]
    for istr, s in enumerate(strings):
        def parse():
            out = rec._get_chans({"snsSaveChanSubset_orig": s})
            return f"{type(out).__name__}|{arr_digest(out)}|{np.asarray(out).tolist()}"
        res[f"getchans/{istr}"] = outcome(parse)
    res["getchans/missing_key"] = outcome(lambda: rec._get_chans({}))
    res["getchans/not_str"] = outcome(lambda: rec._get_chans({"snsSaveChanSubset_orig": 5.0}))
    res["getchans/bunch"] = outcome(lambda: arr_digest(rec._get_chans(
        spikeglx.read_meta_data(src.joinpath(FIXTURE_META)) | {"snsSaveChanSubset_orig": "0:9,384"})))

    shutil.rmtree(root)
    Path(out_json).write_text(json.dumps(res, sort_keys=True, default=str))


# ----------------------------------------------------------------------------------------------
# parent
# ----------------------------------------------------------------------------------------------
def main():
    TMP.mkdir(exist_ok=True)
    if not (SRC["orig"] / "neuropixel.py").exists():
        SRC["orig"].parent.mkdir(parents=True, exist_ok=True)
        subprocess.run(f"git -C {WT} archive HEAD src | tar -x -C {SRC['orig'].parent}", shell=True, check=True)
    # the pristine copy must be HEAD
    for f in ("neuropixel.py", "spikeglx.py", "ibldsp/utils.py"):
        head = subprocess.run(["git", "-C", str(WT), "show", f"HEAD:src/{f}"], capture_output=True, check=True).stdout
        assert head == (SRC["orig"] / f).read_bytes(), f"pristine copy of {f} differs from HEAD"
    changed = [f for f in ("neuropixel.py", "spikeglx.py", "ibldsp/utils.py")
               if (SRC["orig"] / f).read_bytes() != (SRC["new"] / f).read_bytes()]
    print(f"refactoring {WHICH}: files differing from HEAD in the worktree: {changed or 'NONE (worktree is clean)'}")
    results = {}
    for which in ("orig", "new"):
        out = TMP / f"equiv{WHICH}_{which}.json"
        if out.exists():
            out.unlink()
        subprocess.run([sys.executable, __file__, "--child", which, str(out)], check=True, cwd=str(TMP))
        results[which] = json.loads(out.read_text())
    a, b = results["orig"], results["new"]
    bad = [k for k in sorted(set(a) | set(b)) if a.get(k, "<missing>") != b.get(k, "<missing>")]
    nexc = sum(1 for v in a.values() if isinstance(v, str) and v.startswith("EXC"))
    print(f"{len(a)} observations compared ({nexc} of them are exceptions raised identically by both)")
    if bad:
        for k in bad[:40]:
            print("DIFFERENT:", k, "\n   orig:", a.get(k), "\n   new: ", b.get(k))
        print(f"NOT EQUIVALENT ({len(bad)} differences)")
        sys.exit(1)
    print("EQUIVALENT")
    sys.exit(0)


if __name__ == "__main__":
    if len(sys.argv) > 1 and sys.argv[1] == "--child":
        child(sys.argv[2], sys.argv[3])
    else:
        main()
