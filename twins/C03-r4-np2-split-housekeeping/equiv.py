import sys, os; sys.path.insert(0, os.path.join(os.path.dirname(os.path.abspath(__file__)), "src"))
"""
Differential equivalence check for the C03 housekeeping change (NP2.4 shank splitting / reconstruction).

Reference copies (verbatim, taken from HEAD) of every function touched by the patch are kept in this file:
    neuropixel.NP2Converter._prepare_files_NP24, _split2shanks, _ind2save, _writemetadata_ap
    neuropixel.NP2Reconstructor._get_chans, _reconstruct, write_metadata
    spikeglx._get_savedChans_subset
They are compared with the implementations imported from ./src on seeded random inputs and edge cases:
results must be identical (values, dtypes, shapes, exception types, bytes of every file written).
Exits 0 when everything is identical, 1 with a message otherwise.
"""
import copy
import logging
import shutil
import tempfile
import traceback
import types
from pathlib import Path

import numpy as np

import neuropixel
import spikeglx as spikeglx_new
from ibldsp.utils import WindowGenerator

_logger = logging.getLogger("ibllib")
SRC = Path(os.path.dirname(os.path.abspath(__file__))).joinpath("src")
assert Path(neuropixel.__file__).resolve().parent == SRC.resolve(), neuropixel.__file__
assert Path(spikeglx_new.__file__).resolve().parent == SRC.resolve(), spikeglx_new.__file__


# ----------------------------------------------------------------------------------------------------------------------
# Reference implementations: verbatim copies of the ORIGINAL code
# ----------------------------------------------------------------------------------------------------------------------
def _get_savedChans_subset(chns):
    """
    Get the subset of the original channels that are saved per shank
    :param chns:
    :return:
    """
    chn_grps = np.r_[0, np.where(np.diff(chns) != 1)[0] + 1, len(chns)]
    chn_subset = [
        f"{chns[chn_grps[i]]}:{chns[chn_grps[i + 1] - 1]}"
        if chn_grps[i] < len(chns) - 1
        else f"{chns[chn_grps[i]]}"
        for i in range(len(chn_grps) - 1)
    ]

    return ",".join([sub for sub in chn_subset])


class _RefSpikeglx:
    """
    Stand-in for the `spikeglx` module seen by the reference methods below: everything is forwarded to the real
    module except `_get_savedChans_subset`, which resolves to the reference copy above
    """

    def __getattr__(self, name):
        if name == "_get_savedChans_subset":
            return _get_savedChans_subset
        return getattr(spikeglx_new, name)


spikeglx = _RefSpikeglx()


class RefNP2ConverterMethods:
    def _prepare_files_NP24(self, overwrite=False):
        """
        Creates folders for individual shanks and creates and opens ap.bin and lf.bin files for
        each shank. Checks to see if and of the expected shank folders already exist
        and will only rerun if overwrite=True. Don't call this function directly but access through
        process() method

        :param overwrite: set to True to force rerunning even if lf.bin file already exists
        :return:
        """
        chn_info = spikeglx._map_channels_from_meta(self.sr.meta)
        n_shanks = self.nshank or np.unique(chn_info["shank"]).astype(np.int16)
        label = self.ap_file.parent.parts[-1]
        shank_info = {}
        self.already_exists = False

        for sh in n_shanks:
            _shank_info = {}
            # channels for individual shank + sync channel
            _shank_info["chns"] = np.r_[
                np.where(chn_info["shank"] == sh)[0],
                np.array(spikeglx._get_sync_trace_indices_from_meta(self.sr.meta)),
            ]

            probe_path = self.ap_file.parent.parent.joinpath(
                label + chr(97 + int(sh)) + self.extra
            )

            if not probe_path.exists() or overwrite:
                if self.sr.is_mtscomp:
                    ap_file_bin = self.ap_file.with_suffix(".bin").name
                else:
                    ap_file_bin = self.ap_file.name
                probe_path.mkdir(parents=True, exist_ok=True)
                _shank_info["ap_file"] = probe_path.joinpath(ap_file_bin)
                _shank_info["ap_open_file"] = open(_shank_info["ap_file"], "wb")
                _shank_info["lf_file"] = probe_path.joinpath(
                    ap_file_bin.replace("ap", "lf")
                )
                _shank_info["lf_open_file"] = open(_shank_info["lf_file"], "wb")

                shank_info[f"shank{sh}"] = _shank_info
            else:
                self.already_exists = True
                _logger.warning(
                    "One or more of the sub shank folders already exists, "
                    "to force reprocessing set overwrite to True"
                )

        return shank_info

    def _split2shanks(self, chunk, etype="ap"):
        """
        Splits the signal on the 384 channels into the individual shanks and saves to file

        :param chunk: portion of signal with all 384 channels
        :param type: ephys type, either 'ap' or 'lf'
        :return:
        """

        for sh in self.shank_info.keys():
            open = self.shank_info[sh][f"{etype}_open_file"]
            (chunk[:, self.shank_info[sh]["chns"]]).tofile(open)

    def _ind2save(self, chunk, chunk_sync, wg, ratio=1, etype="ap"):
        """
        Determines the portion of the full chunk to save based on the window and taper used. Cuts
        off beginning and end to get rid of filtering/ decimating artefacts

        :param chunk: chunk of ephys signal
        :param chunk_sync: chunk of sync signal
        :param wg: Window generator object
        :param ratio: downsample ratio
        :param etype: ephys type, either 'ap' or 'lf'
        :return:
        """

        ind2save = [
            int(self.samples_taper * 2 / ratio),
            int((self.samples_window - self.samples_taper * 2) / ratio),
        ]
        if wg.iw == 0:
            ind2save[0] = 0
        if wg.iw == wg.nwin - 1:
            ind2save[1] = int(self.samples_window / ratio)

        chunk2save = np.round(
            np.c_[
                chunk[:, slice(*ind2save)].T
                / self.sr.channel_conversion_sample2v[etype][: self.napch],
                chunk_sync[:, slice(*ind2save)].T
                / self.sr.channel_conversion_sample2v[etype][self.idxsyncch:],
            ]
        ).astype(np.int16)

        return chunk2save

    def _writemetadata_ap(self):
        """
        Function to create ap meta data file. Adapts the relevant keys in the spikeglx meta file
        to contain the correct number of channels. Also adds key to indicate that this is not an
        original meta data file, but one that has been adapted

        :return:
        """

        for sh in self.shank_info.keys():
            n_chns = len(self.shank_info[sh]["chns"])
            # First for the ap file
            meta_shank = copy.deepcopy(self.sr.meta)
            meta_shank["acqApLfSy"][0] = n_chns - 1
            meta_shank["snsApLfSy"][0] = n_chns - 1
            meta_shank["nSavedChans"] = n_chns
            meta_shank["fileSizeBytes"] = self.shank_info[sh]["ap_file"].stat().st_size
            meta_shank["snsSaveChanSubset_orig"] = spikeglx._get_savedChans_subset(
                self.shank_info[sh]["chns"]
            )
            meta_shank["snsSaveChanSubset"] = f"0:{n_chns-1}"
            meta_shank["original_meta"] = False
            meta_shank[f"{self.np_version}_shank"] = int(sh[-1])
            meta_file = self.shank_info[sh]["ap_file"].with_suffix(".meta")
            spikeglx.write_meta_data(meta_shank, meta_file)


class RefNP2ReconstructorMethods:
    def _get_chans(self, meta):
        chn_subset = meta.get("snsSaveChanSubset_orig")
        chn_subset = chn_subset.split(",")
        for ich, ch_sub in enumerate(chn_subset):
            sub = ch_sub.split(":")
            if len(sub) > 1:
                chns = np.arange(int(sub[0]), int(sub[1]) + 1)
            else:
                chns = np.array(int(sub[0]))

            if ich == 0:
                chns_all = chns
            else:
                chns_all = np.r_[chns_all, chns]

        return chns_all

    def _reconstruct(self):
        """
        Reconstructs the original file from the subshank files
        :return:
        """

        file_out = open(self.save_file, "wb")

        wg = WindowGenerator(self.nsamples, self.samples_window, 0)
        for first, last in wg.firstlast:
            ns = int(last - first)
            chunk = np.zeros((ns, self.nch), dtype=np.int16)
            for ish, sh in enumerate(self.shank_info.keys()):
                if ish == 0:
                    chunk[:, self.shank_info[sh]["chns"]] = self.shank_info[sh]["sr"]._raw[first:last, :]
                else:
                    chunk[:, self.shank_info[sh]["chns"][:-1]] = self.shank_info[sh]["sr"]._raw[first:last, :-1]
            chunk.tofile(file_out)

        # close the sglx instances once we are done converting
        for sh in self.shank_info.keys():
            sr = self.shank_info[sh].pop("sr")
            sr.close()

        file_out.close()

        return 1

    def write_metadata(self):
        """
        Write metadata for the original ap file. If it already exists and the file size matches, does not replace the original
        file
        :return:
        """
        # see if the meta file already exists

        meta_file = self.save_file.with_suffix(".meta")
        if meta_file.exists():
            meta_info = spikeglx.read_meta_data(meta_file)
            if meta_info["fileSizeBytes"] == self.save_file.stat().st_size:
                _logger.info('Meta file already present won"t overwrite')
                return

        # First for the ap file
        meta_shank = spikeglx.read_meta_data(
            self.shank_info["shank0"]["ap_file"].with_suffix(".meta")
        )
        meta_shank["acqApLfSy"][0] = self.nch - 1
        meta_shank["snsApLfSy"][0] = self.nch - 1
        meta_shank["nSavedChans"] = self.nch
        meta_shank["fileSizeBytes"] = self.save_file.stat().st_size
        meta_shank["snsSaveChanSubset"] = f"0:{self.nch - 1}"
        _ = meta_shank.pop(f"{self.np_version}_shank")
        _ = meta_shank.pop("snsSaveChanSubset_orig")

        spikeglx.write_meta_data(meta_shank, meta_file)


# ----------------------------------------------------------------------------------------------------------------------
# Harness
# ----------------------------------------------------------------------------------------------------------------------
class RefNP2Converter(RefNP2ConverterMethods, neuropixel.NP2Converter):
    """The current converter with the touched methods replaced by their reference copies"""


class RefNP2Reconstructor(RefNP2ReconstructorMethods, neuropixel.NP2Reconstructor):
    """The current reconstructor with the touched methods replaced by their reference copies"""


REF_C, NEW_C = RefNP2ConverterMethods, neuropixel.NP2Converter
REF_R, NEW_R = RefNP2ReconstructorMethods, neuropixel.NP2Reconstructor
FIXTURE_META = SRC.joinpath("tests", "fixtures", "np2split", "NP24_meta", "_spikeglx_ephysData_g0_t0.imec0.ap.meta")
BIN_NAME = "_spikeglx_ephysData_g0_t0.imec0.ap.bin"
# (imAiRangeMax, imMaxInt) combinations written by SpikeGLX for NP2 probes
FULLSCALE_MAXINT = [(0.5, 8192), (0.62, 2048), (0.6, 512), (0.62, 8192), (0.5, 2048), (0.6, 8192)]
NC = 384

COUNTS = {}
FAILURES = []


class _Counter(logging.Handler):
    def __init__(self):
        super().__init__()
        self.messages = []

    def emit(self, record):
        self.messages.append((record.levelno, record.getMessage()))


LOG = _Counter()
_logger.addHandler(LOG)
_logger.propagate = False
_logger.setLevel(logging.DEBUG)
logging.getLogger().setLevel(logging.CRITICAL)


def outcome(fn, *args, **kwargs):
    """:return: ('ok', result) or ('exc', exception type)"""
    try:
        return "ok", fn(*args, **kwargs)
    except Exception as e:  # noqa
        return "exc", type(e)


def same(a, b):
    """Exact comparison: types, dtypes, shapes, values, key order"""
    if type(a) is not type(b):
        return False
    if isinstance(a, np.ndarray):
        return a.dtype == b.dtype and a.shape == b.shape and np.array_equal(a, b, equal_nan=a.dtype.kind == "f")
    if isinstance(a, dict):
        return list(a.keys()) == list(b.keys()) and all(same(a[k], b[k]) for k in a)
    if isinstance(a, (list, tuple)):
        return len(a) == len(b) and all(same(x, y) for x, y in zip(a, b))
    return a == b


def check(group, label, ref, new):
    COUNTS[group] = COUNTS.get(group, 0) + 1
    if not same(ref, new):
        FAILURES.append(f"[{group}] {label}: reference {str(ref)[:300]} != refactored {str(new)[:300]}")


def describe(v, root):
    """Comparable description of a value stored in shank_info"""
    if isinstance(v, np.ndarray):
        return v
    if isinstance(v, Path):
        return str(v.relative_to(root))
    return type(v).__name__


def tree(root):
    """:return: {relative path: bytes or None for directories} of everything below root"""
    root = Path(root)
    return {
        str(p.relative_to(root)): (p.read_bytes() if p.is_file() else None) for p in sorted(root.rglob("*"))
    }


def s2v_np2(fullscale, maxint, napch, nsync=1):
    """Same construction as spikeglx._conversion_sample2v_from_meta for NP2 probes"""
    int2volt = fullscale / maxint
    return np.hstack((int2volt / 80 * np.ones(napch).astype(np.float32), np.ones(nsync, dtype=np.float32)))


def random_shank_map(rng, kind):
    """:return: array of 384 shank numbers"""
    if kind == "blocks":  # the 4 shanks hstripe layout of the fixture: blocks of 48 channels
        return np.tile(np.repeat(np.array([0, 1, 2, 3]), 48), 2)
    if kind == "single":
        return np.zeros(NC, dtype=int) + int(rng.integers(0, 4))
    nsh = int(rng.integers(1, 5))
    if kind == "runs":  # runs of random length
        shank, out = int(rng.integers(0, nsh)), []
        while len(out) < NC:
            out += [shank] * int(rng.integers(1, 60))
            shank = int(rng.integers(0, nsh))
        return np.array(out[:NC])
    shanks = rng.choice(4, nsh, replace=False)  # arbitrary assignment, not necessarily shanks 0..nsh-1
    return shanks[rng.integers(0, nsh, NC)]


def make_meta_text(shank, fullscale, maxint, nbytes, time_secs=1):
    text = FIXTURE_META.read_text()
    shank_map = "(4,2,640)" + "".join(f"({s}:{i % 2}:{i // 2}:1)" for i, s in enumerate(shank))
    out = []
    for line in text.splitlines():
        key = line.split("=")[0]
        line = {
            "imAiRangeMax": f"imAiRangeMax={fullscale}",
            "imAiRangeMin": f"imAiRangeMin=-{fullscale}",
            "imMaxInt": f"imMaxInt={maxint}",
            "fileSizeBytes": f"fileSizeBytes={nbytes}",
            "fileTimeSecs": f"fileTimeSecs={time_secs}",
            "snsShankMap": f"snsShankMap={shank_map}",
        }.get(key, line)
        out.append(line)
    return "\n".join(out) + "\n"


def make_meta(shank, fullscale, maxint, nbytes, tmp):
    meta_file = Path(tmp).joinpath("scratch.ap.meta")
    meta_file.write_text(make_meta_text(shank, fullscale, maxint, nbytes))
    meta = spikeglx_new.read_meta_data(meta_file)
    meta_file.unlink()
    return meta


# ----------------------------------------------------------------------------------------------------------------------
# A. spikeglx._get_savedChans_subset and B. NP2Reconstructor._get_chans (the inverse)
# ----------------------------------------------------------------------------------------------------------------------
def test_chans_subset(rng):
    inputs = []
    for kind in ["blocks", "single", "runs", "runs", "runs", "random", "random", "random"] * 6:
        shank = random_shank_map(rng, kind)
        for sh in np.unique(shank):
            inputs.append(np.r_[np.where(shank == sh)[0], np.array([NC])])
    for _ in range(120):  # arbitrary sorted subsets, with and without the sync channel, several dtypes
        chns = np.sort(rng.choice(NC, int(rng.integers(1, NC + 1)), replace=False))
        if rng.random() < 0.7:
            chns = np.r_[chns, NC]
        inputs.append(chns.astype(rng.choice([np.int64, np.int32, np.int16, np.uint16])))
    inputs += [
        np.arange(385), np.arange(1), np.array([384]), np.array([3, 384]), np.array([3, 4]), np.array([3, 5]),
        np.array([0, 1, 2, 10]), np.array([0, 5, 6, 7]), np.array([7, 6, 5]), np.array([4, 4, 5]),
        np.array([], dtype=int), np.array([1.0, 2.0, 4.0]), np.arange(6).reshape(2, 3), np.array(5),
        [0, 1, 2, 5, 384], [], (1, 2, 3), list(range(0, 384, 2)) + [384], None, "12",
    ]
    strings = []
    for i, chns in enumerate(inputs):
        ref = outcome(_get_savedChans_subset, copy.deepcopy(chns))
        new = outcome(spikeglx_new._get_savedChans_subset, copy.deepcopy(chns))
        check("_get_savedChans_subset", f"input {i} {str(chns)[:80]}", ref, new)
        if ref[0] == "ok":
            strings.append(ref[1])
    strings += [
        "5", "0:384", "0:3,8", "8,0:3", "5,7,9", "5,7", "3:1,5", "3:1", "4:4", "0:2,2:4", "10:12,0:2,384",
        "", ",", "5,", "a", "1:b", "1:2:3", " 4 : 6 ,9", "1.5", "-3:2", "0:47,96:143,384",
    ]
    for i, s in enumerate(strings):
        meta = {"snsSaveChanSubset_orig": s, "other": 1}
        check("_get_chans", f"string {i} {s[:80]!r}", outcome(REF_R._get_chans, None, dict(meta)), outcome(NEW_R._get_chans, None, dict(meta)))
    for i, meta in enumerate([{}, {"snsSaveChanSubset_orig": None}, {"snsSaveChanSubset_orig": 12}, None]):
        check("_get_chans", f"bad meta {i}", outcome(REF_R._get_chans, None, meta), outcome(NEW_R._get_chans, None, meta))


# ----------------------------------------------------------------------------------------------------------------------
# C. NP2Converter._ind2save
# ----------------------------------------------------------------------------------------------------------------------
def fake_converter(samples_window, s2v_ap, s2v_lf, napch, idxsyncch=None, samples_taper=144):
    sr = types.SimpleNamespace(channel_conversion_sample2v={"ap": s2v_ap, "lf": s2v_lf})
    return types.SimpleNamespace(
        samples_taper=samples_taper, samples_window=samples_window, sr=sr, napch=napch,
        idxsyncch=napch if idxsyncch is None else idxsyncch,
    )


def compare_ind2save(label, conv, chunk, chunk_sync, wg, ratio, etype):
    args_ref = (copy.deepcopy(conv), chunk.copy(), chunk_sync.copy(), copy.deepcopy(wg))
    args_new = (copy.deepcopy(conv), chunk.copy(), chunk_sync.copy(), copy.deepcopy(wg))
    ref = outcome(REF_C._ind2save, *args_ref, ratio=ratio, etype=etype)
    new = outcome(NEW_C._ind2save, *args_new, ratio=ratio, etype=etype)
    check("_ind2save", label, ref, new)
    # none of the two implementations may modify its inputs
    check("_ind2save", label + " (inputs untouched)", [args_ref[1], args_ref[2]], [args_new[1], args_new[2]])


def test_ind2save(rng):
    all_int16 = np.arange(-32768, 32768).astype(np.int16)
    napch, window = 12, 6000
    for fullscale, maxint in FULLSCALE_MAXINT:
        s2v = s2v_np2(fullscale, maxint, napch)
        # every int16 sample value, converted to volts the way spikeglx.Reader does it
        raw = np.r_[all_int16, rng.integers(-32768, 32768, napch * window - all_int16.size).astype(np.int16)]
        raw = rng.permutation(raw).reshape(window, napch)
        volts = raw.astype(np.float32) * s2v[:napch]
        sync = rng.integers(0, 2 ** 15, (window, 1)).astype(np.float32)
        for iw, nwin in [(0, 5), (2, 5), (4, 5), (0, 1)]:
            wg = types.SimpleNamespace(iw=iw, nwin=nwin)
            for dtype in [np.float32, np.float64]:
                for win in [window, float(window)]:
                    conv = fake_converter(win, s2v, s2v, napch)
                    label = f"all int16, {fullscale}/{maxint}, iw={iw}/{nwin}, {np.dtype(dtype).name}, window={win!r}"
                    compare_ind2save(label, conv, volts.T.astype(dtype), sync.T.astype(dtype), wg, 1, "ap")
    for i in range(220):
        napch, nsync = int(rng.integers(1, 24)), int(rng.integers(1, 3))
        ratio = int(rng.choice([1, 12]))
        window = 12 * int(rng.integers(49, 260))  # multiples of 12 above the overlap of 576 samples
        fullscale, maxint = FULLSCALE_MAXINT[int(rng.integers(len(FULLSCALE_MAXINT)))]
        s2v_ap = s2v_np2(fullscale, maxint, napch, nsync)
        s2v_lf = s2v_ap if rng.random() < 0.5 else (s2v_ap * 2).astype(rng.choice([np.float32, np.float64]))
        nwin = int(rng.integers(1, 6))
        iw = int(rng.integers(0, nwin))
        # the last window of a recording is usually shorter than the processing window
        ncols = window // ratio if (iw < nwin - 1 or rng.random() < 0.3) else int(rng.integers(1, window // ratio + 1))
        dtype = rng.choice([np.float32, np.float64])
        if ratio == 1:
            volts = (rng.integers(-32768, 32768, (napch, ncols)).astype(np.float32) * s2v_ap[:napch, None]).astype(dtype)
        else:  # filtered and decimated signal: non integer values, including exact .5 ties once divided
            samples = rng.uniform(-33000, 33000, (napch, ncols))
            samples[:, ::7] = np.round(samples[:, ::7]) + 0.5
            volts = (samples * s2v_lf[:napch, None].astype(np.float64)).astype(dtype)
        sync = rng.integers(0, 2 ** 15, (nsync, ncols)).astype(dtype)
        win = window if rng.random() < 0.6 else float(window)
        conv = fake_converter(win, s2v_ap, s2v_lf, napch)
        if rng.random() < 0.5:
            wg = types.SimpleNamespace(iw=iw, nwin=nwin)
        else:  # a real window generator positioned on window iw
            wg = WindowGenerator(window * nwin - 576 * (nwin - 1) - int(rng.integers(0, 100)), window, 576)
            iw = min(iw, wg.nwin - 1)
            it = wg.firstlast
            for _ in range(iw + 1):
                next(it)
        etype = "ap" if ratio == 1 else "lf"
        compare_ind2save(f"random {i}: napch={napch} ratio={ratio} window={win!r} iw={wg.iw}/{wg.nwin} ncols={ncols}",
                         conv, volts, sync, wg, ratio, etype)
    # inadmissible calls must fail the same way
    s2v = s2v_np2(0.5, 8192, 4)
    conv, wg = fake_converter(1200, s2v, s2v, 4), types.SimpleNamespace(iw=1, nwin=3)
    ok, ok_sync = np.zeros((4, 1200), dtype=np.float32), np.zeros((1, 1200), dtype=np.float32)
    compare_ind2save("unknown etype", conv, ok, ok_sync, wg, 1, "nidq")
    compare_ind2save("ratio 0", conv, ok, ok_sync, wg, 0, "ap")
    compare_ind2save("wrong number of channels", conv, np.zeros((5, 1200), dtype=np.float32), ok_sync, wg, 1, "ap")
    compare_ind2save("sync length mismatch", conv, ok, np.zeros((1, 100), dtype=np.float32), wg, 1, "ap")
    compare_ind2save("1d chunk", conv, np.zeros(1200, dtype=np.float32), ok_sync, wg, 1, "ap")
    with np.errstate(invalid="ignore"):
        compare_ind2save("nan and inf", conv, ok * np.nan, ok_sync + np.inf, wg, 1, "ap")


# ----------------------------------------------------------------------------------------------------------------------
# D. _prepare_files_NP24 -> _split2shanks -> _writemetadata_ap on the same fake converter
# ----------------------------------------------------------------------------------------------------------------------
def run_split_pipeline(methods, root, case, meta, chunks):
    """Runs the three methods under test in sequence and returns everything observable"""
    root = Path(root)
    probe = root.joinpath("probe00")
    probe.mkdir(parents=True)
    for name, content in case["existing"].items():
        root.joinpath(name).parent.mkdir(parents=True, exist_ok=True)
        root.joinpath(name).write_bytes(content)
    conv = types.SimpleNamespace(
        sr=types.SimpleNamespace(meta=copy.deepcopy(meta), is_mtscomp=case["mtscomp"]), nshank=copy.deepcopy(case["nshank"]),
        ap_file=probe.joinpath(BIN_NAME).with_suffix(".cbin" if case["mtscomp"] else ".bin"), extra=case["extra"],
        np_version="NP2.4",
    )
    del LOG.messages[:]
    res = {}
    status, shank_info = outcome(methods._prepare_files_NP24, conv, overwrite=case["overwrite"])
    res["prepare"] = status if status == "ok" else (status, shank_info)
    res["already_exists"] = getattr(conv, "already_exists", "unset")
    res["log"] = [(level, msg.replace(str(root), "<root>")) for level, msg in LOG.messages]
    if status == "ok":
        res["shank_info"] = {
            sh: {
                k: (v if isinstance(v, np.ndarray) else str(v.relative_to(root)) if isinstance(v, Path)
                    else (type(v).__name__, str(Path(v.name).relative_to(root)), v.mode, v.closed))
                for k, v in info.items()
            } for sh, info in shank_info.items()
        }
        conv.shank_info = shank_info
        res["split"] = []
        for etype, chunk in chunks:
            res["split"].append(outcome(methods._split2shanks, conv, chunk.copy(), etype=etype))
        for info in shank_info.values():
            info.pop("ap_open_file").close()
            info.pop("lf_open_file").close()
        res["writemeta"] = outcome(methods._writemetadata_ap, conv)
        res["keys_after"] = {sh: list(info.keys()) for sh, info in shank_info.items()}
        res["meta_untouched"] = same(conv.sr.meta, meta)
    res["tree"] = tree(root)
    return res


def test_split_pipeline(rng, tmp):
    for i in range(60):
        kind = ["blocks", "single", "runs", "random"][i % 4]
        shank = random_shank_map(rng, kind)
        fullscale, maxint = FULLSCALE_MAXINT[i % len(FULLSCALE_MAXINT)]
        meta = make_meta(shank, fullscale, maxint, 385 * 2 * 1000, tmp)
        present = [int(s) for s in np.unique(shank)]
        nshank = None if rng.random() < 0.6 else [int(s) for s in rng.choice(4, int(rng.integers(1, 4)), replace=False)]
        extra = str(rng.choice(["", "_test", "_0_5s"]))
        existing = {}
        for sh in present:
            if rng.random() < 0.3:  # a shank folder left by a previous run
                existing[f"probe00{chr(97 + sh)}{extra}/{BIN_NAME}"] = b"previous content"
        case = dict(nshank=nshank, extra=extra, overwrite=bool(rng.random() < 0.5), mtscomp=bool(rng.random() < 0.3),
                    existing=existing)
        chunks = []
        for _ in range(int(rng.integers(1, 4))):
            etype = str(rng.choice(["ap", "ap", "lf"]))
            chunk = rng.integers(-32768, 32768, (int(rng.integers(1, 400)), 385)).astype(np.int16)
            if rng.random() < 0.3:
                chunk = np.asfortranarray(chunk)
            chunks.append((etype, chunk))
        if i == 58:
            chunks.append(("nidq", chunks[0][1]))  # unknown file type -> KeyError
        if i == 59:
            chunks.append(("ap", chunks[0][1][:, :100]))  # not enough channels -> IndexError
        out = []
        for name, methods in [("ref", REF_C), ("new", NEW_C)]:
            root = Path(tmp).joinpath(f"split_{i}_{name}")
            out.append(run_split_pipeline(methods, root, case, meta, chunks))
            shutil.rmtree(root)
        for key in out[0]:
            check("split pipeline", f"case {i} ({kind}, {case}) {key}", out[0][key], out[1].get(key))
        check("split pipeline", f"case {i} result keys", list(out[0]), list(out[1]))


# ----------------------------------------------------------------------------------------------------------------------
# E. end to end on real files: NP2Converter.process then NP2Reconstructor (_reconstruct, write_metadata)
# ----------------------------------------------------------------------------------------------------------------------
def run_end_to_end(conv_cls, rec_cls, root, case, raw_bytes, meta_text):
    root = Path(root)
    probe = root.joinpath("probe00")
    probe.mkdir(parents=True)
    ap_file = probe.joinpath(BIN_NAME)
    ap_file.write_bytes(raw_bytes)
    ap_file.with_suffix(".meta").write_text(meta_text)
    res = {}
    del LOG.messages[:]
    conv = conv_cls(ap_file, post_check=case["post_check"], compress=False, delete_original=case["delete_original"])
    conv.init_params(nwindow=case["nwindow"], nshank=case["nshank"], extra=case["extra"])
    res["process"] = outcome(conv.process, overwrite=case["overwrite"])
    conv.sr.close()
    for info in getattr(conv, "shank_info", {}).values():  # in case of an exception half way
        for k in ["ap_open_file", "lf_open_file"]:
            if k in info:
                info.pop(k).close()
    res["shank_info"] = {
        sh: {k: describe(v, root) for k, v in info.items()} for sh, info in getattr(conv, "shank_info", {}).items()
    }
    res["tree_split"] = tree(root)
    res["log_split"] = [(level, msg.replace(str(root), "<root>")) for level, msg in LOG.messages]
    if res["process"] != ("ok", 1) or case["nshank"] is not None:
        return res
    # every shank has been written: rebuild the original file
    if ap_file.exists():
        ap_file.unlink()
    if case["meta_before_reconstruction"] == "absent":
        ap_file.with_suffix(".meta").unlink()
    elif case["meta_before_reconstruction"] == "stale":
        ap_file.with_suffix(".meta").write_text(meta_text.replace(f"fileSizeBytes={len(raw_bytes)}", "fileSizeBytes=12"))
    del LOG.messages[:]
    rec = rec_cls(root, "probe00", compress=False)
    if case["rec_window"] is None:
        res["reconstruct"] = outcome(rec.process)
    else:  # same sequence as NP2Reconstructor.process, with a window smaller than the recording
        def prepare():
            rec.shank_info = rec._prepare_files()
            rec.get_params()
            rec.samples_window = case["rec_window"]

        res["prepare"] = outcome(prepare)
        res["reconstruct"] = outcome(rec._reconstruct)
        res["write_metadata"] = outcome(rec.write_metadata)
    res["rec_shank_info"] = {
        sh: {k: describe(v, root) for k, v in info.items()}
        for sh, info in (getattr(rec, "shank_info", None) or {}).items()
    }
    res["tree_reconstructed"] = tree(root)
    res["log_reconstruct"] = [(level, msg.replace(str(root), "<root>")) for level, msg in LOG.messages]
    res["lossless"] = ap_file.exists() and ap_file.read_bytes() == raw_bytes
    return res


def test_end_to_end(rng, tmp):
    n_lossless = 0
    for i in range(14):
        kind = ["blocks", "runs", "random", "single"][i % 4]
        shank = random_shank_map(rng, kind)
        fullscale, maxint = FULLSCALE_MAXINT[i % len(FULLSCALE_MAXINT)]
        nwindow = 12 * int(rng.integers(60, 200))
        ns = int(rng.integers(nwindow + 600, 4 * nwindow))  # not aligned with the window
        raw = rng.integers(-32768, 32768, (ns, 385)).astype(np.int16)
        raw[:, -1] = rng.integers(0, 2 ** 15, ns)
        if i == 0:  # every int16 value
            raw[:, :NC].flat[:65536] = np.arange(-32768, 32768).astype(np.int16)
        raw_bytes = raw.tobytes()
        # one case out of three keeps a duration that does not match the file (the reader then amends it)
        meta_text = make_meta_text(shank, fullscale, maxint, len(raw_bytes), time_secs=ns / 29999.757983 if i % 3 else 1)
        case = dict(
            nwindow=nwindow if i % 3 else float(nwindow), nshank=[int(np.unique(shank)[0])] if i in (5, 11) else None,
            extra="" if i % 2 else "_x", overwrite=bool(i % 5 == 0), post_check=bool(i % 2), delete_original=bool(i % 4 == 1),
            meta_before_reconstruction=["absent", "matching", "stale"][i % 3],
            rec_window=[None, 1000, 1234, ns][i % 4],
        )
        out = []
        for name, conv_cls, rec_cls in [("ref", RefNP2Converter, RefNP2Reconstructor),
                                        ("new", neuropixel.NP2Converter, neuropixel.NP2Reconstructor)]:
            root = Path(tmp).joinpath(f"e2e_{i}_{name}")
            out.append(run_end_to_end(conv_cls, rec_cls, root, case, raw_bytes, meta_text))
            shutil.rmtree(root)
        check("end to end", f"case {i} result keys", list(out[0]), list(out[1]))
        for key in out[0]:
            check("end to end", f"case {i} ({kind}, {fullscale}/{maxint}, ns={ns}, {case}) {key}", out[0][key], out[1].get(key))
        n_lossless += bool(out[0].get("lossless")) and bool(out[1].get("lossless"))
    COUNTS["end to end: byte-exact round trips (both implementations)"] = n_lossless


def main():
    tmp = tempfile.mkdtemp(prefix="c03_demo_")
    try:
        # the reference classes really use the copies of this file
        for cls, ref in [(RefNP2Converter, RefNP2ConverterMethods), (RefNP2Reconstructor, RefNP2ReconstructorMethods)]:
            for name, fn in vars(ref).items():
                if callable(fn):
                    assert getattr(cls, name) is fn, name
        test_chans_subset(np.random.default_rng(301))
        test_ind2save(np.random.default_rng(302))
        test_split_pipeline(np.random.default_rng(303), tmp)
        test_end_to_end(np.random.default_rng(304), tmp)
    except Exception:  # noqa
        traceback.print_exc()
        print("FAILED: the harness itself raised")
        return 1
    finally:
        shutil.rmtree(tmp, ignore_errors=True)
    for group, n in COUNTS.items():
        print(f"{group}: {n}")
    if FAILURES:
        print(f"FAILED: {len(FAILURES)} difference(s) between the reference and the refactored implementation")
        for f in FAILURES[:20]:
            print("  " + f)
        return 1
    print("OK: reference and refactored implementations are identical on all inputs")
    return 0


if __name__ == "__main__":
    sys.exit(main())
